"""E-TYPE: compile_fail witnesses (rustdoc, nightly so that the error code is checked), each with a compiling `no_run` twin.
Nothing is executed: twins are only compiled."""
import os
import re
import shutil
import subprocess
import tempfile

from . import extract


def run(repo=None):
    """returns (ok, results) with results = list of (test name, kind, passed)"""
    repo = repo or extract.REPO
    src = os.path.join(extract.VERIF, "witness")
    tmp = tempfile.mkdtemp(prefix="jxlv-witness-")
    try:
        crate = os.path.join(tmp, "witness")
        shutil.copytree(src, crate, ignore=shutil.ignore_patterns("target"))
        ct = os.path.join(crate, "Cargo.toml")
        s = open(ct).read().replace("/repo/crates/", os.path.join(repo, "crates") + "/")
        open(ct, "w").write(s)
        shutil.copy(os.path.join(repo, "Cargo.lock"), os.path.join(crate, "Cargo.lock"))
        env = dict(os.environ, CARGO_NET_OFFLINE="true", CARGO_TARGET_DIR=os.path.join(tmp, "target"))
        env.pop("RUSTC_WORKSPACE_WRAPPER", None)
        p = subprocess.run(["cargo", "+nightly", "test", "--doc", "--offline"], cwd=crate, env=env, capture_output=True, text=True)
        out = p.stdout + p.stderr
        res = []
        for m in re.finditer(r"^test src/lib\.rs - (\w+) \(line \d+\)( - compile fail| - compile)? \.\.\. (\w+)", out, re.M):
            res.append((m.group(1), "compile_fail" if (m.group(2) or "").endswith("fail") else "twin", m.group(3) == "ok"))
        ok = p.returncode == 0 and bool(res) and all(r[2] for r in res)
        return ok, res, out[-2000:]
    finally:
        shutil.rmtree(tmp, ignore_errors=True)


def rule(ctx, names, rid="E-TYPE"):
    """run the witnesses and record one obligation per (witness, kind) among `names`"""
    ctx.rule(rid, "compile_fail witnesses (error code checked on nightly) with compiling no_run twins: a program that duplicates a "
                  "mutable view or an allocation handle, builds a raw view without unsafe, reuses a grid while its split halves are "
                  "alive, or reads a handle's fields must fail to type-check")
    ok, res, tail = run(ctx.repo)
    seen = set()
    for nm, kind, passed in res:
        if nm not in names:
            continue
        seen.add((nm, kind))
        if passed:
            ctx.ok(rid, "%s:%s" % (nm, kind), "rustdoc %s" % ("rejected with the expected error code" if kind == "compile_fail" else "twin compiles"), nontrivial=kind == "compile_fail")
        else:
            ctx.bad(rid, "%s:%s" % (nm, kind), "type-level witness %s (%s) no longer holds: %s" % (nm, kind, "the violating program now compiles" if kind == "compile_fail" else "the twin no longer compiles (witness is vacuous)"))
    for nm in names:
        for kind in ("compile_fail", "twin"):
            if (nm, kind) not in seen:
                ctx.bad(rid, "%s:%s-missing" % (nm, kind), "witness did not run (cargo +nightly test --doc failed): %s" % tail[-300:])

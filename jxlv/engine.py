"""Rule-evaluation context: obligations, violations, floors, known findings, evidence, replay files."""
import glob
import hashlib
import json
import os
import re
import sys
import time

from . import extract, facts

VERIF = extract.VERIF
EVID = os.environ.get("JXLV_EVID") or os.path.join(VERIF, "evidence")
REPLAY = os.path.join(EVID, "replay")
KNOWN = os.path.join(VERIF, "known_findings.json")

LIB_CRATES = ["jxl_bitstream", "jxl_coding", "jxl_color", "jxl_frame", "jxl_grid", "jxl_image", "jxl_jbr",
              "jxl_modular", "jxl_oxide", "jxl_render", "jxl_threadpool", "jxl_vardct", "jxl_oxide_common"]

ASSUME_COMMON = [
    "only x86_64-unknown-linux-gnu is analysed: rust-std for other targets is not installed, so "
    "cfg(target_arch = aarch64|wasm32) code is never parsed",
    "trusted base: rustc's type checking, trait/name resolution and MIR construction (nightly 1.97, "
    "-Zmir-opt-level=0, debug assertions and overflow checks on); the jxlv driver's serialisation of it",
    "facts are extracted from /repo's working tree at check time (content-hash keyed); nothing is executed",
]


class Ctx:
    def __init__(self, pid, tier, configs=("workspace",), repo=None):
        self.pid = pid
        self.tier = tier
        self.t0 = time.time()
        self.programs = {}
        self.repo = repo
        for c in configs:
            d = extract.facts_dir(c, repo=repo)
            self.programs[c] = facts.Program(d)
        self.prog = self.programs[configs[0]]
        self.config = configs[0]
        self.obligations = 0
        self.discharged = 0
        self.nontrivial = set()
        self.samples = []
        self.violations = []   # dicts
        self.counts = {}
        self.rules = {}
        self.notes = []
        self.fn_seen = set()
        self.assumptions = list(ASSUME_COMMON)
        self.undecided = []

    # ------------------------------------------------------------------
    def use_config(self, name):
        self.prog = self.programs[name]
        self.config = name

    def rule(self, rid, text):
        self.rules[rid] = text

    def assume(self, text):
        if text not in self.assumptions:
            self.assumptions.append(text)

    def not_decided(self, text):
        if text not in self.undecided:
            self.undecided.append(text)

    def count(self, name, n=1):
        self.counts[name] = self.counts.get(name, 0) + n

    def seen(self, fn):
        if fn is not None:
            self.fn_seen.add((self.config, fn.path))

    def ok(self, rid, key, detail=None, nontrivial=False, fn=None):
        """an obligation that was examined and holds"""
        self.obligations += 1
        self.discharged += 1
        self.count(rid)
        k = "%s|%s" % (rid, key)
        if nontrivial:
            self.nontrivial.add(k)
        self.seen(fn)
        if detail is not None and len(self.samples) < 400:
            self.samples.append({"rule": rid, "instance": key, "holds": True, "how": detail,
                                 "config": self.config})

    def bad(self, rid, key, msg, fn=None, pos=None, path=None, extra=None, obligation=True):
        """an obligation that fails (or a census mismatch); key must not contain line numbers"""
        if obligation:
            self.obligations += 1
        self.count(rid)
        self.seen(fn)
        k = "%s|%s" % (rid, key)
        for v in self.violations:
            if v["key"] == k:
                return
        where = None
        if fn is not None:
            where = {"crate": fn.crate, "fn": fn.path, "file": fn.file,
                     "line": facts.pos_line(pos) if pos else fn.lo}
        v = {"property": self.pid, "rule": rid, "key": k, "message": msg, "where": where,
             "config": self.config}
        if path is not None and fn is not None:
            v["path"] = [{"bb": b, "line": facts.pos_line(fn.term_pos(b)), "term": fn.term(b)[0]} for b in path]
        if extra:
            v["extra"] = extra
        self.violations.append(v)

    def anchor_missing(self, rid, what):
        self.bad(rid, "anchor-missing:" + what,
                 "anchor %s not found in the analysed program: the rule's table must be re-confirmed" % what)

    def floor(self, name, minimum):
        n = self.counts.get(name, 0)
        if n < minimum:
            self.bad("FLOOR", "%s" % name,
                     "rule %s examined %d instances, fewer than the %d confirmed by reading (matcher broken or code moved)"
                     % (name, n, minimum), obligation=False)

    # ------------------------------------------------------------------
    def self_test(self):
        """thorough tier: the registered mutants of this property (small compiling edits of /repo) must each make this check
        fire with the expected key, on a scratch worktree; a missed mutant means the checker itself regressed"""
        idxp = os.path.join(VERIF, "mutants", "index.json")
        if not os.path.exists(idxp) or os.environ.get("JXLV_EVID"):
            return
        import subprocess
        names = [m["name"] for m in json.load(open(idxp)) if m["property"] == self.pid]
        if not names:
            return
        self.rule("SELFTEST", "each registered mutant of this property (tools/make_mutants.py: a small edit that still compiles) makes the "
                              "check fire with the expected key on a scratch worktree of /repo")
        p = subprocess.run([sys.executable, os.path.join(VERIF, "tools", "selftest.py")] + names, capture_output=True, text=True)
        stdout = p.stdout
        for _retry in range(2):
            # a run that produced no verdict for a mutant (scratch worktree could not be made, the helper died) is not a verdict: run those again
            todo = [nm for nm in names if not any(l.startswith(nm + " ") and (" fires" in l or " MISSED" in l) for l in stdout.splitlines())]
            if not todo:
                break
            p2 = subprocess.run([sys.executable, os.path.join(VERIF, "tools", "selftest.py"), "-j", "2"] + todo, capture_output=True, text=True)
            stdout = "\n".join(l for l in stdout.splitlines() if not any(l.startswith(nm + " ") for nm in todo)) + "\n" + p2.stdout
        for nm in names:
            line = [l for l in stdout.splitlines() if l.startswith(nm + " ")]
            if line and " fires" in line[0]:
                self.ok("SELFTEST", "mutant:" + nm, "fires", nontrivial=True)
            else:
                self.bad("SELFTEST", "mutant-missed:" + nm, "the checker no longer detects the registered mutant %s (%s)" % (nm, line[0].strip() if line else "no result"))

    def finish(self, explanation, level="other", checker_cmd=None, trusted_base=None):
        if self.tier == "thorough":
            self.self_test()
        known = []
        try:
            with open(KNOWN) as fh:
                known = json.load(fh).get("findings", [])
        except FileNotFoundError:
            pass
        known_keys = {(k["property"], k["key"]): k for k in known if k.get("status") == "known"}
        os.makedirs(REPLAY, exist_ok=True)
        for old in glob.glob(os.path.join(REPLAY, self.pid + "-*.json")):
            os.remove(old)
        real = []
        lines = []
        for v in self.violations:
            kk = (self.pid, v["key"])
            if kk in known_keys:
                lines.append("KNOWN-FINDING: property=%s %s [%s]" % (self.pid, known_keys[kk].get("what", ""), v["key"]))
                continue
            real.append(v)
        for v in real:
            slug = re.sub(r"[^A-Za-z0-9_.-]+", "_", v["key"])[:120]
            h = hashlib.sha1(v["key"].encode()).hexdigest()[:8]
            rp = os.path.join(REPLAY, "%s-%s-%s.json" % (self.pid, slug, h))
            doc = dict(v)
            doc["rule_text"] = self.rules.get(v["rule"], "")
            doc["source"] = source_excerpt(v, self.repo)
            with open(rp, "w") as fh:
                json.dump(doc, fh, indent=1)
            w = v["where"]
            wtxt = "%s:%s %s" % (w["file"], w["line"], w["fn"]) if w else "-"
            lines.append("VIOLATION property=%s replay=%s" % (self.pid, rp))
            lines.append("  rule=%s key=[%s] at %s :: %s" % (v["rule"], v["key"], wtxt, v["message"]))
        wall = time.time() - self.t0
        cov = {
            "explanation": explanation,
            "rule": "; ".join("%s: %s" % (k, t) for k, t in self.rules.items()),
            "obligations": self.obligations,
            "discharged": self.discharged,
            "evaluations": max(self.obligations, 1),
            "distinct_nontrivial": len(self.nontrivial),
            "samples": self.samples[:60] if self.samples else [{"note": "no instance"}],
            "instances_by_rule": self.counts,
            "functions_analysed": len(self.fn_seen),
            "configs": list(self.programs.keys()),
            "crates": sorted(self.prog.crates.keys()),
            "checker_cmd": checker_cmd or ("./check %s --tier %s" % (self.pid, self.tier)),
            "trusted_base": trusted_base or ["rustc nightly 1.97 front end + MIR builder", "jxlv-driver", "jxlv rule code and its reviewed tables"],
            "not_decided": self.undecided,
            "known_findings_suppressed": len(self.violations) - len(real),
            "exhaustive": False,
        }
        ev = {
            "property_id": self.pid,
            "tier": self.tier,
            "seed": int(os.environ.get("VERIF_SEED", "0") or 0),
            "level": level,
            "coverage": cov,
            "assumptions": self.assumptions,
            "wall_s": round(wall, 2),
            "violations": len(real),
        }
        os.makedirs(EVID, exist_ok=True)
        with open(os.path.join(EVID, self.pid + ".json"), "w") as fh:
            json.dump(ev, fh, indent=1)
        for l in lines:
            print(l)
        print("[%s] %s tier: %d obligations, %d discharged, %d violations (%d known), %d functions, %.1fs"
              % (self.pid, self.tier, self.obligations, self.discharged, len(real),
                 len(self.violations) - len(real), len(self.fn_seen), wall))
        return 1 if real else 0


def source_excerpt(v, repo=None):
    w = v.get("where")
    if not w:
        return []
    repo = repo or extract.REPO
    p = os.path.join(repo, w["file"]) if not os.path.isabs(w["file"]) else w["file"]
    try:
        with open(p) as fh:
            L = fh.read().split("\n")
    except OSError:
        return []
    lines = {w["line"]}
    for s in v.get("path", []):
        lines.add(s["line"])
    out = []
    for ln in sorted(lines):
        if 1 <= ln <= len(L):
            out.append("%d: %s" % (ln, L[ln - 1]))
    return out[:80]


def explain(path):
    with open(path) as fh:
        d = json.load(fh)
    print("property %s  rule %s" % (d["property"], d["rule"]))
    print("key      %s" % d["key"])
    print("rule     %s" % d.get("rule_text", ""))
    w = d.get("where")
    if w:
        print("where    %s:%s  in %s" % (w["file"], w["line"], w["fn"]))
    print("what     %s" % d["message"])
    if d.get("path"):
        print("path     " + " -> ".join("bb%d(%s@%d)" % (s["bb"], s["term"], s["line"]) for s in d["path"]))
    for l in d.get("source", []):
        print("   | " + l)

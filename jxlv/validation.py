"""Discovery of validation checks: comparisons whose taken edge leads straight to an error return.
Used by R-LIMIT (C01), R-BOXSIZE (C10)."""
from .facts import callee, op_local, op_place, op_const_int, pos_line
from .mirutil import Defs, access_path, switch_subject, find_path_edges, TRY_BRANCH, FROM_RESIDUAL

CMP = {"Lt": "<", "Le": "<=", "Gt": ">", "Ge": ">=", "Eq": "==", "Ne": "!="}
FLIP = {"<": ">", "<=": ">=", ">": "<", ">=": "<=", "==": "==", "!=": "!="}
NEG = {"<": ">=", "<=": ">", ">": "<=", ">=": "<", "==": "!=", "!=": "=="}


def subject_name(f, defs, o, depth=0, use_names=True):
    """stable, line-free description of an operand: user variable name, field path, `len(x)`, `ret:callee`, or constant"""
    k = op_const_int(o)
    if k is not None:
        return k
    p = op_place(o)
    if p is None:
        return None
    flds = [str(e[2]) if e[2] is not None else str(e[1]) for e in p[1:] if isinstance(e, list) and e[0] == "."]
    l = p[0]
    base = None
    if f.local_name(l) and (use_names or defs.single(l) is None):
        base = f.local_name(l)
    else:
        d = defs.single(l)
        if d and d[2] == "assign" and depth < 12:
            rv = d[3][2]
            if rv[0] == "use":
                base = subject_name(f, defs, rv[1], depth + 1, use_names)
            elif rv[0] == "cast":
                base = subject_name(f, defs, rv[2], depth + 1, use_names)
            elif rv[0] == "ref":
                base = subject_name(f, defs, ["c", rv[2]], depth + 1, use_names)
            elif rv[0] == "bin" and rv[1] in ("Add", "Sub", "Mul", "Shl", "Shr", "AddWithOverflow", "SubWithOverflow", "MulWithOverflow", "BitAnd", "Div", "Rem"):
                a = subject_name(f, defs, rv[2], depth + 1, use_names)
                b = subject_name(f, defs, rv[3], depth + 1, use_names)
                sym = {"Add": "+", "AddWithOverflow": "+", "Sub": "-", "SubWithOverflow": "-", "Mul": "*", "MulWithOverflow": "*",
                       "Shl": "<<", "Shr": ">>", "BitAnd": "&", "Div": "/", "Rem": "%"}[rv[1]]
                if isinstance(a, int) and isinstance(b, int) and sym in ("+", "-", "*", "<<", ">>", "&") and 0 <= b < 4096:
                    base = {"+": a + b, "-": a - b, "*": a * b, "<<": a << b, ">>": a >> b, "&": a & b}[sym]
                else:
                    base = "(%s%s%s)" % (a, sym, b)
        elif d and d[2] == "call" and depth < 12:
            c = callee(d[3])
            if c:
                nm = c["fn"].split("::")[-1]
                if c["fn"] == TRY_BRANCH and d[3][2]:
                    base = subject_name(f, defs, d[3][2][0], depth + 1, use_names)
                elif nm in ("len", "deref", "deref_mut", "clone", "from", "into", "unwrap", "as_ref", "borrow") and d[3][2]:
                    inner = subject_name(f, defs, d[3][2][0], depth + 1, use_names)
                    base = ("len(%s)" % inner) if nm == "len" else inner
                else:
                    base = "ret:" + nm
        if base is None and 1 <= l <= f.argc:
            base = "arg%d" % l
    if isinstance(base, int) and not flds:
        return base
    flds = [x for x in flds if x not in ("0",) or base is None]
    if base is None and not flds:
        return None
    s = str(base) if base is not None else ""
    for x in flds:
        if x == "0" and (s.startswith("ret:") or s == ""):
            continue
        s = (s + "." + x) if s else x
    return s


def err_return_blocks(f):
    """blocks that build an Err into the return place (directly or through from_residual / Err aggregate assigned to _0)"""
    out = set()
    for b, blk in enumerate(f.blocks):
        if f.is_cleanup(b):
            continue
        for st in blk[0]:
            if st[0] == "=" and st[1] == [0] and st[2][0] == "agg" and st[2][1][0] == "adt" and st[2][1][1] == "core::result::Result" and st[2][1][2] == "Err":
                out.add(b)
        t = blk[1]
        if t[0] == "call" and t[3] == [0]:
            c = callee(t)
            if c and c["fn"] == FROM_RESIDUAL:
                out.add(b)
    return out


def none_return_blocks(f):
    out = set()
    for b, blk in enumerate(f.blocks):
        for st in blk[0]:
            if st[0] == "=" and st[1] == [0] and st[2][0] == "agg" and st[2][1][0] == "adt" and st[2][1][1] == "core::option::Option" and st[2][1][2] == "None":
                out.add(b)
    return out


def panics(f):
    out = set()
    for b, t in f.calls():
        c = callee(t)
        if c and c["fn"].startswith("core::panicking::") and t[4] is None:
            out.add(b)
    return out


def leads_to_error(f, start, errs, maxlen=90):
    """every path from `start` reaches an error-return block within a short distance, passing no other switch that
    can escape (i.e. start is an 'error arm'): approximated as: an error block is reachable from start, and no
    non-error `ret`-building assignment of Ok is reachable without passing an error block"""
    seen = set()
    work = [(start, 0)]
    found = False
    while work:
        b, d = work.pop()
        if b in seen:
            continue
        seen.add(b)
        if b in errs:
            found = True
            continue
        if d > maxlen:
            return False
        t = f.term(b)
        if t[0] == "ret":
            return False
        for s in f.succs(b):
            work.append((s, d + 1))
    return found


def checks(f, errs=None, include_panics=False):
    """validation checks in f: list of dict(subject, op, other, pos, bb, fail_edge=(bb,succ,label))
    normalised so that `subject op other` is the REJECT condition."""
    defs = Defs(f)
    if errs is None:
        errs = err_return_blocks(f)
        if include_panics:
            errs = errs | panics(f)
    out = []
    if not errs:
        return out
    for b, blk in enumerate(f.blocks):
        if f.is_cleanup(b):
            continue
        t = blk[1]
        if t[0] != "switch":
            continue
        l = op_local(t[1])
        if l is None:
            continue
        cmp_st = None
        neg = False
        cur = l
        for _ in range(4):
            d = None
            for st in reversed(blk[0]):
                if st[0] == "=" and st[1] == [cur]:
                    d = st
                    break
            if d is None:
                break
            rv = d[2]
            if rv[0] == "bin" and rv[1] in CMP:
                cmp_st = d
                break
            if rv[0] == "un" and rv[1] == "Not":
                neg = not neg
                cur = op_local(rv[2])
                continue
            if rv[0] == "use":
                cur = op_local(rv[1])
                continue
            break
        cmp_sts = [cmp_st] if cmp_st is not None else []
        if cmp_st is None and d is None and cur is not None:
            # a named condition (`let empty = w == 0 || h == 0; if empty {..}`): the switch reads a bool local that other blocks
            # assign either a constant or a comparison - each such comparison decides this branch with the same polarity
            cands = []
            for dd in defs.of(cur):
                if f.is_cleanup(dd[0]):
                    continue
                if dd[2] != "assign":
                    cands = None
                    break
                rv_ = dd[3][2]
                if rv_[0] == "use" and rv_[1][0] in ("c", "m") and len(rv_[1][1]) == 1:
                    # `flag = move _tmp` with `_tmp = Eq(..)` earlier in the same block
                    src = rv_[1][1][0]
                    prev = [st for st in f.stmts(dd[0])[:dd[1]] if st[0] == "=" and st[1] == [src]]
                    if prev and prev[-1][2][0] == "bin" and prev[-1][2][1] in CMP:
                        cands.append(prev[-1])
                        continue
                    cands = None
                    break
                if rv_[0] == "bin" and rv_[1] in CMP:
                    cands.append(dd[3])
                elif rv_[0] == "use" and rv_[1][0] == "k":
                    continue
                else:
                    cands = None
                    break
            if cands and f.local_ty(cur) == "bool":
                cmp_sts = cands
        for cmp_st in cmp_sts:
          rv = cmp_st[2]
          op = CMP[rv[1]]
          a = subject_name(f, defs, rv[2])
          c = subject_name(f, defs, rv[3])
          a_deep = subject_name(f, defs, rv[2], use_names=False)
          c_deep = subject_name(f, defs, rv[3], use_names=False)
          # which edge rejects?
          for v, s in [(x[0], x[1]) for x in t[2]] + [("otherwise", t[3])]:
              if not leads_to_error(f, s, errs):
                  continue
              # edge value: '0' means comparison false (after neg handling)
              truth = (v != "0")
              if v == "otherwise" and not any(x[0] == "0" for x in t[2]):
                  continue
              if neg:
                  truth = not truth
              cond_op = op if truth else NEG[op]
              subj, other = a, c
              sd, od = a_deep, c_deep
              subj_o, other_o = rv[2], rv[3]
              if isinstance(subj, int) and not isinstance(other, int):
                  subj, other, cond_op = other, subj, FLIP[cond_op]
                  sd, od = od, sd
                  subj_o, other_o = other_o, subj_o
              out.append(dict(subject=subj, op=cond_op, other=other, pos=cmp_st[3], bb=b, fail_edge=(b, s, v), macro=cmp_st[4],
                              subject_local=op_local(subj_o), other_local=op_local(other_o), deep=norm(sd, cond_op, od)))
    return out


def norm(subject, op, other):
    """canonical text of a reject condition; integer bounds are normalised to strict form (x >= 5  ==  x > 4)"""
    if isinstance(other, int):
        if op == ">=":
            op, other = ">", other - 1
        elif op == "<=":
            op, other = "<", other + 1
    return "%s %s %s" % (subject, op, other)


def checks_deep(prog, f, depth=2, _seen=None):
    """validation checks of f and of the local helper functions it calls (one copy per call site), so that extracting a check
    into a private helper does not make it disappear; entries from helpers carry `via` = the helper's path and `bb` of the
    call site in f"""
    out = list(checks(f))
    if depth <= 0:
        return out
    errs_f = err_return_blocks(f)
    _seen = (_seen or set()) | {f.path}
    crate = f.path.lstrip("<&").split("::")[0]
    for b, t in f.calls():
        c = callee(t)
        if not c:
            continue
        name = c.get("res", c["fn"])
        g = prog.fn(name) or prog.fn(c["fn"])
        if g is None or g.path in _seen or g.crate != f.crate or g.kind == "Promoted":
            continue
        if len(g.blocks) > 250:
            continue
        for cc in checks_deep(prog, g, depth - 1, _seen):
            d = dict(cc)
            d["via"] = cc.get("via") or g.path
            d["bb"] = b
            d["pos"] = t[-2]
            d["subject_local"] = None
            d["other_local"] = None
            out.append(d)
        # a boolean predicate helper whose answer decides an error return: its comparisons are checks of f
        if g.local_ty(0) == "bool" and t[3] and len(t[3]) == 1 and t[4] is not None:
            want = bool_result_rejects(f, t[3][0], t[4], errs_f)
            if want is not None:
                for cc in bool_fn_checks(g, want):
                    d = dict(cc)
                    d["via"] = g.path
                    d["bb"] = b
                    d["pos"] = t[-2]
                    d["subject_local"] = None
                    d["other_local"] = None
                    out.append(d)
    return out


def bool_result_rejects(f, res, target, errs):
    """the value (True/False) of bool local `res` (a call result available in block `target`) on which f goes to an error return,
    or None when the result does not decide one"""
    if not errs:
        return None
    blk = f.blocks[target]
    t = blk[1]
    if t[0] != "switch":
        return None
    cur, neg = op_local(t[1]), False
    for _ in range(4):
        if cur == res:
            break
        d = None
        for st in reversed(blk[0]):
            if st[0] == "=" and st[1] == [cur]:
                d = st
                break
        if d is None:
            return None
        rv = d[2]
        if rv[0] == "un" and rv[1] == "Not":
            neg = not neg
            cur = op_local(rv[2])
        elif rv[0] == "use":
            cur = op_local(rv[1])
        else:
            return None
    if cur != res:
        return None
    for v, s in [(x[0], x[1]) for x in t[2]] + [("otherwise", t[3])]:
        if v == "otherwise" and not any(x[0] == "0" for x in t[2]):
            continue
        if leads_to_error(f, s, errs):
            truth = (v != "0")
            return (not truth) if neg else truth
    return None


def bool_fn_checks(g, want):
    """comparisons of the boolean function g that force it to return `want`: as check dicts (`subject op other` => g() == want)"""
    defs = Defs(g)
    const_blocks, other_assign, direct = set(), [], []
    for b, blk in enumerate(g.blocks):
        if g.is_cleanup(b):
            continue
        for st in blk[0]:
            if st[0] != "=" or st[1] != [0]:
                continue
            rv = st[2]
            k = op_const_int(rv[1]) if rv[0] == "use" else None
            if k is not None:
                if bool(k) == want:
                    const_blocks.add(b)
                else:
                    other_assign.append(b)
                continue
            cmp_st, cur = None, None
            if rv[0] == "bin" and rv[1] in CMP:
                cmp_st = st
            elif rv[0] == "use":
                cur = op_local(rv[1])
                d = defs.single(cur) if cur is not None else None
                if d and d[2] == "assign" and d[3][2][0] == "bin" and d[3][2][1] in CMP:
                    cmp_st = d[3]
            if cmp_st is not None:
                direct.append((b, cmp_st))
            else:
                other_assign.append(b)
    out = list(checks(g, errs=const_blocks)) if const_blocks else []
    # `.. && last` / `.. || last`: the last operand is assigned to the result directly; it forces `want` only when every other way out
    # already returns `want`
    if direct and not other_assign:
        for b, st in direct:
            rv = st[2]
            op = CMP[rv[1]]
            cond_op = op if want else NEG[op]
            a = subject_name(g, defs, rv[2])
            c = subject_name(g, defs, rv[3])
            sd = subject_name(g, defs, rv[2], use_names=False)
            od = subject_name(g, defs, rv[3], use_names=False)
            if isinstance(a, int) and not isinstance(c, int):
                a, c, cond_op = c, a, FLIP[cond_op]
                sd, od = od, sd
            out.append(dict(subject=a, op=cond_op, other=c, pos=st[3], bb=b, fail_edge=(b, b, "direct"), macro=st[4],
                            subject_local=None, other_local=None, deep=norm(sd, cond_op, od)))
    return out


import re as _re

_TOK = _re.compile(r"ret:[A-Za-z_0-9]+|\.[A-Za-z_][A-Za-z_0-9]*|[A-Za-z_][A-Za-z_0-9]*|\d+|\S")


def shape(cond):
    """the condition with the names of local variables wildcarded: field names, `len`, `ret:callee`, `argN`, constants and
    operators are kept, every other identifier becomes `_` (so renaming a local does not change the shape)"""
    out = []
    for t in _TOK.findall(cond):
        if t.startswith("ret:"):
            out.append(t)
        elif t[0].isalpha() or t[0] == "_":
            if t in ("len",) or _re.fullmatch(r"arg\d+", t):
                out.append(t)
            else:
                out.append("_")
        else:
            out.append(t)
    return "".join(out)


def match_table(cs, wanted, deep_ref=None):
    """cs: checks of one function (dicts); wanted: list of (cond, mincount).  Returns {cond: matched checks}.
    deep_ref: {cond: [definition-resolved forms recorded when the table was confirmed]} - a fourth way to recognise a check whose
    local variables were renamed (the deep form does not contain local names).
    1. exact normalised text; 2. same operator and same integer bound, unique; 3. same shape with local names wildcarded, provided
    the number of unmatched checks of that shape equals the number of unmatched table entries of that shape (no guessing)."""
    texts = [norm(c["subject"], c["op"], c["other"]) for c in cs]
    # `a < b` written as `b > a` is the same check (only relevant when neither side is a constant: norm() already puts constants right)
    flips = [norm(c["other"], FLIP[c["op"]], c["subject"]) if not isinstance(c["other"], int) and c["other"] is not None else None for c in cs]
    used = set()
    res = {}
    for cond, n in wanted:
        idx = [i for i, t in enumerate(texts) if t == cond and i not in used]
        if len(idx) >= n:
            res[cond] = [cs[i] for i in idx]
            # claim only as many as the entry needs: the same comparison written the other way round (`b > a` for `a < b`) may be
            # another entry's, and after a refactor all of them can have one spelling
            used.update(idx[:n])
    # the flipped spelling, only for entries the exact spelling did not satisfy and only among checks nothing else claimed
    for cond, n in wanted:
        if cond in res:
            continue
        idx = [i for i, t in enumerate(texts) if (t == cond or flips[i] == cond) and i not in used]
        if len(idx) >= n:
            res[cond] = [cs[i] for i in idx]
            used.update(idx)
    for cond, n in wanted:
        if cond in res:
            continue
        parts = cond.rsplit(" ", 2)
        if len(parts) == 3 and parts[2].lstrip("-").isdigit() and abs(int(parts[2])) >= 2:
            idx = [i for i, c in enumerate(cs) if i not in used and norm("_", c["op"], c["other"]) == "_ %s %s" % (parts[1], parts[2])]
            if len(idx) == n:
                res[cond] = [cs[i] for i in idx]
                used.update(idx)
    pend = [(cond, n) for cond, n in wanted if cond not in res]
    by_shape = {}
    for cond, n in pend:
        by_shape.setdefault(shape(cond), []).append((cond, n))
    for sh, ents in by_shape.items():
        idx = [i for i, t in enumerate(texts) if i not in used and shape(t) == sh]
        need = sum(n for _, n in ents)
        if len(idx) == need and need > 0 and not _re.fullmatch(r"[_ <>=!]+", sh):
            k = 0
            for cond, n in ents:
                res[cond] = [cs[i] for i in idx[k:k + n]]
                k += n
            used.update(idx)
    if deep_ref:
        for cond, n in wanted:
            if cond in res:
                continue
            want_deep = deep_ref.get(cond) or []
            idx = [i for i, c in enumerate(cs) if i not in used and c.get("deep") in want_deep]
            if len(idx) >= n and n > 0:
                res[cond] = [cs[i] for i in idx[:max(n, len(idx))]]
                used.update(idx)
    return res


import json as _json
import os as _os

_DEEP = None


def deep_ref(table, fn_path):
    """recorded definition-resolved forms for the entries of `table` (limit / icc / jbr / coding) in function fn_path"""
    global _DEEP
    if _DEEP is None:
        p = _os.path.join(_os.path.dirname(_os.path.dirname(_os.path.abspath(__file__))), "tables", "check_deep.json")
        try:
            _DEEP = _json.load(open(p))
        except (OSError, ValueError):
            _DEEP = {}
    return _DEEP.get(table, {}).get(fn_path, {})


def closure_siblings(prog, path):
    """the closures created by the same function at the same nesting level as the closure `path` (closure numbers are positions in
    the source: adding or removing an unrelated closure renumbers them, so a table that names `f::{closure#2}` means `the closure of
    f that contains these checks`)"""
    m = _re.match(r"^(.*)::\{closure#\d+\}$", path)
    if not m:
        return []
    parent = m.group(1)
    cn = path.lstrip("<&").split("::")[0]
    if cn not in prog.crates:
        return []
    pat = _re.compile(_re.escape(parent) + r"::\{closure#\d+\}$")
    return [g for g in prog.crate(cn).fn_list if pat.match(g.path)]


def resolve_closure_entry(prog, path, wanted, table):
    """the function a table row named `path` refers to: the function of that path, or - for a closure - the sibling closure that
    satisfies most of the row's conditions (the named one on ties)"""
    f = prog.fn(path)
    if f is None:
        cn = path.lstrip("<&").split("::")[0]
        c2 = [x for x in prog.crate(cn).fn_list if x.path == path] if cn in prog.crates else []
        f = c2[0] if c2 else None
    sib = closure_siblings(prog, path)
    if len(sib) <= (1 if f is not None else 0):
        return f
    best, best_n = f, -1
    for g in ([f] if f is not None else []) + [x for x in sib if x is not f]:
        got = match_table(checks_deep(prog, g), wanted, deep_ref(table, path))
        n = sum(1 for cnd, k in wanted if len(got.get(cnd, [])) >= k)
        if n > best_n:
            best, best_n = g, n
    return best

"""Small symbolic normal form for integer expressions in MIR: an operand is expanded into the *set* of alternative expressions it can
hold (locals with several definitions - the arms of an `if`/`match` expression - contribute one alternative per definition).
Sums are flattened into sorted term lists and zero terms dropped, so `a + b`, `b + a` and `a + b + 0` have the same form.
Used to compare amounts (a guard's bound, a drained length, a recorded offset) for syntactic equality modulo this normal form."""
from .facts import callee, op_place, op_const_int
from .mirutil import Defs, TRY_BRANCH, access_path

MAX_ALT = 24


def _join_sum(a, b):
    ta = a[1] if isinstance(a, tuple) and a[0] == "+" else (a,)
    tb = b[1] if isinstance(b, tuple) and b[0] == "+" else (b,)
    terms = tuple(sorted((x for x in ta + tb if x != "0"), key=repr))
    if not terms:
        return "0"
    if len(terms) == 1:
        return terms[0]
    return ("+", terms)


def show(e):
    if isinstance(e, tuple):
        if e[0] == "+":
            return "(" + " + ".join(show(x) for x in e[1]) + ")"
        return "(%s %s %s)" % (show(e[1]), e[0], show(e[2]))
    return str(e)


class Sym:
    def __init__(self, fn):
        self.fn = fn
        self.defs = Defs(fn)
        self.stack = set()

    def operand(self, o, depth=0):
        k = op_const_int(o)
        if k is not None:
            return {str(k)}
        p = op_place(o)
        if p is None:
            return {"?"}
        return self.place(p, depth)

    def place(self, p, depth=0):
        fn = self.fn
        flds = [e for e in p[1:] if isinstance(e, list) and e[0] == "."]
        l = p[0]
        lty = fn.local_ty(l)
        if flds:
            if lty.startswith("(") and flds[-1][1] == 0 and len(flds) == 1:
                return self.local(l, depth)       # `.0` of a checked-arithmetic tuple
            if lty.startswith(("core::result::Result<", "core::ops::control_flow::ControlFlow<", "core::option::Option<")):
                return self.local(l, depth)       # payload of `?` plumbing
            ap = access_path(fn, self.defs, l)
            root = ("arg%d" % ap[0] if ap and 1 <= ap[0] <= fn.argc else (fn.local_name(ap[0]) if ap else None)) or "_%d" % l
            names = list(ap[1]) if ap else []
            names += [str(e[2]) if e[2] is not None else str(e[1]) for e in flds]
            return {root + "." + ".".join(names)}
        return self.local(l, depth)

    def local(self, l, depth=0):
        fn = self.fn
        if depth > 14 or l in self.stack:
            return {fn.local_name(l) or "_%d" % l}
        if 1 <= l <= fn.argc:
            return {"arg%d" % l}
        ds = [d for d in self.defs.of(l) if not fn.is_cleanup(d[0]) and d[2] in ("assign", "call")]
        if not ds:
            return {fn.local_name(l) or "_%d" % l}
        self.stack.add(l)
        out = set()
        for d in ds:
            out |= self.definition(d, depth + 1)
            if len(out) > MAX_ALT:
                break
        self.stack.discard(l)
        return out if 0 < len(out) <= MAX_ALT else {fn.local_name(l) or "_%d" % l}

    def definition(self, d, depth):
        fn = self.fn
        if d[2] == "assign":
            rv = d[3][2]
            k = rv[0]
            if k == "use":
                return self.operand(rv[1], depth)
            if k == "cast":
                return self.operand(rv[2], depth)
            if k == "ref":
                return self.place(rv[2], depth)
            if k == "bin":
                op = rv[1].replace("WithOverflow", "").replace("Unchecked", "")
                A, B = self.operand(rv[2], depth), self.operand(rv[3], depth)
                out = set()
                for a in A:
                    for b in B:
                        if op == "Add":
                            out.add(_join_sum(a, b))
                        else:
                            sym = {"Sub": "-", "Mul": "*", "Div": "/", "Rem": "%", "Shr": ">>", "Shl": "<<", "BitAnd": "&", "BitOr": "|"}.get(op, op)
                            out.add((sym, a, b))
                        if len(out) > MAX_ALT:
                            return out
                return out
            return {"rv:" + k}
        t = d[3]
        c = callee(t)
        if not c:
            return {"call:?"}
        nm = c["fn"]
        short = nm.split("::")[-1].split("<")[0]
        if nm == TRY_BRANCH and t[2]:
            return self.operand(t[2][0], depth)
        if short in ("from", "into", "clone", "deref", "deref_mut", "unwrap", "as_ref", "borrow", "to_owned") and t[2]:
            return self.operand(t[2][0], depth)
        if short == "len" and t[2]:
            return {"len(%s)" % show(x) for x in self.operand(t[2][0], depth)}
        return {"ret:" + short}

"""R-RAWINT: raw entropy-decoded integers (attacker-chosen u32/i32) must not reach panicking arithmetic at their own
width without a dominating ordering comparison.  Intraprocedural value-class taint on MIR."""
from ..facts import callee, op_local, op_place, op_const_int, pos_line
from ..mirutil import Defs, TRY_BRANCH

SOURCE_FNS = (
    "jxl_coding::Decoder::read_varint", "jxl_coding::Decoder::read_varint_with_multiplier",
    "jxl_coding::Decoder::read_varint_with_multiplier_clustered", "jxl_coding::DecoderRleMode::<'_>::read_varint_clustered",
    "jxl_coding::DecoderInner::read_varint_with_multiplier_clustered", "jxl_coding::DecoderInner::read_varint_with_multiplier_clustered_lz77",
    "jxl_coding::DecoderInner::read_uint_prefilled",
)
# integers assembled from input bytes (ICC tag tables, box headers, Exif offsets): any u32 the file's author likes
BYTE_SOURCES = ("core::num::<impl u32>::from_be_bytes", "core::num::<impl u32>::from_le_bytes",
                "core::num::<impl i32>::from_be_bytes", "core::num::<impl i32>::from_le_bytes")
UNPACK_FNS = ("jxl_bitstream::unpack_signed", "jxl_modular::sample::Sealed::unpack_signed_u32", "jxl_bitstream::unpack_signed_u64")
W32 = {"u32", "i32"}
ORDER_OPS = {"Lt", "Le", "Gt", "Ge"}
ORDER_CALLS = ("core::cmp::PartialOrd::lt", "core::cmp::PartialOrd::le", "core::cmp::PartialOrd::gt", "core::cmp::PartialOrd::ge",
               "core::cmp::Ord::cmp", "core::cmp::PartialOrd::partial_cmp", "core::cmp::Ord::min", "core::cmp::Ord::max",
               "core::cmp::Ord::clamp", "core::cmp::min", "core::cmp::max")
CHECKED = {"AddWithOverflow": "+", "SubWithOverflow": "-", "MulWithOverflow": "*"}


class UF:
    def __init__(self):
        self.p = {}

    def find(self, x):
        self.p.setdefault(x, x)
        while self.p[x] != x:
            self.p[x] = self.p[self.p[x]]
            x = self.p[x]
        return x

    def union(self, a, b):
        ra, rb = self.find(a), self.find(b)
        if ra != rb:
            self.p[ra] = rb


EXTREMES = {-2147483648, 2147483647, 4294967295}


def analyse(fn, extra_sources=(), raw_fields=(), adts=None):
    """returns list of findings: dict(kind, op, pos, bb, origin, operand_name, result_name).
    raw_fields: (ADT path, field name) pairs known to hold a raw value (stored unguarded by some parser): loads of them are sources.
    With `adts`, the raw fields this function stores are left in analyse.raw_field_writes."""
    # 1. value classes
    uf = UF()
    tainted_roots = {}   # local -> origin description (callee short name + ordinal)
    n_src = 0
    for b, t in fn.calls():
        c = callee(t)
        if c and (c["fn"] in SOURCE_FNS or c["fn"] in BYTE_SOURCES or c["fn"] in extra_sources or c.get("res") in extra_sources) and len(t[3]) == 1:
            n_src += 1
            tainted_roots[t[3][0]] = "%s#%d" % (c["fn"].split("::")[-1], n_src)
    if raw_fields:
        for b, blk in enumerate(fn.blocks):
            if fn.is_cleanup(b):
                continue
            for st in blk[0]:
                if st[0] == "=" and len(st[1]) == 1 and st[2][0] == "use":
                    p = op_place(st[2][1])
                    if p is None or len(p) < 2:
                        continue
                    fl = [e for e in p[1:] if isinstance(e, list) and e[0] == "."]
                    if fl and p[-1] is fl[-1] and (fl[-1][3], fl[-1][2]) in raw_fields and fn.local_ty(st[1][0]) in W32:
                        n_src += 1
                        tainted_roots[st[1][0]] = "field %s.%s" % (str(fl[-1][3]).split("::")[-1], fl[-1][2])
    analyse.raw_field_writes = set()
    if not tainted_roots:
        return [], 0
    # class-preserving flows
    for b, blk in enumerate(fn.blocks):
        if fn.is_cleanup(b):
            continue
        for st in blk[0]:
            if st[0] != "=" or len(st[1]) != 1:
                continue
            dst = st[1][0]
            rv = st[2]
            if rv[0] == "use":
                p = op_place(rv[1])
                if p is not None:
                    # whole-local move/copy, or payload extraction from Result/ControlFlow/Option/tuple
                    uf.union(dst, p[0])
            elif rv[0] == "cast" and rv[1] == "IntToInt":
                p = op_place(rv[2])
                if p is not None and len(p) == 1:
                    sty, dty = fn.local_ty(p[0]), rv[3]
                    if sty in W32 and dty in W32:
                        uf.union(dst, p[0])
        t = blk[1]
        if t[0] == "call" and len(t[3]) == 1:
            c = callee(t)
            if c and (c["fn"] == TRY_BRANCH or c["fn"] in UNPACK_FNS or c.get("res", "") in UNPACK_FNS) and t[2]:
                p = op_place(t[2][0])
                if p is not None:
                    uf.union(t[3][0], p[0])
    # loads of one field through a shared reference are the same value (a match guard tests one load, the arm uses another)
    by_place = {}
    defs0 = Defs(fn)

    def canon(p):
        for _ in range(4):
            if len(p) >= 2 and p[1] == "*":
                d = defs0.single(p[0])
                if d and d[2] == "assign" and d[3][2][0] == "ref" and d[3][2][1] == "shared":
                    p = list(d[3][2][2]) + list(p[2:])
                    continue
            break
        return p

    for b, blk in enumerate(fn.blocks):
        if fn.is_cleanup(b):
            continue
        for st in blk[0]:
            if st[0] == "=" and len(st[1]) == 1 and st[2][0] == "use":
                p = op_place(st[2][1])
                if p is None:
                    continue
                p = canon(p)
                if len(p) < 3 or p[1] != "*":
                    continue
                bty = fn.local_ty(p[0])
                if not bty.startswith("&") or bty.startswith("&mut"):
                    continue
                k = repr(p)
                if k in by_place:
                    uf.union(st[1][0], by_place[k])
                else:
                    by_place[k] = st[1][0]
    # 2. taint per class; derived taint through arithmetic
    origin = {}  # class root -> origin
    for l, o in tainted_roots.items():
        origin[uf.find(l)] = o

    def is_tainted(l):
        return uf.find(l) in origin

    def width_ok(l):
        return fn.local_ty(l) in W32

    # guards: blocks with an ordering comparison on a member of the class
    guards = {}  # class root -> set of blocks

    def add_guard(l, b):
        guards.setdefault(uf.find(l), set()).add(b)

    def scan_guards():
        guards.clear()
        for b, blk in enumerate(fn.blocks):
            for st in blk[0]:
                if st[0] == "=" and st[2][0] == "bin" and st[2][1] in ORDER_OPS:
                    for o in (st[2][2], st[2][3]):
                        l = op_local(o)
                        if l is not None:
                            add_guard(l, b)
                elif st[0] == "=" and st[2][0] == "bin" and st[2][1] in ("Eq", "Ne"):
                    # a test against the end of the type's range (value == i32::MIN, ..) bounds the value like an ordering test
                    for o, other in ((st[2][2], st[2][3]), (st[2][3], st[2][2])):
                        l = op_local(o)
                        if l is not None and op_const_int(other) in EXTREMES:
                            add_guard(l, b)
            t = blk[1]
            if t[0] == "call":
                c = callee(t)
                if c and (c["fn"] in ORDER_CALLS or c.get("res", "").endswith(("::cmp", "::partial_cmp", "::lt", "::le", "::gt", "::ge"))):
                    for a in t[2]:
                        l = op_local(a)
                        if l is None:
                            continue
                        add_guard(l, b)
                        # by-reference comparison: &x
                        d = defs.single(l)
                        if d and d[2] == "assign" and d[3][2][0] == "ref" and len(d[3][2][2]) == 1:
                            add_guard(d[3][2][2][0], b)
            if t[0] == "switch":
                # range patterns lower to Le/Ge statements (handled); matching on exact values bounds nothing
                pass

    defs = Defs(fn)

    def guarded(l, b):
        gs = guards.get(uf.find(l), ())
        return any(fn.dominates(g, b) for g in gs)

    findings = []
    seen_sinks = set()
    changed = True
    rounds = 0
    while changed and rounds < 10:
        rounds += 1
        changed = False
        scan_guards()
        for b, blk in enumerate(fn.blocks):
            if fn.is_cleanup(b):
                continue
            for i, st in enumerate(blk[0]):
                if st[0] != "=":
                    continue
                rv = st[2]
                if rv[0] == "bin" and rv[1] in CHECKED:
                    ops = [rv[2], rv[3]]
                    bad_ops = []
                    for o in ops:
                        l = op_local(o)
                        if l is not None and is_tainted(l) and width_ok(l) and not guarded(l, b):
                            bad_ops.append(l)
                    if bad_ops:
                        k = (b, i)
                        if k not in seen_sinks:
                            seen_sinks.add(k)
                            findings.append(dict(kind="arith", op=rv[1], pos=st[3], bb=b, locals=bad_ops,
                                                 origin=origin[uf.find(bad_ops[0])], dst=st[1][0]))
                        # the (value, overflow) tuple carries the taint on
                        r = uf.find(st[1][0])
                        if r not in origin:
                            origin[r] = origin[uf.find(bad_ops[0])]
                            changed = True
                elif rv[0] == "bin" and rv[1] in ("Add", "Sub", "Mul", "AddUnchecked", "SubUnchecked", "MulUnchecked"):
                    # wrapping/unchecked forms do not panic; result stays attacker-controlled
                    for o in (rv[2], rv[3]):
                        l = op_local(o)
                        if l is not None and is_tainted(l) and not guarded(l, b) and len(st[1]) == 1:
                            r = uf.find(st[1][0])
                            if r not in origin:
                                origin[r] = origin[uf.find(l)]
                                changed = True
                elif rv[0] == "bin" and rv[1] in ("Shl", "Shr", "ShlUnchecked", "ShrUnchecked"):
                    l = op_local(rv[3])
                    if l is not None and is_tainted(l) and not guarded(l, b):
                        k = (b, i)
                        if k not in seen_sinks:
                            seen_sinks.add(k)
                            findings.append(dict(kind="shift-amount", op=rv[1], pos=st[3], bb=b, locals=[l],
                                                 origin=origin[uf.find(l)], dst=st[1][0]))
                elif rv[0] == "bin" and rv[1] in ("Div", "Rem"):
                    l = op_local(rv[3])
                    if l is not None and is_tainted(l) and not guarded(l, b) and not nonzero_checked(fn, defs, uf, l, b):
                        k = (b, i)
                        if k not in seen_sinks:
                            seen_sinks.add(k)
                            findings.append(dict(kind="divisor", op=rv[1], pos=st[3], bb=b, locals=[l],
                                                 origin=origin[uf.find(l)], dst=st[1][0]))
                elif rv[0] == "un" and rv[1] == "Neg":
                    l = op_local(rv[2])
                    if l is not None and is_tainted(l) and width_ok(l) and not guarded(l, b):
                        k = (b, i)
                        if k not in seen_sinks:
                            seen_sinks.add(k)
                            findings.append(dict(kind="neg", op="Neg", pos=st[3], bb=b, locals=[l],
                                                 origin=origin[uf.find(l)], dst=st[1][0]))
            t = blk[1]
            if t[0] == "call":
                c = callee(t)
                if c and c["fn"] in ("core::num::<impl i32>::abs",) and t[2]:
                    l = op_local(t[2][0])
                    if l is not None and is_tainted(l) and not guarded(l, b):
                        k = (b, "t")
                        if k not in seen_sinks:
                            seen_sinks.add(k)
                            findings.append(dict(kind="abs", op="abs", pos=t[-2], bb=b, locals=[l], origin=origin[uf.find(l)], dst=t[3][0]))
    # which struct / enum-variant fields does the function fill with a raw value?
    if adts is not None:
        for b, blk in enumerate(fn.blocks):
            if fn.is_cleanup(b):
                continue
            for st in blk[0]:
                if st[0] == "=" and st[2][0] == "agg" and st[2][1][0] == "adt" and st[2][1][1] in adts:
                    var = next((v for v in adts[st[2][1][1]]["variants"] if v["name"] == st[2][1][2]), None)
                    if var is None:
                        continue
                    for i, o in enumerate(st[2][2]):
                        l = op_local(o)
                        if i >= len(var["fields"]):
                            break
                        key = (st[2][1][1], var["fields"][i][0])
                        if l is not None and is_tainted(l) and width_ok(l) and not guarded(l, b):
                            analyse.raw_field_writes.add(key + (fn.path, st[3]))
    # does the function hand the raw value on to its caller?  (`Ok(raw)` / `raw` in the return place, unguarded)
    returns_raw = False
    for b, blk in enumerate(fn.blocks):
        if fn.is_cleanup(b):
            continue
        for st in blk[0]:
            if st[0] == "=" and st[1] == [0]:
                rv = st[2]
                ops = rv[2] if rv[0] == "agg" else ([rv[1]] if rv[0] == "use" else [])
                for o in ops:
                    l = op_local(o)
                    if l is not None and is_tainted(l) and width_ok(l) and not guarded(l, b):
                        returns_raw = True
        t = blk[1]
        if t[0] == "call" and t[3] == [0]:
            c = callee(t)
            if c and c["fn"].split("::")[-1] in ("map", "map_err") and t[2]:
                l = op_local(t[2][0])
                if l is not None and is_tainted(l) and not guarded(l, b):
                    returns_raw = True
    analyse.returns_raw = returns_raw
    for f_ in findings:
        names = [fn.local_name(x) for x in f_["locals"] if fn.local_name(x)]
        # the user variable that receives the result of the operation (`let width = read()? + 1`, `total += count`)
        dst = f_.get("dst")
        if not names and dst is not None:
            for blk in fn.blocks:
                for st in blk[0]:
                    if st[0] == "=" and st[2][0] == "use":
                        p = op_place(st[2][1])
                        if p is not None and p[0] == dst and len(st[1]) == 1 and fn.local_name(st[1][0]):
                            names.append("->" + fn.local_name(st[1][0]))
            if fn.local_name(dst):
                names.append("->" + fn.local_name(dst))
        # name of a user variable in the operand's class, for a stable key
        if not names:
            for x in f_["locals"]:
                r = uf.find(x)
                for i in range(len(fn.locals)):
                    if fn.local_name(i) and uf.find(i) == r:
                        names.append(fn.local_name(i))
                        break
        f_["name"] = names[0] if names else f_["origin"]
    return findings, n_src


def nonzero_checked(fn, defs, uf, l, b):
    """an `== 0` / `!= 0` test on the class dominates b (division by a raw value is fine once zero is excluded)"""
    r = uf.find(l)
    for bb, blk in enumerate(fn.blocks):
        for st in blk[0]:
            if st[0] == "=" and st[2][0] == "bin" and st[2][1] in ("Eq", "Ne"):
                for o, other in ((st[2][2], st[2][3]), (st[2][3], st[2][2])):
                    x = op_local(o)
                    if x is not None and uf.find(x) == r and op_const_int(other) == 0 and fn.dominates(bb, b):
                        return True
    return False


def run(ctx, crates):
    rid = "R-RAWINT"
    ctx.rule(rid, "no value that is directly a hybrid-uint result or a 32-bit integer assembled from input bytes with from_be_bytes / "
                  "from_le_bytes (read_varint*, unpack_signed* of it, moves/`?`/same-width casts, and "
                  "results of arithmetic on unbounded ones) reaches, in the same function and without a dominating ordering "
                  "comparison on that value, an overflow-checked +,-,* at 32-bit width, a shift amount, a divisor, a negation or abs(); "
                  "every report is a reachable panic in a checked build because the stream's integer configuration lets the "
                  "attacker choose any u32")
    total_src = 0
    # interprocedural step: functions that return a raw value unguarded are sources for their callers (fixpoint)
    extra = set()
    fns = [f for f in ctx.prog.all_fns(crates) if f.kind != "Promoted"]
    for _ in range(4):
        grew = False
        for f in fns:
            if f.path in extra or f.path in SOURCE_FNS:
                continue
            if "u32" not in f.local_ty(0) and "i32" not in f.local_ty(0):
                continue
            res = analyse(f, extra)
            if res[1] and getattr(analyse, "returns_raw", False):
                extra.add(f.path)
                grew = True
        if not grew:
            break
    ctx.counts[rid + ".derived-sources"] = len(extra)
    # fields that a parser fills with a raw value: loads of them elsewhere are raw as well (one round: parser -> consumers)
    adts = {}
    for cn in crates:
        if cn in ctx.prog.crates:
            adts.update(ctx.prog.crate(cn).adts)
    # A field counts only when every construction of its type fills it with a raw value (a general-purpose type such as Region, which
    # is also built from computed values, is not a raw carrier), and it is never stored into directly.
    all_sites = {}
    stored = set()
    for f in fns:
        for blk in f.blocks:
            if blk[2]:
                continue
            for st in blk[0]:
                if st[0] != "=":
                    continue
                if st[2][0] == "agg" and st[2][1][0] == "adt" and st[2][1][1] in adts:
                    var = next((v for v in adts[st[2][1][1]]["variants"] if v["name"] == st[2][1][2]), None)
                    if var:
                        for i in range(min(len(st[2][2]), len(var["fields"]))):
                            all_sites.setdefault((st[2][1][1], var["fields"][i][0]), set()).add((f.path, st[3]))
                fl = [e for e in st[1][1:] if isinstance(e, list) and e[0] == "."]
                if fl and st[1][-1] is fl[-1]:
                    stored.add((fl[-1][3], fl[-1][2]))
    raw_fields = set()
    for _ in range(4):
        raw_sites = {}
        for f in fns:
            analyse(f, extra, raw_fields, adts)
            for a, n, fp, pos in getattr(analyse, "raw_field_writes", set()):
                raw_sites.setdefault((a, n), set()).add((fp, pos))
        new = {k for k, v in raw_sites.items() if k not in stored and v == all_sites.get(k)}
        if new == raw_fields:
            break
        raw_fields = new
    ctx.counts[rid + ".raw-fields"] = len(raw_fields)
    for f in fns:
        findings, n_src = analyse(f, extra, raw_fields)
        if not n_src:
            continue
        total_src += n_src
        ctx.seen(f)
        ctx.count(rid + ".sources", n_src)
        if not findings:
            ctx.ok(rid, "fn:%s" % f.path, "%d raw reads; no unguarded panicking use" % n_src, nontrivial=True, fn=f)
            continue
        for x in findings:
            key = "%s|%s:%s" % (f.path, x["kind"], x["name"])
            ctx.bad(rid, key,
                    "raw entropy-decoded value `%s` (from %s) is used as %s of a checked `%s` at line %d with no ordering comparison on "
                    "it before: a stream can set it to any 32-bit value, so this panics with overflow checks on"
                    % (x["name"], x["origin"], {"arith": "an operand", "shift-amount": "the shift amount", "divisor": "the divisor",
                                                "neg": "the operand", "abs": "the operand"}[x["kind"]], x["op"], pos_line(x["pos"])),
                    fn=f, pos=x["pos"])
    ctx.floor(rid + ".sources", 40)

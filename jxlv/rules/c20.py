"""C20 — concurrent renders run once, agree and never deadlock (protocol shape)."""
from ..engine import Ctx
from . import proto


def main(pid, tier, repo=None):
    configs = ("workspace",) if tier == "quick" else ("workspace", "norayon")
    ctx = Ctx(pid, tier, configs=configs, repo=repo)
    for cfg in configs:
        ctx.use_config(cfg)
        infos = proto.scan_all(ctx)
        proto.rule_writers(ctx, infos)
        proto.rule_rendering(ctx, infos)     # includes R-PROTO-TAS for the wrappers
        proto.rule_done_render(ctx, infos)
        proto.rule_wait(ctx, infos)
        proto.rule_placeholder(ctx, infos)
        proto.rule_nolock(ctx, infos)
        proto.rule_publish_success(ctx)
        proto.rule_pool_wait(ctx)
        from . import block
        from ..engine import LIB_CRATES
        block.run_block(ctx, LIB_CRATES)      # no blocking primitive besides the handle wait; no lock re-acquired while its guard is held
        proto.rule_spawn(ctx)
        proto.rule_render_op_results(ctx)
    ctx.assume("fairness and correctness of std::sync::{Mutex, Condvar} are trusted; interleavings involving a panic in a renderer are excluded")
    ctx.not_decided("that all callers receive the same picture (value-level)")
    return ctx.finish(
        "The render-handle protocol's safety argument is a conjunction of shape facts about seven functions, each decided "
        "on MIR for all interleavings at once: exact writer/locker sets, atomic test-and-set in the acquire wrappers "
        "(Some(old) only for idle states, all other exits restore), mark always released through done_render, done_render "
        "notifies under the guard, the only Condvar::wait sits in a re-check loop entered on Rendering only, no handle "
        "guard is live across a call that may lock a handle or run render code, pool tasks enter through run().")

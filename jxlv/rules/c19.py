"""C19 - colour descriptions round-trip, transfer curves invert (claimed narrowly: the constants both directions rely on)."""
from ..engine import Ctx
from . import specconst


from ..facts import callee, op_local, op_place, op_const, op_const_int
from ..mirutil import Defs

SYNTH = "jxl_color::icc::synthesize::colour_encoding_to_icc"
DETECT = "jxl_color::icc::parse::detect_profile_info"
ENC_CICP = "jxl_image::color::EnumColourEncoding::cicp"
TF_CICP = "jxl_image::color::TransferFunction::cicp"


def range_start(f, defs, l):
    """start offset of the range value held by local l (constant ranges only): RangeTo -> 0"""
    d = defs.single(l) if l is not None else None
    if not (d and d[2] == "assign" and d[3][2][0] == "agg" and d[3][2][1][0] == "adt" and "ops::range::Range" in str(d[3][2][1][1])):
        return None
    kind = d[3][2][1][1].split("::")[-1]
    ops = d[3][2][2]
    if kind in ("RangeTo", "RangeToInclusive", "RangeFull"):
        return 0
    return op_const_int(ops[0]) if ops else None


def root_of(f, defs, l, depth=0):
    """the local a reference / reborrow / unsizing cast chain starts from"""
    while l is not None and depth < 12:
        depth += 1
        d = defs.single(l)
        if not d or d[2] != "assign":
            return l
        rv = d[3][2]
        if rv[0] == "ref":
            l = rv[2][0]
        elif rv[0] in ("use", "cast"):
            p = op_place(rv[1] if rv[0] == "use" else rv[2])
            if p is None:
                return l
            l = p[0]
        else:
            return l
    return l


def rule_cicp_layout(ctx):
    """the `cicp` tag: the reader looks where the writer writes"""
    rid = "R-CICP-LAYOUT"
    ctx.rule(rid, "the PQ / HLG signalling through the ICC `cicp` tag agrees between the two directions: (offset) the parser reads the four "
                  "code points at the byte offset of the tag data at which the synthesiser stores them (after the 8-byte type header); "
                  "(index) the element the parser compares with the transfer codes is the position EnumColourEncoding::cicp() puts the "
                  "transfer characteristic at; (codes) the values the parser maps to PQ / HLG are the codes TransferFunction::cicp() "
                  "returns for PQ / HLG.  Without agreement the profile synthesised for a PQ or HLG encoding does not parse back to it")
    col = ctx.prog.crate("jxl_color")
    img = ctx.prog.crate("jxl_image")
    w, r = col.fn(SYNTH), col.fn(DETECT)
    ec, tc = img.fn(ENC_CICP), img.fn(TF_CICP)
    for nm, x in ((SYNTH, w), (DETECT, r), (ENC_CICP, ec), (TF_CICP, tc)):
        if x is None:
            ctx.anchor_missing(rid, nm)
            return
        ctx.seen(x)
    # ---- writer: the buffer appended under the tag name b"cicp"; payload = the range of it filled from cicp()
    wd = Defs(w)
    buf = None
    for b, t in w.calls():
        c = callee(t)
        if not c or not c["fn"].endswith("append_tag_with_data") or len(t[2]) < 4:
            continue
        nl = op_local(t[2][2])
        k = None
        for _ in range(4):
            d = wd.single(nl) if nl is not None else None
            if not d or d[2] != "assign" or d[3][2][0] != "use":
                break
            k = op_const(d[3][2][1])
            if k is not None:
                break
            p = op_place(d[3][2][1])
            nl = p[0] if p is not None else None
        if k is not None and "cicp" in str(k.get("s", "")):
            buf = root_of(w, wd, op_local(t[2][3]))
    if buf is None:
        ctx.anchor_missing(rid, "the append_tag_with_data(.., *b\"cicp\", ..) call of the synthesiser")
        return
    def payload_offset(w, wd, buf):
        off = None
        for b, t in w.calls():
            c = callee(t)
            if not c or not c["fn"].split("::")[-1] in ("index_mut", "index", "get_mut") or len(t[2]) != 2:
                continue
            if buf is not None and root_of(w, wd, op_local(t[2][0])) != buf:
                continue
            st = range_start(w, wd, op_local(t[2][1]))
            # what is copied into that sub-slice: a constant signature, or the code points
            dest = t[3][0] if t[3] else None
            for b2, t2 in w.calls():
                c2 = callee(t2)
                if c2 and c2["fn"].endswith("copy_from_slice") and t2[2] and root_of(w, wd, op_local(t2[2][0])) == dest:
                    src = root_of(w, wd, op_local(t2[2][1]))
                    sd = wd.single(src) if src is not None else None
                    is_const = bool(sd and sd[2] == "assign" and sd[3][2][0] == "use" and op_const(sd[3][2][1]) is not None)
                    if not is_const:
                        off = st
        return off

    w_off = payload_offset(w, wd, buf)
    if w_off is None:
        # the tag data is built by a private helper (`create_cicp(code_points) -> [u8; 12]`): look inside it
        bd = wd.single(buf)
        hc = callee(bd[3]) if bd and bd[2] == "call" else None
        h = col.fns.get(hc.get("res") or hc["fn"]) or col.fns.get(hc["fn"]) if hc else None
        if h is not None:
            ctx.seen(h)
            w_off = payload_offset(h, Defs(h), None)
    # ---- reader: the Option<[u8; 4]> whose element is compared with the transfer codes
    rd = Defs(r)
    cmp_sites = []
    for b in range(len(r.blocks)):
        t = r.term(b)
        if t[0] != "switch" or r.is_cleanup(b):
            continue
        p = op_place(t[1])
        if p is None or len(p) < 3 or not (isinstance(p[-1], list) and p[-1][0] == "[c]"):
            continue
        if "[u8; 4]" not in r.local_ty(p[0]):
            continue
        for v, tgt in t[2]:
            cmp_sites.append((p[0], p[-1][1], int(v), tgt))
    if not cmp_sites:
        ctx.bad(rid, "reader-codes-missing", "detect_profile_info no longer compares an element of the cicp tag with transfer codes: PQ / HLG "
                "profiles are not recognised", fn=r)
        return
    cl = cmp_sites[0][0]
    r_off = None
    for d in rd.of(cl):
        if d[2] != "assign" or d[3][2][0] != "use":
            continue
        l = op_local(d[3][2][1])
        seen = set()
        while l is not None and l not in seen:
            seen.add(l)
            dd = rd.single(l)
            if not dd:
                break
            if dd[2] == "call":
                t = dd[3]
                c = callee(t)
                nm = c["fn"].split("::")[-1] if c else ""
                if nm in ("get", "index", "get_unchecked") and len(t[2]) == 2:
                    r_off = range_start(r, rd, op_local(t[2][1]))
                    break
                l = op_local(t[2][0]) if t[2] else None
            elif dd[2] == "assign":
                rv = dd[3][2]
                p = op_place(rv[1]) if rv[0] == "use" else (rv[2] if rv[0] == "ref" else (op_place(rv[2]) if rv[0] == "cast" else None))
                l = p[0] if p is not None else None
            else:
                break
    if w_off is None or r_off is None:
        ctx.bad(rid, "offset-not-evaluable", "cannot determine where the cicp code points are written (%s) / read (%s)" % (w_off, r_off), fn=r)
    elif w_off == r_off:
        ctx.ok(rid, "offset", "code points written and read at byte %d of the tag data" % w_off, nontrivial=True, fn=r)
    else:
        ctx.bad(rid, "offset-differs", "the synthesiser stores the cicp code points at byte %d of the tag data, the parser reads them at byte %d "
                "(the type signature / reserved bytes): a PQ or HLG profile is never recognised" % (w_off, r_off), fn=r)
    # ---- index of the transfer characteristic
    ed = Defs(ec)
    t_idx = None
    for blk in ec.blocks:
        for st in blk[0]:
            if st[0] == "=" and st[2][0] == "agg" and st[2][1][0] == "array" and len(st[2][2]) == 4:
                for i, o in enumerate(st[2][2]):
                    l = op_local(o)
                    seen = set()
                    while l is not None and l not in seen:
                        seen.add(l)
                        d = ed.single(l)
                        if d and d[2] == "call" and callee(d[3]) and callee(d[3])["fn"] == TF_CICP:
                            t_idx = i
                            break
                        if d and d[2] == "assign" and d[3][2][0] == "use":
                            p = op_place(d[3][2][1])
                            l = p[0] if p is not None else None
                            # a field of a tuple built in this function: continue with the operand stored in that field
                            if p is not None and len(p) > 1 and isinstance(p[1], list) and p[1][0] == ".":
                                dt = ed.single(p[0])
                                if dt and dt[2] == "assign" and dt[3][2][0] == "agg" and dt[3][2][1][0] == "tuple" and p[1][1] < len(dt[3][2][2]):
                                    l = op_local(dt[3][2][2][p[1][1]])
                        else:
                            break
    idxs = {i for _, i, _, _ in cmp_sites}
    if t_idx is None:
        # not an array literal of call results (`?`, named constants ..): evaluate cicp() for two transfer functions and see which
        # element changes
        from .. import absint
        adt_e = img.adts.get("jxl_image::color::EnumColourEncoding")

        def ev_cicp(tf):
            def enum(ty, name):
                a = img.adts.get("jxl_image::color::" + ty)
                for i, v in enumerate(a["variants"] if a else []):
                    if v["name"] == name:
                        return absint.Enum("jxl_image::color::" + ty, i, name, [0] * len(v["fields"]))
            vals = {"colour_space": enum("ColourSpace", "Rgb"), "white_point": enum("WhitePoint", "D65"), "primaries": enum("Primaries", "Bt2100"),
                    "tf": enum("TransferFunction", tf), "rendering_intent": enum("RenderingIntent", "Relative")}
            e = absint.Evaluator(ctx.prog)
            fr = absint.Frame(ec)
            e.frames[fr.id] = fr
            fr.env[10 ** 6] = absint.Struct([vals.get(x[0]) for x in adt_e["variants"][0]["fields"]])
            r_ = e.call_fn(ec, [absint.Ref(("local", fr.id, 10 ** 6))])
            return tuple(r_.fields[0]) if isinstance(r_, absint.Enum) and r_.name == "Some" else None
        try:
            a_, b_ = ev_cicp("Pq"), ev_cicp("Hlg")
            diff = [i for i in range(4) if a_ and b_ and a_[i] != b_[i]]
            if len(diff) == 1:
                t_idx = diff[0]
        except (absint.Unsupported, TypeError, KeyError, IndexError, AttributeError):
            pass
    if t_idx is None:
        ctx.bad(rid, "index-not-evaluable", "cannot find the position of the transfer characteristic in EnumColourEncoding::cicp()", fn=ec)
    elif idxs == {t_idx}:
        ctx.ok(rid, "index", "transfer characteristic at element %d in both directions" % t_idx, nontrivial=True, fn=r)
    else:
        ctx.bad(rid, "index-differs", "EnumColourEncoding::cicp() puts the transfer characteristic at element %d, the parser tests element(s) %s"
                % (t_idx, sorted(idxs)), fn=r)
    # ---- codes
    adt = img.adts.get("jxl_image::color::TransferFunction")
    codes = {}
    if adt:
        td = Defs(tc)
        for b in range(len(tc.blocks)):
            t = tc.term(b)
            if t[0] != "switch" or tc.is_cleanup(b):
                continue
            for v, tgt in t[2]:
                seen, work = set(), [tgt]
                while work and len(seen) < 6:
                    x = work.pop()
                    if x in seen:
                        continue
                    seen.add(x)
                    got = [op_const_int(st[2][2][0]) for st in tc.stmts(x) if st[0] == "=" and st[2][0] == "agg" and st[2][1][0] == "adt"
                           and st[2][1][1] == "core::option::Option" and st[2][1][2] == "Some" and st[2][2]]
                    if got and got[0] is not None:
                        name = next((vv["name"] for vv in adt["variants"] if vv["discr"] is not None and int(vv["discr"]) == int(v)), None)
                        if name:
                            codes[name] = got[0]
                        break
                    if tc.term(x)[0] == "goto":
                        work.extend(tc.succs(x))
    mapped = {}
    for _, _, v, tgt in cmp_sites:
        seen, work = set(), [tgt]
        while work and len(seen) < 6:
            x = work.pop()
            if x in seen:
                continue
            seen.add(x)
            names = [st[2][1][2] for st in r.stmts(x) if st[0] == "=" and st[2][0] == "agg" and st[2][1][0] == "adt" and st[2][1][1].endswith("KnownIccTrc")]
            if names:
                mapped[v] = names[0]
                break
            if r.term(x)[0] == "goto":
                work.extend(r.succs(x))
    wrong = {v: n for v, n in mapped.items() if codes.get(n) != v}
    if not mapped or not codes:
        ctx.bad(rid, "codes-not-evaluable", "cannot read the code -> curve mapping of the parser (%s) or TransferFunction::cicp() (%s)" % (mapped, codes), fn=r)
    elif wrong or not {"Pq", "Hlg"} <= set(mapped.values()):
        ctx.bad(rid, "codes-differ", "the parser maps cicp transfer codes %s, TransferFunction::cicp() gives %s" % (mapped, {k: codes.get(k) for k in ("Pq", "Hlg")}), fn=r)
    else:
        ctx.ok(rid, "codes", "parser: %s; TransferFunction::cicp(): Pq=%s Hlg=%s" % (mapped, codes.get("Pq"), codes.get("Hlg")), nontrivial=True, fn=r)


def rule_xy_unclamped(ctx):
    """custom chromaticities recovered from a profile are not range-limited"""
    rid = "R-XY-UNCLAMPED"
    ctx.rule(rid, "Customxy coordinates are signed millionths and may lie outside [0, 1] (ACES AP0 blue has y < 0; wide synthetic gamuts "
                  "exceed 1): wherever the ICC parser builds a Customxy, the backward data-flow slice of its operands (through "
                  "arithmetic, casts, same-crate helpers and closures handed to map()) contains no clamp / min / max: the synthesiser "
                  "writes the coordinates unclamped (x as f32 / 1e6), so a limited reader cannot return what was written")
    col = ctx.prog.crate("jxl_color")
    sites = []
    for f in col.fn_list:
        if f.kind == "Promoted" or "icc::parse" not in f.path:
            continue
        for b, blk in enumerate(f.blocks):
            if blk[2]:
                continue
            for st in blk[0]:
                if st[0] == "=" and st[2][0] == "agg" and st[2][1][0] == "adt" and st[2][1][1].endswith("::Customxy"):
                    sites.append((f, st))
    if not sites:
        ctx.anchor_missing(rid, "construction of Customxy in jxl_color::icc::parse")
        return
    LIMIT = ("::clamp", "::min", "::max", "::minimum", "::maximum")

    def slice_calls(f, seeds, depth=0, seen_fn=None):
        """limiting calls in the backward slice of `seeds` (locals of f)"""
        seen_fn = seen_fn if seen_fn is not None else set()
        d = Defs(f)
        out = []
        seen = set()
        work = list(seeds)
        while work:
            l = work.pop()
            if l is None or l in seen:
                continue
            seen.add(l)
            for df in d.of(l):
                if f.is_cleanup(df[0]):
                    continue
                if df[2] == "assign":
                    rv = df[3][2]
                    ops = []
                    if rv[0] in ("use", "repeat"):
                        ops = [rv[1]]
                    elif rv[0] == "cast":
                        ops = [rv[2]]
                    elif rv[0] == "bin":
                        ops = [rv[2], rv[3]]
                    elif rv[0] == "un":
                        ops = [rv[2]]
                    elif rv[0] == "agg":
                        ops = list(rv[2])
                        if rv[1][0] == "closure" and depth < 3:
                            g = ctx.prog.fn(rv[1][1])
                            if g is not None and g.path not in seen_fn:
                                seen_fn.add(g.path)
                                out += slice_calls(g, [0], depth + 1, seen_fn)
                    elif rv[0] == "ref":
                        work.append(rv[2][0])
                    for o in ops:
                        p = op_place(o)
                        if p is not None:
                            work.append(p[0])
                            for e in p[1:]:
                                if isinstance(e, list) and e[0] == "[]":
                                    pass
                elif df[2] == "call":
                    t = df[3]
                    c = callee(t)
                    nm = (c.get("res") or c["fn"]) if c else ""
                    last = nm.split("::")[-1].split("<")[0]
                    if c and ("::" + last) in LIMIT and ("f32" in nm or "f64" in nm or "cmp::Ord" in nm or "num::" in nm):
                        out.append((f, t))
                    for a in t[2]:
                        p = op_place(a)
                        if p is not None:
                            work.append(p[0])
                    g = ctx.prog.fn(nm) if c else None
                    if g is not None and g.crate == f.crate and depth < 3 and g.path not in seen_fn:
                        seen_fn.add(g.path)
                        out += slice_calls(g, [0], depth + 1, seen_fn)
        return out

    done = set()
    for f, st in sites:
        if f.path in done:
            continue
        done.add(f.path)
        ctx.seen(f)
        seeds = [op_local(o) for o in st[2][2]]
        allseeds = []
        for f2, st2 in sites:
            if f2 is f:
                allseeds += [op_local(o) for o in st2[2][2]]
        lim = slice_calls(f, [x for x in allseeds if x is not None])
        if lim:
            g, t = lim[0]
            ctx.bad(rid, "limited:%s" % f.path, "%s builds a Customxy from a value that went through %s (in %s): chromaticities outside [0, 1], "
                    "which the format allows and the synthesiser writes, do not survive the profile round trip"
                    % (f.path.split("::")[-1], callee(t)["fn"].split("::")[-1], g.path.split("::")[-1]), fn=g, pos=t[-2])
        else:
            ctx.ok(rid, "unlimited:%s" % f.path, "no clamp/min/max in the slice of the coordinates", nontrivial=True, fn=f)


def rule_trc_present(ctx):
    """a tone-curve tag counts as present whether or not its curve is one the parser recognises"""
    rid = "R-TRC-PRESENT"
    ctx.rule(rid, "detect_profile_info keeps two facts per r/g/b/kTRC tag: that the tag exists (`[bool; 4]`) and, if its curve has a "
                  "recognised shape, which transfer function it is (`[Option<KnownIccTrc>; 4]`).  The profiles this library "
                  "synthesises for PQ and HLG carry a sampled curve no shape test recognises and rely on the cicp tag, whose override "
                  "is gated on the presence flags.  So the presence store must not depend on recognition: from the block that sets "
                  "the flag a path leads on (to the next tag) that does not pass the store of the recognised curve.  Identified by "
                  "type (the only bool-array and Option-array of length 4 written by index in the function)")
    f = ctx.prog.crate("jxl_color").fn("jxl_color::icc::parse::detect_profile_info")
    if f is None:
        ctx.anchor_missing(rid, "jxl_color::icc::parse::detect_profile_info")
        return
    ctx.seen(f)
    pres, curve = [], []
    for b, blk in enumerate(f.blocks):
        if blk[2]:
            continue
        for st in blk[0]:
            if st[0] == "=" and len(st[1]) == 2 and isinstance(st[1][1], list) and st[1][1][0] == "[]":
                ty = f.local_ty(st[1][0])
                if ty == "[bool; 4]":
                    pres.append(b)
                elif ty.startswith("[core::option::Option<") and ty.endswith("; 4]") and "Trc" in ty:
                    curve.append(b)
    if not pres or not curve:
        ctx.anchor_missing(rid, "indexed stores into the presence flags / recognised curves in detect_profile_info")
        return
    bad = []
    for pb in pres:
        if pb in curve:
            bad.append(pb)
            continue
        # can the next iteration (any block that reaches pb again, or the function's exit) be reached from pb without a curve store?
        seen, todo, free = set(), list(f.succs(pb)), False
        while todo:
            x = todo.pop()
            if x in seen or f.is_cleanup(x) or x in curve:
                continue
            seen.add(x)
            if x == pb or f.term(x)[0] == "ret":
                free = True
                break
            todo.extend(f.succs(x))
        if not free:
            bad.append(pb)
    if bad:
        ctx.bad(rid, "presence-depends-on-recognition", "the tone-curve presence flag is only set on paths that also store a recognised curve: "
                "a profile whose curve is a sampled table (the PQ / HLG profiles this library writes) never arms the cicp override and "
                "does not parse back to its enum encoding", fn=f, pos=f.term_pos(bad[0]))
    else:
        ctx.ok(rid, "presence-independent", "%d presence store(s), each followed by a path that skips the recognised-curve store" % len(pres),
               nontrivial=True, fn=f)


def rule_tf_sign(ctx):
    """the two directions of each transfer curve treat negative samples alike"""
    import re
    rid = "R-TF-SIGN"
    ctx.rule(rid, "each transfer curve comes as a pair linear_to_X / X_to_linear (scalar bodies; `_generic` helpers for PQ).  The inverse of "
                  "an odd function is odd, the inverse of a curve that extends its toe segment through the negatives does the same: the "
                  "two scalar bodies of a pair must agree on whether they are sign-aware (call abs / copysign / signum / is_sign_* or negate "
                  "an f32) - otherwise encode-then-decode is not the identity on negative samples, which "
                  "out-of-gamut colours produce.  Sibling agreement over the pairs found by name in jxl_color::tf; SIMD bodies "
                  "(target_feature functions, intrinsics) are not read")
    cr = ctx.prog.crate("jxl_color")
    fns = {}
    for f in cr.fn_list:
        if f.path.startswith("jxl_color::tf::") and f.kind == "Fn" and not f.tf:
            fns[f.path.split("::")[-1]] = f
    pairs = []
    for n, f in sorted(fns.items()):
        m = re.match(r"^linear_to_([a-z0-9]+?)(_generic)?$", n)
        if m:
            inv = "%s_to_linear%s" % (m.group(1), m.group(2) or "")
            if inv in fns:
                pairs.append((m.group(1) + (m.group(2) or ""), f, fns[inv]))
    ctx.count(rid + ".pairs", len(pairs))

    def sign_aware(f, depth=0):
        ev = []
        for b, t in f.calls():
            c = callee(t)
            if not c:
                continue
            last = c["fn"].split("::")[-1]
            g = cr.fns.get(c["fn"])
            if g is not None and depth < 2 and g.path.startswith("jxl_color::tf::") and not g.tf and g is not f:
                ev.extend(sign_aware(g, depth + 1))
            if ("f32" in c["fn"] or "f64" in c["fn"]) and last in ("abs", "copysign", "signum", "is_sign_negative", "is_sign_positive"):
                ev.append(last)
        for blk in f.blocks:
            if blk[2]:
                continue
            for st in blk[0]:
                if st[0] == "=" and st[2][0] == "un" and st[2][1] == "Neg":
                    p = op_place(st[2][2])
                    if p is not None and f.local_ty(p[0]) in ("f32", "f64"):
                        ev.append("neg")
        return sorted(set(ev))

    for x, f, g in pairs:
        ctx.seen(f)
        ctx.seen(g)
        a, b = sign_aware(f), sign_aware(g)
        if bool(a) == bool(b):
            ctx.ok(rid, "pair:%s" % x, "both directions %s" % ("sign-aware (%s / %s)" % (",".join(a), ",".join(b)) if a else "extend the toe segment (no sign handling)"),
                   nontrivial=True, fn=f)
        else:
            h = g if b else f
            ctx.bad(rid, "pair:%s" % x, "%s handles the sign of the sample (%s) and %s does not: the two directions are not inverse on negative "
                    "samples" % (h.path.split("::")[-1], ",".join(a or b), (f if b else g).path.split("::")[-1]), fn=h)
    ctx.floor(rid + ".pairs", 4)


def rule_cicp_hdr(ctx):
    """every PQ / HLG enum encoding with named primaries has a cicp tag, whatever its white point"""
    from .. import absint
    rid = "R-CICP-HDR"
    ctx.rule(rid, "the profile synthesised for a PQ or HLG encoding carries a sampled curve that the profile parser cannot recognise; it "
                  "finds the transfer function through the cicp tag, which the synthesiser writes iff EnumColourEncoding::cicp() is "
                  "Some.  So for the round trip cicp() must be Some([primaries code, transfer code, 0, 1]) (ITU-T H.273 codes 1 / 9 / 11 "
                  "and 16 / 18) for every encoding with transfer function PQ or HLG and primaries sRGB, BT.2100 or P3 - for each of "
                  "the four white points and for RGB and grey.  Decision table extracted by evaluating the MIR of cicp() (and the "
                  "helpers it calls) over the enum values; nothing is run")
    cr = ctx.prog.crate("jxl_image")
    fs = [g for g in cr.fn_list if g.path.endswith("color::EnumColourEncoding::cicp")]
    adt = cr.adts.get("jxl_image::color::EnumColourEncoding")
    if len(fs) != 1 or adt is None:
        ctx.anchor_missing(rid, "jxl_image::color::EnumColourEncoding::cicp")
        return
    f = fs[0]
    ctx.seen(f)
    fields = [(x[0], x[1]) for x in adt["variants"][0]["fields"]]

    def enum(ty, name, nf=None):
        a = cr.adts.get(ty)
        for i, v in enumerate(a["variants"] if a else []):
            if v["name"] == name:
                return absint.Enum(ty, i, name, [0] * len(v["fields"]))
        return None

    P = "jxl_image::color::"
    rows, bad, undec = 0, [], None
    for cs in ("Rgb", "Grey"):
        for wp in ("D65", "Custom", "E", "Dci"):
            for pr, pc in (("Srgb", 1), ("Bt2100", 9), ("P3", 11)):
                for tf, tc in (("Pq", 16), ("Hlg", 18)):
                    vals = {"colour_space": enum(P + "ColourSpace", cs), "white_point": enum(P + "WhitePoint", wp),
                            "primaries": enum(P + "Primaries", pr), "tf": enum(P + "TransferFunction", tf),
                            "rendering_intent": enum(P + "RenderingIntent", "Relative")}
                    if any(vals.get(n) is None for n, _ in fields):
                        ctx.anchor_missing(rid, "the fields / variants of EnumColourEncoding (colour_space, white_point, primaries, tf, rendering_intent)")
                        return
                    ev = absint.Evaluator(ctx.prog)
                    fr = absint.Frame(f)
                    ev.frames[fr.id] = fr
                    fr.env[10 ** 6] = absint.Struct([vals[n] for n, _ in fields])
                    try:
                        r = ev.call_fn(f, [absint.Ref(("local", fr.id, 10 ** 6))])
                    except absint.Unsupported as e:
                        undec = "%s/%s/%s/%s: %s" % (cs, wp, pr, tf, e)
                        break
                    rows += 1
                    got = tuple(r.fields[0]) if isinstance(r, absint.Enum) and r.name == "Some" and isinstance(r.fields[0], (tuple, list)) else None
                    if got != (pc, tc, 0, 1):
                        bad.append((cs, wp, pr, tf, got))
                if undec:
                    break
            if undec:
                break
        if undec:
            break
    ctx.count(rid + ".rows", rows)
    if undec:
        ctx.bad(rid, "cicp|not-evaluable", "EnumColourEncoding::cicp is no longer a function the evaluator can decide (%s)" % undec, fn=f)
        return
    ctx.floor(rid + ".rows", 48)
    if not bad:
        ctx.ok(rid, "cicp|hdr-covered", "48 rows: Some([primaries, transfer, 0, 1]) for every PQ / HLG encoding with named primaries", nontrivial=True, fn=f)
    else:
        cs, wp, pr, tf, got = bad[0]
        ctx.bad(rid, "cicp|hdr-covered", "%s, white point %s, primaries %s, transfer %s: cicp() is %s (%d of 48 rows differ) - the synthesised profile "
                "of such an image has no cicp tag and is read back as an unknown curve" % (cs, wp, pr, tf, "None" if got is None else list(got), len(bad)), fn=f)


def rule_tf_curves(ctx):
    """the scalar transfer curves, evaluated from MIR, follow the curves of the cited standards and invert each other"""
    import math
    from .. import absint
    rid = "R-TF-CURVES"
    ctx.rule(rid, "the scalar (non-SIMD) transfer functions of jxl_color::tf are evaluated from MIR on 15 sample values each (both signs, "
                  "both sides of every branch threshold) and compared with the defining formula: PQ (SMPTE ST 2084, both directions, "
                  "intensity target 10000), HLG (ARIB STD-B67 OETF and its inverse), sRGB to linear (IEC 61966-2-1), BT.709 to linear; "
                  "tolerance 2e-5 absolute (the curves are rational / polynomial approximations), which also bounds how far a curve "
                  "and its inverse can be from undoing each other.  A changed threshold, constant, exponent or sign rule differs at "
                  "some sample")
    cr = ctx.prog.crate("jxl_color")

    def pq_inv(x):
        m1, m2 = 2610 / 16384, 2523 / 4096 * 128
        c1, c2, c3 = 3424 / 4096, 2413 / 4096 * 32, 2392 / 4096 * 32
        y = abs(x) ** m1
        return math.copysign(((c1 + c2 * y) / (1 + c3 * y)) ** m2, x)

    def pq_eotf(e):
        m1, m2 = 2610 / 16384, 2523 / 4096 * 128
        c1, c2, c3 = 3424 / 4096, 2413 / 4096 * 32, 2392 / 4096 * 32
        p = abs(e) ** (1 / m2)
        return math.copysign((max(p - c1, 0) / (c2 - c3 * p)) ** (1 / m1), e)

    A, B, C = 0.17883277, 0.28466892, 0.55991073

    def hlg_oetf(x):
        a = abs(x)
        return math.copysign(math.sqrt(3 * a) if a <= 1 / 12 else A * math.log(12 * a - B) + C, x)

    def hlg_inv(e):
        a = abs(e)
        return math.copysign(a * a / 3 if a <= 0.5 else (math.exp((a - C) / A) + B) / 12, e)

    def srgb_lin(v):
        a = abs(v)
        return math.copysign(a / 12.92 if a <= 0.04045 else ((a + 0.055) / 1.055) ** 2.4, v)

    def bt709_lin(v):
        return v / 4.5 if v <= 0.081 else ((v + 0.099) / 1.099) ** (1 / 0.45)

    xs = [0.0, 1e-5, 5e-5, 2e-4, 0.003, 0.03, 0.04, 0.05, 0.08, 0.09, 0.3, 0.5, 0.51, 0.75, 1.0]
    signed = xs + [-0.6, -0.02]
    scalar = [("tf::pq::linear_to_pq_generic", pq_inv, signed, [10000.0]), ("tf::pq::pq_to_linear_generic", pq_eotf, signed, [10000.0])]
    slices = [("tf::linear_to_hlg", hlg_oetf, signed), ("tf::hlg_to_linear", hlg_inv, signed), ("tf::srgb::srgb_to_linear", srgb_lin, signed),
              ("tf::bt709::bt709_to_linear", bt709_lin, xs)]
    got_all = {}
    rows = 0
    for nm, ref, vals, extra in [(a, b, c, d) for a, b, c, d in scalar] + [(a, b, c, None) for a, b, c in slices]:
        f = cr.fns.get("jxl_color::" + nm)
        if f is None:
            ctx.anchor_missing(rid, "jxl_color::" + nm)
            continue
        ctx.seen(f)
        try:
            if extra is not None:
                out = []
                for v in vals:
                    ev = absint.Evaluator(ctx.prog)
                    out.append(ev.call_fn(f, [v] + extra))
            else:
                buf = list(vals)
                absint.Evaluator(ctx.prog, max_steps=200000).call_fn(f, [buf])
                out = buf
        except absint.Unsupported as e:
            ctx.bad(rid, nm + "|not-evaluable", "jxl_color::%s is no longer a function the evaluator can decide (%s)" % (nm, e), fn=f)
            continue
        rows += len(vals)
        got_all[nm] = dict(zip(vals, out))
        bad = [(v, o, ref(v)) for v, o in zip(vals, out) if not isinstance(o, (int, float)) or abs(float(o) - ref(v)) > 2e-5]
        if bad:
            v, o, w = bad[0]
            ctx.bad(rid, nm + "|curve", "jxl_color::%s(%r) = %r, the standard's curve gives %.7f (%d of %d samples differ by more than 2e-5)"
                    % (nm, v, o, w, len(bad), len(vals)), fn=f)
        else:
            ctx.ok(rid, nm, "%d samples within 2e-5 of the defining curve" % len(vals), nontrivial=True, fn=f)
    ctx.count(rid + ".rows", rows)
    ctx.floor(rid + ".rows", 6 * 15)


def rule_adapt_mat(ctx):
    """the chromatic adaptation matrix, evaluated from MIR, is the Bradford transform - also between nearly equal white points"""
    from .. import absint
    rid = "R-ADAPT-MAT"
    ctx.rule(rid, "ciexyz::adapt_mat(from, to) is the linear Bradford adaptation M^-1 diag(M to / M from) M (ICC.1 Annex E).  The `chad` "
                  "tag of a synthesised profile is this matrix from the image's white point to D50, and it is the only place the white "
                  "point of an RGB encoding is carried; the parser recovers the white point from it.  The function is evaluated from "
                  "MIR (illuminant_to_xyz supplied as (x/y, 1, (1-x-y)/y)) for five pairs of white points - D65 to D50, E to D50, D50 to "
                  "D65, a custom white 5e-4 away from D50, and equal whites - and compared with the formula within 2e-5.  A shortcut "
                  "that returns the identity for `close enough` white points erases custom white points near D50")
    cr = ctx.prog.crate("jxl_color")
    f = cr.fns.get("jxl_color::ciexyz::adapt_mat")
    if f is None or f.argc != 2:
        ctx.anchor_missing(rid, "jxl_color::ciexyz::adapt_mat(from, to)")
        return
    ctx.seen(f)
    M = [0.8951, 0.2664, -0.1614, -0.7502, 1.7135, 0.0367, 0.0389, -0.0685, 1.0296]

    def inv3(m):
        a, b, c, d, e, f_, g, h, i = m
        det = a * (e * i - f_ * h) - b * (d * i - f_ * g) + c * (d * h - e * g)
        return [(e * i - f_ * h) / det, (c * h - b * i) / det, (b * f_ - c * e) / det,
                (f_ * g - d * i) / det, (a * i - c * g) / det, (c * d - a * f_) / det,
                (d * h - e * g) / det, (b * g - a * h) / det, (a * e - b * d) / det]

    def mv(m, v):
        return [sum(m[r * 3 + k] * v[k] for k in range(3)) for r in range(3)]

    def mm(a, b):
        return [sum(a[r * 3 + k] * b[k * 3 + c] for k in range(3)) for r in range(3) for c in range(3)]

    def xyz(xy):
        x, y = xy
        return (x / y, 1.0, (1.0 - x - y) / y)

    def ref(a, b):
        fa, fb = mv(M, xyz(a)), mv(M, xyz(b))
        dg = [fb[0] / fa[0], 0, 0, 0, fb[1] / fa[1], 0, 0, 0, fb[2] / fa[2]]
        return mm(inv3(M), mm(dg, M))

    D50, D65, E = (0.345669, 0.358496), (0.3127, 0.3290), (1 / 3, 1 / 3)
    pairs = [(D65, D50, "D65 -> D50"), (E, D50, "E -> D50"), (D50, D65, "D50 -> D65"), ((0.3462, 0.3590), D50, "(0.3462, 0.3590) -> D50"),
             (D65, D65, "D65 -> D65")]
    rows, bad, undec = 0, None, None
    for a, b, nm in pairs:
        ev = absint.Evaluator(ctx.prog, max_steps=200000)
        ev.intercept = {"ciexyz::illuminant_to_xyz": lambda args, ev=ev: tuple(xyz(ev.deref_val(args[0]))),
                        "AsIlluminant::as_illuminant": lambda args, ev=ev: tuple(ev.deref_val(args[0]))}
        try:
            r = ev.call_fn(f, [a, b])
        except absint.Unsupported as e:
            undec = "%s: %s" % (nm, e)
            break
        rows += 1
        want = ref(a, b)
        if not isinstance(r, tuple) or len(r) != 9 or any(not isinstance(x, (int, float)) or abs(float(x) - w) > 2e-5 for x, w in zip(r, want)):
            bad = (nm, [round(float(x), 6) if isinstance(x, (int, float)) else x for x in (r if isinstance(r, tuple) else ())], [round(w, 6) for w in want])
            break
    ctx.count(rid + ".rows", rows)
    if undec:
        ctx.bad(rid, "adapt_mat|not-evaluable", "ciexyz::adapt_mat is no longer a function the evaluator can decide (%s)" % undec, fn=f)
    elif bad:
        ctx.bad(rid, "adapt_mat|bradford", "adapt_mat for %s is %s, the Bradford transform is %s" % bad, fn=f)
    else:
        ctx.floor(rid + ".rows", 5)
        ctx.ok(rid, "adapt_mat|bradford", "5 white-point pairs equal the Bradford transform within 2e-5", nontrivial=True, fn=f)


def main(pid, tier, repo=None):
    ctx = Ctx(pid, tier, configs=("workspace",), repo=repo)
    specconst.run(ctx, pid, floor=20)
    from . import enummap
    enummap.run(ctx, pid)
    rule_cicp_layout(ctx)
    rule_xy_unclamped(ctx)
    rule_tf_sign(ctx)
    rule_trc_present(ctx)
    rule_cicp_hdr(ctx)
    rule_tf_curves(ctx)
    rule_adapt_mat(ctx)
    ctx.not_decided("numerical tolerance statements over real-valued functions: that the synthesised profile parses back to an equivalent "
                    "encoding for custom chromaticities and arbitrary gamma, that each transfer function's two directions compose to the "
                    "identity and are monotone, no-op detection of equivalent encodings")
    return ctx.finish(
        "Claimed narrowly: the named colour constants. The chromaticities of the enumerated white points and primaries, the Bradford "
        "adaptation matrix and its inverse, the HLG and PQ constants have the values of the cited standards, and the recognition tables "
        "of the ICC parser map the same chromaticities to the same enum values the synthesiser writes (agreement of the two directions "
        "for every *named* colour space). Compared on the values rustc evaluates for the constants. The rational approximations of the "
        "transfer curves are snapshot-guarded only. Everything numerical about the round trip is not decided.")

"""C19 - colour descriptions round-trip, transfer curves invert (claimed narrowly: the constants both directions rely on)."""
from ..engine import Ctx
from . import specconst


def main(pid, tier, repo=None):
    ctx = Ctx(pid, tier, configs=("workspace",), repo=repo)
    specconst.run(ctx, pid, floor=20)
    from . import enummap
    enummap.run(ctx, pid)
    ctx.not_decided("numerical tolerance statements over real-valued functions: that the synthesised profile parses back to an equivalent "
                    "encoding for custom chromaticities and arbitrary gamma, that each transfer function's two directions compose to the "
                    "identity and are monotone, no-op detection of equivalent encodings")
    return ctx.finish(
        "Claimed narrowly: the named colour constants. The chromaticities of the enumerated white points and primaries, the Bradford "
        "adaptation matrix and its inverse, the HLG and PQ constants have the values of the cited standards, and the recognition tables "
        "of the ICC parser map the same chromaticities to the same enum values the synthesiser writes (agreement of the two directions "
        "for every *named* colour space). Compared on the values rustc evaluates for the constants. The rational approximations of the "
        "transfer curves are snapshot-guarded only. Everything numerical about the round trip is not decided.")

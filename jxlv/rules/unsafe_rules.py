"""R-UNSAFE: census of every unsafe block / unsafe fn / unsafe impl of the library crates, each belonging to a reviewed class;
classes a-g carry a machine-checked obligation (argument guards, constant agreement between writer and reader, dominating
length tests, exact impl predicates)."""
from ..facts import callee, op_local, op_place, op_const_int, pos_line, place_fields
from ..mirutil import Defs, access_path
from .. import validation

# reviewed census: file -> (class, unsafe blocks, unsafe fns); a higher count or a new file is reported
CENSUS = {
    "crates/jxl-bitstream/src/bitstream.rs": ("c", 1, 0),
    "crates/jxl-coding/src/ans.rs": ("b", 2, 0),
    "crates/jxl-color/src/convert/gamut_map.rs": ("h", 3, 2),
    "crates/jxl-color/src/convert/tone_map.rs": ("h", 7, 7),
    "crates/jxl-color/src/fastmath/powf.rs": ("h", 2, 8),
    "crates/jxl-color/src/fastmath/rational_poly.rs": ("h", 1, 2),
    "crates/jxl-color/src/gamut.rs": ("h", 0, 3),
    "crates/jxl-color/src/tf.rs": ("h", 2, 1),
    "crates/jxl-color/src/tf/bt709.rs": ("h", 2, 1),
    "crates/jxl-color/src/tf/pq.rs": ("h", 6, 10),
    "crates/jxl-color/src/tf/rec2408.rs": ("h", 0, 3),
    "crates/jxl-color/src/tf/srgb.rs": ("h", 1, 3),
    "crates/jxl-color/src/xyb.rs": ("h", 1, 1),
    "crates/jxl-color/src/ycbcr.rs": ("h", 1, 1),
    "crates/jxl-grid/src/mutable_subgrid.rs": ("a", 24, 2),
    "crates/jxl-grid/src/shared_subgrid.rs": ("a", 10, 2),
    "crates/jxl-grid/src/simd.rs": ("h", 0, 31),
    "crates/jxl-modular/src/transform/rct.rs": ("h", 4, 3),
    "crates/jxl-modular/src/transform/squeeze.rs": ("h", 16, 8),
    "crates/jxl-oxide/src/fb.rs": ("e", 2, 0),
    "crates/jxl-oxide/src/lcms2.rs": ("h", 1, 0),
    "crates/jxl-render/src/filter/epf.rs": ("h", 1, 1),
    "crates/jxl-render/src/filter/gabor.rs": ("h", 2, 1),
    "crates/jxl-render/src/filter/impls/generic.rs": ("h", 1, 0),
    "crates/jxl-render/src/filter/impls/x86_64.rs": ("h", 3, 0),
    "crates/jxl-render/src/filter/impls/x86_64/epf_sse41.rs": ("h", 1, 2),
    "crates/jxl-render/src/filter/impls/x86_64/gabor_avx2.rs": ("h", 0, 1),
    "crates/jxl-render/src/vardct/generic/transform.rs": ("h", 1, 0),
    "crates/jxl-render/src/vardct/transform_common.rs": ("h", 2, 1),
    "crates/jxl-render/src/vardct/x86_64/dct/mod.rs": ("h", 17, 17),
    "crates/jxl-render/src/vardct/x86_64/mod.rs": ("h", 1, 1),
    "crates/jxl-render/src/vardct/x86_64/transform.rs": ("h", 4, 3),
    "crates/jxl-vardct/src/dct_select.rs": ("d", 1, 0),
    "crates/jxl-vardct/src/hf_pass.rs": ("f", 2, 0),
}
SEND_SYNC = {
    ("core::marker::Send", "jxl_grid::mutable_subgrid::MutableSubgrid<'g, V>"): "&'g mut [V]: core::marker::Send",
    ("core::marker::Sync", "jxl_grid::mutable_subgrid::MutableSubgrid<'g, V>"): "&'g mut [V]: core::marker::Sync",
    ("core::marker::Send", "jxl_grid::shared_subgrid::SharedSubgrid<'g, V>"): "&'g [V]: core::marker::Send",
    ("core::marker::Sync", "jxl_grid::shared_subgrid::SharedSubgrid<'g, V>"): "&'g [V]: core::marker::Sync",
}
ORDER = {"Lt", "Le", "Gt", "Ge"}
ARITH = {"Add", "Sub", "Mul", "Div", "Rem", "Shl", "Shr", "BitAnd", "BitOr", "AddWithOverflow", "SubWithOverflow", "MulWithOverflow",
         "AddUnchecked", "SubUnchecked", "MulUnchecked", "ShlUnchecked", "ShrUnchecked"}


def rule_census(ctx, crates):
    rid = "R-UNSAFE"
    ctx.rule(rid, "every user-written unsafe block and unsafe fn of the library crates lies in a file with a reviewed class (a grid views, "
                  "b ANS table lookup, c bit-buffer refill, d u8->TransformType, e frame-buffer regrouping, f lazily initialised static, "
                  "h SIMD kernels: inventory only) and the per-file count does not exceed the reviewed count; unsafe impl Send/Sync are "
                  "exactly the four grid-view impls with their `&[V]`/`&mut [V]` where-clauses")
    blocks = {}
    fns = {}
    for cn in crates:
        c = ctx.prog.crate(cn)
        for u in c.unsafe_blocks:
            blocks[u["span"][0]] = blocks.get(u["span"][0], 0) + 1
        for f in c.fn_list:
            if f.unsafe and f.file.startswith("crates/") and f.kind != "Promoted":
                fns[f.file] = fns.get(f.file, 0) + 1
        for i in c.impls:
            if not i["unsafe"] or i["trait"] == "core::clone::TrivialClone":
                continue
            k = (i["trait"], i["self"])
            want = SEND_SYNC.get(k)
            if want is None:
                ctx.bad(rid, "unsafe-impl:%s for %s" % k, "new `unsafe impl %s for %s`: not one of the four reviewed grid-view impls" % k)
            elif want in i["preds"]:
                ctx.ok(rid, "unsafe-impl:%s for %s" % k, "where %s" % want, nontrivial=True)
            else:
                ctx.bad(rid, "unsafe-impl-bound:%s for %s" % k, "`unsafe impl %s for %s` lost its where-clause `%s` (predicates now: %s): a view of "
                        "non-Send/Sync data could cross threads" % (k[0], k[1], want, i["preds"]))
    have = {k for cn in crates for i in ctx.prog.crate(cn).impls if i["unsafe"] for k in [(i["trait"], i["self"])]}
    for k in SEND_SYNC:
        if k not in have:
            ctx.bad(rid, "unsafe-impl-gone:%s for %s" % k, "reviewed unsafe impl disappeared; census must be re-confirmed")
    files = set(blocks) | set(fns)
    for fl in sorted(files):
        nb, nf = blocks.get(fl, 0), fns.get(fl, 0)
        ctx.count(rid + ".sites", nb + nf)
        if fl not in CENSUS:
            ctx.bad(rid, "unclassified-unsafe:" + fl, "%d unsafe block(s) and %d unsafe fn(s) in %s, a file with no reviewed unsafe class" % (nb, nf, fl))
            continue
        cls, mb, mf = CENSUS[fl]
        if nb > mb or nf > mf:
            ctx.bad(rid, "unsafe-count-increased:" + fl, "%s now has %d unsafe blocks / %d unsafe fns (reviewed: %d / %d): new unsafe code needs a reviewed "
                    "class and obligation" % (fl, nb, nf, mb, mf))
        else:
            ctx.ok(rid, "census:%s" % fl, "class %s: %d blocks, %d unsafe fns" % (cls, nb, nf))
    ctx.floor(rid + ".sites", 200)


# -- class a: grid views -------------------------------------------------------------------------------
class Bounded:
    """is an integer operand of an unsafe call upper-bounded at a program point?
    Relations `small <= big` are read from ordering comparisons together with the switch edge on which they hold; a value is
    bounded if it is a constant, an extent of the view (self.width/height/stride, a slice length), the small side of a relation
    that holds at the point and whose big side is bounded, min() of something bounded, or arithmetic that cannot exceed bounded
    inputs (a+b, a*b: both; a-b, a/b, a>>b, a%b, a&b: the left / either side)."""

    def __init__(self, f):
        self.f = f
        self.defs = Defs(f)
        self.rel = []   # (small_operand, big_operand, block, edge)
        self._scan()
        self._reach_cache = {}

    def root(self, l):
        seen = set()
        while l not in seen:
            seen.add(l)
            d = self.defs.single(l)
            if not d or d[2] != "assign":
                return l
            rv = d[3][2]
            if rv[0] == "use":
                p = op_place(rv[1])
                if p is not None and len(p) == 1:
                    l = p[0]
                    continue
            if rv[0] == "cast" and rv[1] == "IntToInt":
                p = op_place(rv[2])
                if p is not None and len(p) == 1:
                    l = p[0]
                    continue
            return l
        return l

    def _scan(self):
        f = self.f
        for b, blk in enumerate(f.blocks):
            t = blk[1]
            if t[0] != "switch":
                continue
            l = op_local(t[1])
            if l is None:
                continue
            neg = False
            cmp_rv = None
            cur = l
            for _ in range(4):
                st = None
                for s2 in reversed(blk[0]):
                    if s2[0] == "=" and s2[1] == [cur]:
                        st = s2
                        break
                if st is None:
                    break
                rv = st[2]
                if rv[0] == "bin" and rv[1] in ORDER:
                    cmp_rv = rv
                    break
                if rv[0] == "un" and rv[1] == "Not":
                    neg = not neg
                    cur = op_local(rv[2])
                    continue
                if rv[0] == "use":
                    cur = op_local(rv[1])
                    continue
                break
            if cmp_rv is None:
                continue
            a, c = cmp_rv[2], cmp_rv[3]
            zero = [x for v, x in t[2] if v == "0"]
            if not zero:
                continue
            false_edge = (b, zero[0], "0")
            true_edge = (b, t[3], "otherwise")
            if neg:
                false_edge, true_edge = true_edge, false_edge
            op = cmp_rv[1]
            # (small, big) on the true edge / on the false edge
            if op in ("Lt", "Le"):
                self.rel.append((a, c, true_edge))
                self.rel.append((c, a, false_edge))
            else:
                self.rel.append((c, a, true_edge))
                self.rel.append((a, c, false_edge))

    def mono_slice(self, l, depth=0, acc=None):
        """roots of the values that the (unsigned) value l is a monotone function of: through moves, casts, +, * and the
        left side of -  (if x*y + z <= B then the view described by x, y, z fits in B)"""
        if acc is None:
            acc = set()
        r = self.root(l)
        if r in acc or depth > 10:
            return acc
        acc.add(r)
        for d in self.defs.of(r):
            if d[2] != "assign":
                continue
            rv = d[3][2]
            ops = []
            if rv[0] == "bin":
                op = rv[1].replace("WithOverflow", "").replace("Unchecked", "")
                if op in ("Add", "Mul"):
                    ops = [rv[2], rv[3]]
                elif op == "Sub":
                    ops = [rv[2]]
            elif rv[0] == "use":
                ops = [rv[1]]
            elif rv[0] == "cast":
                ops = [rv[2]]
            for o in ops:
                p = op_place(o)
                if p is not None:
                    self.mono_slice(p[0], depth + 1, acc)
        return acc

    def holds_at(self, edge, at):
        k = (edge, at)
        if k not in self._reach_cache:
            from ..mirutil import find_path_edges
            self._reach_cache[k] = find_path_edges(self.f, [0], lambda x: x == at, avoid_edge=lambda x, s, lab: (x, s, lab) == edge) is None and at != 0
        return self._reach_cache[k]

    def ok(self, o, at, depth=0, visiting=None):
        if depth > 20:
            return False
        if op_const_int(o) is not None:
            return True
        p = op_place(o)
        if p is None:
            return True
        f = self.f
        if len(p) > 1:
            flds = place_fields(p)
            if flds and flds[-1][0] in ("width", "height", "stride"):
                return True
            # tuple element of a checked operation: (_t.0)
            if all(isinstance(e, list) and e[0] == "." for e in p[1:]):
                return self.ok(["c", [p[0]]], at, depth + 1, visiting)
            return False
        l = p[0]
        r = self.root(l)
        visiting = visiting or set()
        if r in visiting:
            return False
        visiting = visiting | {r}
        # relations
        for small, big, edge in self.rel:
            sl = op_local(small)
            if sl is None or r not in self.mono_slice(sl):
                continue
            if not self.holds_at(edge, at):
                continue
            if self.ok(big, at, depth + 1, visiting):
                return True
        ds = [d for d in self.defs.of(r) if not f.is_cleanup(d[0])]
        if not ds:
            return False
        for d in ds:
            if d[2] == "assign":
                rv = d[3][2]
                k = rv[0]
                if k == "use":
                    good = self.ok(rv[1], at, depth + 1, visiting)
                elif k == "cast":
                    good = self.ok(rv[2], at, depth + 1, visiting)
                elif k == "bin":
                    op = rv[1].replace("WithOverflow", "").replace("Unchecked", "")
                    if op in ("Add", "Mul", "BitOr", "Shl"):
                        good = self.ok(rv[2], at, depth + 1, visiting) and self.ok(rv[3], at, depth + 1, visiting)
                    elif op in ("Sub", "Div", "Shr"):
                        good = self.ok(rv[2], at, depth + 1, visiting)
                    elif op in ("Rem", "BitAnd"):
                        good = self.ok(rv[2], at, depth + 1, visiting) or self.ok(rv[3], at, depth + 1, visiting)
                    else:
                        good = False
                elif k == "un":
                    good = self.ok(rv[2], at, depth + 1, visiting)
                elif k == "agg":
                    good = all(self.ok(x, at, depth + 1, visiting) for x in rv[2])
                else:
                    good = False
            elif d[2] == "call":
                c = callee(d[3])
                nm = c["fn"] if c else ""
                short = nm.split("::")[-1]
                args = d[3][2]
                if short == "min":
                    good = any(self.ok(a, at, depth + 1, visiting) for a in args)
                elif short in ("len", "width", "height", "stride", "size_of", "align_of", "trailing_zeros", "leading_zeros", "ilog2", "count_ones"):
                    good = True
                elif short in ("saturating_sub", "wrapping_sub", "checked_sub", "unwrap", "branch", "unwrap_or", "div_ceil", "clone"):
                    good = bool(args) and self.ok(args[0], at, depth + 1, visiting)
                elif short in ("max", "next_multiple_of", "abs_diff", "checked_add", "saturating_add", "checked_mul"):
                    good = all(self.ok(a, at, depth + 1, visiting) for a in args)
                else:
                    good = False
            else:
                good = True
            if not good:
                return False
        return True


# reviewed exceptions of the argument-guard rule: (function, argument) -> reason
GRID_ACCEPTED = {
    ("jxl_grid::mutable_subgrid::MutableSubgrid::<'g, V>::from_buf", "height"):
        "on the `width == 0` path height is unconstrained, but a zero-width view never dereferences (every access needs x < width); "
        "the non-empty path is bounded by assert!(buf.len() >= stride * (height - 1) + width)",
    ("jxl_grid::shared_subgrid::SharedSubgrid::<'g, V>::from_buf", "height"): "same as MutableSubgrid::from_buf",
    ("jxl_grid::mutable_subgrid::MutableSubgrid::<'g, V>::from_buf", "width"):
        "bounded by assert!(width <= stride) and the length assert on the non-empty path; on the `width == 0 || height == 0` path the view is empty",
    ("jxl_grid::mutable_subgrid::MutableSubgrid::<'g, V>::from_buf", "stride"):
        "bounded by the length assert on the non-empty path; on the empty path no element is ever addressed",
}

UNSAFE_INDEXED = ("get_ptr_unchecked", "add", "offset", "sub", "from_raw_parts", "from_raw_parts_mut", "new", "get_unchecked", "get_unchecked_mut")


def rule_grid(ctx):
    rid = "R-UNSAFE-a"
    ctx.rule(rid, "in every SAFE function of jxl-grid's view types, each integer argument of an unsafe call (get_ptr_unchecked, ptr.add, "
                  "from_raw_parts, MutableSubgrid::new / SharedSubgrid::new) is bounded on every path: a constant, loaded from "
                  "self.width/height/stride or a slice length, compared by a dominating < <= > >= (the asserts and early returns), produced "
                  "by min(), or arithmetic over bounded values")
    g = ctx.prog.crate("jxl_grid")
    n = 0
    for f in g.fn_list:
        if not (f.file.endswith("mutable_subgrid.rs") or f.file.endswith("shared_subgrid.rs")):
            continue
        if f.unsafe or f.kind == "Promoted":
            continue
        bd = None
        for b, t in f.calls():
            c = callee(t)
            if not c or not c.get("unsafe"):
                continue
            short = c["fn"].split("::")[-1]
            if short not in UNSAFE_INDEXED:
                continue
            if bd is None:
                bd = Bounded(f)
                ctx.seen(f)
            for ai, a in enumerate(t[2]):
                p = op_place(a)
                if p is None and op_const_int(a) is None:
                    continue
                ty = f.local_ty(p[0]) if p is not None and len(p) == 1 else "usize"
                if p is not None and len(p) == 1 and ty not in ("usize", "isize", "u32", "i32", "u64"):
                    continue
                n += 1
                ctx.count(rid + ".index-arguments")
                if bd.ok(a, b):
                    ctx.ok(rid, "%s|%s#%d" % (f.path, short, ai), None, nontrivial=True, fn=f)
                elif (f.path, str(validation.subject_name(f, bd.defs, a))) in GRID_ACCEPTED:
                    ctx.ok(rid, "%s|%s#%d-reviewed" % (f.path, short, ai), GRID_ACCEPTED[(f.path, str(validation.subject_name(f, bd.defs, a)))], fn=f)
                else:
                    nm = validation.subject_name(f, bd.defs, a)
                    ctx.bad(rid, "%s|unbounded-argument:%s(%s)" % (f.path, short, nm),
                            "safe function %s passes `%s` to the unsafe %s without any bound on every path (no dominating comparison against "
                            "width/height/stride, no min(), not derived from the view's own extent): out-of-bounds pointer arithmetic"
                            % (f.path, nm, c["fn"].split("::")[-1]), fn=f, pos=t[-2])
    ctx.floor(rid + ".index-arguments", 30)


# -- classes b-e -------------------------------------------------------------------------------------------
def rule_ans(ctx):
    rid = "R-UNSAFE-b"
    ctx.rule(rid, "ANS table lookup without bounds check: the reader indexes buckets with (state & M) >> log_bucket_size where M+1 == 1 << K and "
                  "the writer (Histogram::parse) sets log_bucket_size = K - log_alphabet_size with the same K; buckets has 1 << "
                  "log_alphabet_size entries")
    c = ctx.prog.crate("jxl_coding")
    rd = c.fn("jxl_coding::ans::Histogram::read_symbol")
    wr = c.fn("jxl_coding::ans::Histogram::parse")
    if rd is None or wr is None:
        ctx.anchor_missing(rid, "ans::Histogram::read_symbol/parse")
        return
    ctx.seen(rd)
    ctx.seen(wr)
    masks = [op_const_int(st[2][3]) for blk in rd.blocks for st in blk[0]
             if st[0] == "=" and st[2][0] == "bin" and st[2][1] == "BitAnd" and op_const_int(st[2][3]) is not None]
    masks = [m for m in masks if m is not None and m > 255 and (m & (m + 1)) == 0]
    # K in parse: Sub(const K, log_alphabet_size)
    ks = []
    defs = Defs(wr)
    for blk in wr.blocks:
        for st in blk[0]:
            if st[0] == "=" and st[2][0] == "bin" and st[2][1] in ("Sub", "SubWithOverflow"):
                k = op_const_int(st[2][2])
                nm = validation.subject_name(wr, defs, st[2][3])
                if k is not None and nm == "log_alphabet_size":
                    ks.append(k)
    gu = [t for _, t in rd.calls() if callee(t) and callee(t)["fn"].endswith("get_unchecked")]
    if not gu:
        ctx.ok(rid, "no-unchecked-index", "read_symbol no longer uses get_unchecked", fn=rd)
        return
    if masks and ks and all((m + 1) == (1 << k) for m in masks[:1] for k in ks[:1]):
        ctx.ok(rid, "mask-agrees-with-table-size", "state mask 0x%x = (1 << %d) - 1; log_bucket_size = %d - log_alphabet_size" % (masks[0], ks[0], ks[0]),
               nontrivial=True, fn=rd)
    else:
        ctx.bad(rid, "jxl_coding::ans::Histogram::read_symbol|mask-disagrees-with-table-size",
                "the state mask of the unchecked ANS table lookup (%s) does not match the table size the parser builds (K=%s): get_unchecked "
                "can index past the bucket table" % ([hex(m) for m in masks], ks), fn=rd)
    # the index is (masked >> log_bucket_size): the get_unchecked argument derives from a Shr of the masked value
    t = gu[0]
    nm = validation.subject_name(rd, Defs(rd), t[2][1], use_names=False)
    if nm and ">>" in str(nm) and "&" in str(nm):
        ctx.ok(rid, "index-shape", "index = %s" % nm, fn=rd)
    else:
        ctx.bad(rid, "jxl_coding::ans::Histogram::read_symbol|index-shape", "the unchecked index is not (state & mask) >> log_bucket_size (found %s)" % nm, fn=rd)


def rule_refill(ctx):
    rid = "R-UNSAFE-c"
    ctx.rule(rid, "Bitstream::refill: slice::from_raw_parts(ptr.add(read_bytes), len - read_bytes) is dominated by the slice-pattern test "
                  "len >= 8 and read_bytes = (63 - remaining_buf_bits) >> 3 (< 8)")
    c = ctx.prog.crate("jxl_bitstream")
    f = c.fn("jxl_bitstream::bitstream::Bitstream::<'_>::refill")
    if f is None:
        ctx.anchor_missing(rid, "Bitstream::refill")
        return
    ctx.seen(f)
    defs = Defs(f)
    frp = [(b, t) for b, t in f.calls() if callee(t) and callee(t)["fn"].endswith("from_raw_parts")]
    if not frp:
        ctx.ok(rid, "no-raw-slice", "refill no longer builds a raw slice", fn=f)
        return
    b, t = frp[0]
    # dominating Ge(len, 8)
    ok_len = False
    for bb, blk in enumerate(f.blocks):
        for st in blk[0]:
            if st[0] == "=" and st[2][0] == "bin" and st[2][1] == "Ge" and f.dominates(bb, b):
                k = validation.subject_name(f, defs, st[2][3])
                if isinstance(k, int) and k >= 8:
                    ok_len = True
    off = validation.subject_name(f, defs, t[2][1], use_names=False)
    ptrs = [tt for _, tt in f.calls() if callee(tt) and callee(tt)["fn"].endswith("::add") and callee(tt).get("unsafe")]
    offn = validation.subject_name(f, defs, ptrs[0][2][1], use_names=False) if ptrs else None
    shape = offn is not None and ">>3" in str(offn).replace(" ", "") and "63-" in str(offn).replace(" ", "")
    if ok_len and shape:
        ctx.ok(rid, "refill-guard", "len >= 8 dominates; offset = %s" % offn, nontrivial=True, fn=f)
    else:
        ctx.bad(rid, "jxl_bitstream::bitstream::Bitstream::refill|raw-slice-unguarded", "the raw slice in refill is not dominated by `len >= 8` (%s) or the "
                "offset is not (63 - remaining_buf_bits) >> 3 (found %s)" % (ok_len, offn), fn=f, pos=t[-2])


def rule_transmute(ctx):
    rid = "R-UNSAFE-d"
    ctx.rule(rid, "transmute::<u8, TransformType> is dominated by `value <= C` with C = number of variants - 1 of the repr(u8) enum whose "
                  "discriminants are contiguous from 0")
    c = ctx.prog.crate("jxl_vardct")
    adt = c.adts.get("jxl_vardct::dct_select::TransformType")
    f = c.fn("<jxl_vardct::dct_select::TransformType as core::convert::TryFrom<u8>>::try_from")
    if adt is None or f is None:
        ctx.anchor_missing(rid, "TransformType / TryFrom<u8>")
        return
    ctx.seen(f)
    discr = [int(v["discr"]) for v in adt["variants"]]
    contiguous = discr == list(range(len(discr)))
    cs = validation.checks(f)
    conds = {validation.norm(x["subject"], x["op"], x["other"]) for x in cs}
    want = "value > %d" % (len(discr) - 1)
    tm = [st for blk in f.blocks for st in blk[0] if st[0] == "=" and st[2][0] == "cast" and st[2][1] == "Transmute"]
    if not tm:
        ctx.ok(rid, "no-transmute", "try_from no longer transmutes", fn=f)
        return
    if contiguous and "u8" in adt["repr"].lower() or contiguous:
        if want in conds:
            ctx.ok(rid, "transmute-guard", "reject `%s` (%d variants, contiguous from 0)" % (want, len(discr)), nontrivial=True, fn=f)
        else:
            ctx.bad(rid, "TransformType::try_from|transmute-guard", "the u8 -> TransformType transmute is not guarded by `%s -> Err` (checks: %s; the enum has %d "
                    "variants): an out-of-range byte becomes an invalid enum value" % (want, sorted(conds), len(discr)), fn=f)
    else:
        ctx.bad(rid, "TransformType|discriminants", "TransformType discriminants are not contiguous from 0: %s" % discr, fn=f)


def rule_grouped(ctx):
    rid = "R-UNSAFE-e"
    ctx.rule(rid, "FrameBuffer::buf_grouped(_mut): from_raw_parts(ptr as *const [f32; N], w*h) is dominated by assert_eq!(buf.len(), w*h*N)")
    c = ctx.prog.crate("jxl_oxide")
    n = 0
    for f in c.fn_list:
        if "FrameBuffer::buf_grouped" not in f.path or f.kind != "AssocFn":
            continue
        n += 1
        ctx.seen(f)
        defs = Defs(f)
        frp = [(b, t) for b, t in f.calls() if callee(t) and "from_raw_parts" in callee(t)["fn"]]
        if not frp:
            continue
        b, t = frp[0]
        ok = False
        lens = [bb for bb, tt in f.calls() if callee(tt) and callee(tt)["fn"].endswith("Vec::<T, A>::len") and f.dominates(bb, b)]
        from ..validation import panics
        pan = panics(f)
        for bb, blk in enumerate(f.blocks):
            tt = blk[1]
            if tt[0] != "switch" or not f.dominates(bb, b):
                continue
            l = op_local(tt[1])
            iseq = any(st[0] == "=" and st[1] == [l] and st[2][0] == "bin" and st[2][1] == "Eq" for st in blk[0])
            if iseq and lens and any(v == "0" and x in pan for v, x in tt[2]):
                ok = True
        if ok:
            ctx.ok(rid, "%s|length-assert" % f.path.split("::")[-1], "buf.len() == w*h*N dominates from_raw_parts", nontrivial=True, fn=f)
        else:
            ctx.bad(rid, "%s|length-assert-missing" % f.path, "the regrouping from_raw_parts is not dominated by the buffer length equality", fn=f, pos=t[-2])
    if n < 2:
        ctx.anchor_missing(rid, "FrameBuffer::buf_grouped / buf_grouped_mut")


def rule_type_census(ctx, which):
    """quick-tier type-level facts from the driver's impl/ADT tables (the compile_fail witnesses run in the thorough tier)"""
    rid = "E-TYPE-CENSUS"
    ctx.rule(rid, "from the type-checked program: no Clone/Copy impl exists for MutableSubgrid / AllocHandle; MutableSubgrid::new and "
                  "SharedSubgrid::new are unsafe fns; AllocHandle's fields are private")
    g = ctx.prog.crate("jxl_grid")
    targets = {"grid": ["jxl_grid::mutable_subgrid::MutableSubgrid<"], "handle": ["jxl_grid::alloc_tracker::AllocHandle"]}[which]
    for i in g.impls:
        if i["trait"] in ("core::clone::Clone", "core::marker::Copy") and any(i["self"].startswith(t) for t in targets):
            ctx.bad(rid, "clonable:%s" % i["self"], "%s now implements %s: a duplicated %s" % (i["self"], i["trait"],
                    "mutable view aliases memory across threads" if which == "grid" else "handle returns its bytes twice"))
    ctx.ok(rid, "not-clone:" + which, "no Clone/Copy impl for %s" % targets, nontrivial=True)
    if which == "grid":
        for nm in ("jxl_grid::mutable_subgrid::MutableSubgrid::<'g, V>::new", "jxl_grid::shared_subgrid::SharedSubgrid::<'g, V>::new"):
            f = g.fn(nm)
            if f is None:
                ctx.anchor_missing(rid, nm)
            elif f.unsafe:
                ctx.ok(rid, "unsafe-ctor:" + nm.split("::")[-3], "unsafe fn", fn=f)
            else:
                ctx.bad(rid, "safe-ctor:" + nm, "%s is no longer an unsafe fn: a view over arbitrary memory can be built from safe code" % nm, fn=f)
    else:
        adt = g.adts.get("jxl_grid::alloc_tracker::AllocHandle")
        if adt is None:
            ctx.anchor_missing(rid, "AllocHandle")
        else:
            pub = [fl[0] for v in adt["variants"] for fl in v["fields"] if fl[2] == "Public"]
            if pub:
                ctx.bad(rid, "handle-public-field:" + ",".join(pub), "AllocHandle has public fields %s: the recorded amount can be edited or a handle forged" % pub)
            else:
                ctx.ok(rid, "handle-fields-private", "all fields restricted", nontrivial=True)


SAME_ALIGN = {("f32", "i32"), ("i32", "f32"), ("u32", "f32"), ("f32", "u32"), ("i32", "u32"), ("u32", "i32")}


def rule_cast_align(ctx):
    """a grid view is re-typed to a stricter-aligned element type only behind an alignment test on that type"""
    rid = "R-CAST-ALIGN"
    ctx.rule(rid, "the view types of jxl-grid hand out `&V` / `&mut V` through safe accessors, so re-typing a view's base pointer "
                  "(NonNull::cast / pointer casts to another pointee) is only sound when the address is aligned for the new element "
                  "type.  For every such cast in jxl_grid whose target is not a type of the same alignment (f32 <-> i32 / u32) and not "
                  "the unit type used for type erasure: the function (or the function that creates the closure doing the cast) calls "
                  "align_of::<Target>() - today `ptr as usize & (align_of::<V>() - 1) == 0` - or is_aligned() on a pointer that already "
                  "has the target pointee.  An alignment test on the source pointee (always true) does not count")
    g = ctx.prog.crate("jxl_grid")
    n = 0
    for f in g.fn_list:
        if f.kind == "Promoted":
            continue
        for b, t in f.calls():
            c = callee(t)
            if not (c and (c["fn"].endswith("NonNull::<T>::cast") or c["fn"].endswith("::cast") and "ptr::" in c["fn"]) and len(c.get("args", [])) == 2):
                continue
            src, dst = c["args"]
            if dst == "()" or src == dst or (src, dst) in SAME_ALIGN:
                continue
            n += 1
            # the function itself, and (for a closure) the function that creates it
            owners = [f]
            if "::{closure" in f.path:
                o = g.fns.get(f.path[:f.path.index("::{closure")])
                if o is not None:
                    owners.append(o)
            ok = False
            for o in owners:
                ctx.seen(o)
                for _, t2 in o.calls():
                    c2 = callee(t2)
                    if not c2:
                        continue
                    if c2["fn"] == "core::mem::align_of" and c2.get("args") == [dst]:
                        ok = True
                    if c2["fn"].endswith("::is_aligned") and c2.get("args") and c2["args"][0] == dst:
                        ok = True
            key = "%s|%s->%s" % (f.path.split("::{closure")[0], src, dst)
            if ok:
                ctx.ok(rid, key, "alignment of the target type is tested", nontrivial=True, fn=f)
            else:
                ctx.bad(rid, key, "the view is re-typed from %s to %s without a test of the address against align_of::<%s>(): safe accessors "
                        "would hand out misaligned references" % (src, dst, dst), fn=f, pos=t[-2])
    ctx.count(rid + ".casts", n)
    ctx.floor(rid + ".casts", 2)

"""R-LIMIT: the named input limits of the decoder exist as validation checks (compare -> error return) with the reviewed
bound, and dominate the work they protect.  Table of confirmed instances over the discovered checks."""
from .. import validation
from ..facts import callee, pos_line
from ..mirutil import find_path_edges

# (function path suffix, reject condition (normalised text), minimum occurrences, what breaks without it, [sink callee suffixes it must dominate])
TABLE = [
    ("<jxl_frame::data::toc::Toc as jxl_oxide_common::Bundle<&jxl_frame::header::FrameHeader>>::parse", "entry_count > 65536", 1,
     "TOC entry count sizes the permutation and the section vectors", ["::read_permutation"]),
    ("jxl_modular::read_and_validate_local_modular_header", "header.nb_transforms > 512", 1, "transform list length", []),
    ("jxl_modular::read_and_validate_local_modular_header", "nb_channels_tr > 65536", 1, "channel count after transforms sizes per-channel vectors", []),
    ("<jxl_modular::ma::MaConfig as jxl_oxide_common::Bundle<jxl_modular::ma::MaConfigParams<'_>>>::parse", "len(nodes) > 67108863", 1, "MA tree node count (2^26)", []),
    ("<jxl_modular::ma::MaConfig as jxl_oxide_common::Bundle<jxl_modular::ma::MaConfigParams<'_>>>::parse", "len(nodes) > node_limit", 1, "MA tree node count vs image size", []),
    ("<jxl_modular::ma::MaConfig as jxl_oxide_common::Bundle<jxl_modular::ma::MaConfigParams<'_>>>::parse", "depth > depth_limit", 1, "MA tree depth (recursion / stack)", []),
    ("<jxl_modular::ma::MaConfig as jxl_oxide_common::Bundle<jxl_modular::ma::MaConfigParams<'_>>>::parse", "mul_log > 30", 1, "shift amount of the multiplier", []),
    ("<jxl_modular::ma::MaConfig as jxl_oxide_common::Bundle<jxl_modular::ma::MaConfigParams<'_>>>::parse", "mul_bits > ((1<<(31-mul_log))-2)", 1, "multiplier overflow", []),
    ("<jxl_frame::data::patch::Patches as jxl_oxide_common::Bundle<(&jxl_image::ImageHeader, &jxl_frame::header::FrameHeader)>>::parse", "num_patch_refs > max_num_patch_refs", 1, "patch ref count sizes a collect()", []),
    ("<jxl_frame::data::patch::Patches as jxl_oxide_common::Bundle<(&jxl_image::ImageHeader, &jxl_frame::header::FrameHeader)>>::parse::{closure#1}", "ref_idx > 3", 1, "reference slot index (array of 4)", []),
    ("<jxl_frame::data::patch::Patches as jxl_oxide_common::Bundle<(&jxl_image::ImageHeader, &jxl_frame::header::FrameHeader)>>::parse::{closure#1}", "arg1.total_patches > arg1.max_num_patches", 1, "total patch target count sizes nested collect()s", []),
    ("<jxl_frame::data::spline::Splines as jxl_oxide_common::Bundle<&jxl_frame::header::FrameHeader>>::parse", "num_splines >= max_num_splines", 1, "spline count", []),
    ("<jxl_frame::data::spline::QuantSpline as jxl_oxide_common::Bundle<jxl_frame::data::spline::QuantSplineParams<'_>>>::parse", "acc_num_points > max_num_points", 1, "accumulated control point count", []),
    ("jxl_color::icc::decode::read_icc", "enc_size > 268435456", 1, "encoded ICC size (2^28) sizes the output vector", []),
    ("jxl_color::icc::decode::read_icc", "output_size > 268435456", 1, "decoded ICC size (2^28)", []),
    ("jxl_color::icc::decode::read_icc", "(stream_offset+commands_size) > enc_size", 1, "command stream inside the encoded buffer", []),
    ("jxl_color::icc::decode::decode_icc", "output_size > 268435456", 1, "decoded ICC size (2^28) sizes Vec::with_capacity", []),
    ("jxl_color::icc::decode::decode_icc", "(stream_offset+commands_size) > len(stream)", 1, "slice split point", []),
    ("<jxl_frame::Frame as jxl_oxide_common::Bundle<jxl_frame::FrameContext<'_>>>::parse", "width > 1073741824", 1, "frame width 2^30", []),
    ("<jxl_frame::Frame as jxl_oxide_common::Bundle<jxl_frame::FrameContext<'_>>>::parse", "height > 1073741824", 1, "frame height 2^30", []),
    ("<jxl_frame::Frame as jxl_oxide_common::Bundle<jxl_frame::FrameContext<'_>>>::parse", "(width*height) > 1099511627776", 1, "frame area 2^40", []),
    ("<jxl_frame::Frame as jxl_oxide_common::Bundle<jxl_frame::FrameContext<'_>>>::parse", "header.lf_level > 3", 1,
     "LF level indexes the 4-entry lf_frame table of the renderer", []),
    ("<jxl_frame::Frame as jxl_oxide_common::Bundle<jxl_frame::FrameContext<'_>>>::parse", "header.width == 0", 1, "zero-sized frame (divisions, empty grids)", []),
    ("<jxl_frame::Frame as jxl_oxide_common::Bundle<jxl_frame::FrameContext<'_>>>::parse", "header.height == 0", 1, "zero-sized frame", []),
    ("<jxl_frame::Frame as jxl_oxide_common::Bundle<jxl_frame::FrameContext<'_>>>::parse", "(ec_upsampling_shift+dim_shift) > 6", 1, "extra-channel upsampling shift", []),
    ("<jxl_frame::Frame as jxl_oxide_common::Bundle<jxl_frame::FrameContext<'_>>>::parse", "(ec_upsampling_shift+dim_shift) < color_upsampling_shift", 1, "extra-channel upsampling below colour upsampling (subtraction)", []),
    ("<jxl_frame::Frame as jxl_oxide_common::Bundle<jxl_frame::FrameContext<'_>>>::parse", "actual_dim_shift > (7+header.group_size_shift)", 1, "dim shift vs group size (zero-sized groups)", []),
    ("<jxl_image::ImageHeader as jxl_oxide_common::Bundle<Ctx>>::parse", "len(metadata.ec_info) > 256", 1, "extra channel count", []),
    ("<jxl_image::BitDepth as jxl_oxide_common::Bundle<Ctx>>::parse", "bits_per_sample > 31", 1, "bit depth used as shift amount", []),
    ("<jxl_image::color::TransferFunction as jxl_oxide_common::Bundle<Ctx>>::parse", "gamma > 10000000", 1,
     "gamma above 1 (the inverse is used as an exponent and as an ICC s15Fixed16 value)", []),
    ("<jxl_image::color::TransferFunction as jxl_oxide_common::Bundle<Ctx>>::parse", "(gamma*8192) < 10000000", 1,
     "gamma of zero / tiny gamma: ICC synthesis divides by it (D18)", []),
    ("jxl_coding::permutation::read_permutation", "end > (size-skip)", 1, "permutation length", []),
    ("jxl_coding::permutation::read_permutation", "val >= ((size-skip)-idx)", 1, "Lehmer code bound (Vec::remove index)", []),
    ("jxl_coding::DecoderInner::parse::{closure#1}", "count > 32768", 1, "prefix alphabet size 2^15", []),
    ("jxl_coding::prefix::Histogram::parse", "alphabet_size > 32768", 1, "prefix alphabet size 2^15", []),
    ("jxl_coding::read_clusters", "num_actual_clusters != num_expected_clusters", 1, "cluster hole check (later indexing by cluster id)", []),
    ("jxl_coding::ans::Histogram::parse", "alphabet_size > table_size", 4, "ANS alphabet vs table size (4 encodings)", []),
    ("jxl_coding::ans::Histogram::parse", "shift > 13", 1, "ANS shift", []),
    ("jxl_coding::ans::Histogram::parse", "(idx+repeat_count) > alphabet_size", 1, "RLE repeat range", []),
    ("jxl_coding::ans::Histogram::parse", "acc > 4096", 2, "running sum of the distribution", []),
    # jxl_coding::IntegerConfig::parse: `msb_in_token > split_exponent` and `msb + lsb > split_exponent` are decided by R-HYBRID-CONFIG
    # (the parser evaluated from MIR for every field combination; run under C01 as well) - independent of how the tests are spelled
    # (own benign rewrite: `checked_sub` + let-else, the sum taken from the built struct)
    ("jxl_coding::DecoderInner::read_varint_with_multiplier_clustered_lz77", "state.num_decoded == 0", 1, "LZ77 copy before any symbol (window index)", []),
    ("<jxl_frame::data::lf_global::LfGlobal<S> as jxl_oxide_common::Bundle<jxl_frame::data::lf_global::LfGlobalParams<'_, '_>>>::parse", "estimated_area > max_estimated_area", 1, "spline drawing work bound", []),
    ("jxl_vardct::hf_coeff::write_hf_coeff", "hfp >= num_hf_presets", 1, "HF preset index", []),
    ("jxl_vardct::hf_coeff::write_hf_coeff", "non_zeros > (63<<num_blocks_log)", 1, "non-zero count vs block size (loop bound / indexing)", []),
    ("<jxl_vardct::hf_metadata::HfMetadata as jxl_oxide_common::Bundle<jxl_vardct::hf_metadata::HfMetadataParams<'_, '_, '_>>>::parse", "hf_mul < 1", 1, "non-positive HF multiplier", []),
    ("<jxl_vardct::hf_metadata::HfMetadata as jxl_oxide_common::Bundle<jxl_vardct::hf_metadata::HfMetadataParams<'_, '_, '_>>>::parse", "(x_in_group+dw) > 32", 1, "varblock crosses the group (grid indexing)", []),
    ("<jxl_vardct::hf_metadata::HfMetadata as jxl_oxide_common::Bundle<jxl_vardct::hf_metadata::HfMetadataParams<'_, '_, '_>>>::parse", "(y_in_group+dh) > 32", 1, "varblock crosses the group", []),
    ("jxl_modular::transform::Squeeze::transform_channel_info", "w == 0", 1, "zero-sized squeeze", []),
    ("jxl_modular::transform::Squeeze::transform_channel_info", "h == 0", 1, "zero-sized squeeze", []),
    ("jxl_modular::transform::Squeeze::transform_channel_info", "hshift > 30", 1, "channel shift used as shift amount", []),
    ("jxl_modular::transform::Squeeze::transform_channel_info", "vshift > 30", 1, "channel shift used as shift amount", []),
    ("jxl_modular::transform::Squeeze::transform_channel_info", "end > len(channels.info)", 1, "channel range", []),
    ("jxl_modular::transform::Rct::transform_channel_info", "end_c > len(channels.info)", 1, "channel range", []),
    ("jxl_modular::transform::Palette::transform_channel_info", "end_c > len(channels.info)", 1, "channel range", []),
]


def run(ctx, crates):
    rid = "R-LIMIT"
    ctx.rule(rid, "each named input limit exists as a comparison whose reject edge leads to an error return, with the reviewed bound "
                  "(conditions are reconstructed from MIR operands, constants folded and normalised; matched by meaning, not text "
                  "position); where listed, the check dominates the call it protects")
    prog = ctx.prog
    cache = {}
    for fsuffix, cond, mincount, why, sinks in TABLE:
        if ("fn", fsuffix) not in cache:
            cache[("fn", fsuffix)] = validation.resolve_closure_entry(prog, fsuffix, [(c_, n_) for f_, c_, n_, _w, _s in TABLE if f_ == fsuffix], "limit")
        f = cache[("fn", fsuffix)]
        if f is None:
            ctx.anchor_missing(rid, fsuffix)
            continue
        if f.path not in cache:
            cache[f.path] = validation.checks_deep(ctx.prog, f)
            ctx.seen(f)
        cs = cache[f.path]
        if ("mt", fsuffix) not in cache:
            cache[("mt", fsuffix)] = validation.match_table(cs, [(c_, n_) for f_, c_, n_, _w, _s in TABLE if f_ == fsuffix], validation.deep_ref("limit", fsuffix))
        have = cache[("mt", fsuffix)].get(cond, [])
        key = "%s|%s" % (fsuffix, cond)
        if len(have) >= mincount:
            ok = True
            for sk in sinks:
                sb = [b for b, t in f.calls() if callee(t) and callee(t)["fn"].endswith(sk)]
                for b in sb:
                    if not any(f.dominates(c["bb"], b) for c in have):
                        ok = False
                        ctx.bad(rid, key + "|not-dominating:" + sk, "the limit check `%s` does not dominate the call to %s it protects (%s)" % (cond, sk, why),
                                fn=f, pos=f.term_pos(b))
                    # the reject edge must not reach the sink
                    for c in have:
                        e = c["fail_edge"]
                        if find_path_edges(f, [e[1]], lambda x: x == b) is not None and e[1] != b:
                            pass
            if ok:
                ctx.ok(rid, key, "reject `%s` -> Err (%s)%s" % (cond, why, (" dominates " + ",".join(sinks)) if sinks else ""), nontrivial=True, fn=f)
        else:
            subj = cond.split(" ")[0]
            near = sorted({validation.norm(c["subject"], c["op"], c["other"]) for c in cs if str(c["subject"]) == subj or subj in str(c["subject"])})
            ctx.bad(rid, key + "|missing",
                    "limit check `reject %s` (%s) is missing or was changed: found %d of %d; checks on the same value now: %s"
                    % (cond, why, len(have), mincount, near or "none"), fn=f)
    ctx.counts[rid + ".table-entries"] = len(TABLE)

"""C14 — headers are reported exactly as encoded (claimed in part: bit layout): R-BITSPEC (read layout of every header
parser, extracted from MIR, against the reviewed table) and R-HDRPRED (decision tables of the canvas predicates that gate
header fields)."""
import re
import itertools
import json
import os

from .. import absint, bitspec
from ..engine import Ctx, VERIF
from . import specconst
from ..facts import pos_line

TABLE = os.path.join(VERIF, "tables", "bitspec.json")
SCOPE = {"jxl_image": None, "jxl_oxide_common": None, "jxl_frame": ("::header::", "::filter::", "::toc::")}


def in_scope(f):
    if f.kind not in ("AssocFn", "Fn"):
        return False
    pats = SCOPE.get(f.crate, False)
    if pats is False:
        return False
    return pats is None or any(p in f.path for p in pats)


def extract_all(prog):
    out = {}
    try:
        with open(TABLE) as fh:
            bitspec.INLINE_BLOCK |= set(json.load(fh)["functions"])
    except (OSError, ValueError, KeyError):
        pass
    bitspec.INLINED.clear()
    for cn in SCOPE:
        for f in prog.crate(cn).fn_list:
            if not in_scope(f):
                continue
            ev = bitspec.reads_of(prog, f)
            if ev:
                out[f.path] = (f, bitspec.render(ev))
    return out


def canon_read(r):
    """comparison form of one read: the iteration plumbing of repeated reads is not layout - drop the `iterator yielded Some`
    conditions everywhere and the name of the per-element binding of `each:` reads (a `for` loop names the element, a
    `map().collect()` does not)"""
    head, _, cond = r.partition("  if ")
    conds = [c for c in cond.split(" & ") if c and not c.startswith("variant(ret:next)")] if cond else []
    if "each:" in head and ": " in head.split("each:")[0]:
        head = head[head.index("each:"):]
    return head + (("  if " + " & ".join(conds)) if conds else "")


_IDENT = re.compile(r"ret:[A-Za-z_0-9]+|[A-Za-z_][A-Za-z_0-9]*")
_KEEP = {"variant", "len", "Gt", "Ge", "Lt", "Le", "Eq", "Ne", "Not", "if", "each", "true", "false"}


def wild_locals(r, field_names):
    head, sep, cond = r.partition("  if ")
    if not sep:
        return r

    def sub(m):
        t = m.group(0)
        if t.startswith("ret:") or t in _KEEP or t in field_names or re.fullmatch(r"arg\d+", t):
            return t
        return "_"
    return head + sep + _IDENT.sub(sub, cond)


def rule_bitspec(ctx):
    rid = "R-BITSPEC"
    ctx.rule(rid, "for every header parser (all Bundle::parse impls and hand-written readers of jxl-image, jxl-oxide-common and "
                  "jxl-frame's header/filter/toc) the ordered list of bitstream reads - primitive, constant distribution "
                  "(u(n), c+u(n), U32(d0..d3), U64, F16, Bool, Enum(T), nested Bundle, each: for Vec/Array elements), the field it is "
                  "bound to and the controlling conditions - is reconstructed from MIR and must equal the table reviewed against "
                  "ISO/IEC 18181-1 (tables/bitspec.json)")
    try:
        with open(TABLE) as fh:
            ref = json.load(fh)
    except FileNotFoundError:
        ctx.anchor_missing(rid, "tables/bitspec.json")
        return
    got = extract_all(ctx.prog)
    reviewed = 0
    field_names = None
    for path, entry in sorted(ref["functions"].items()):
        want = entry["reads"]
        if path not in got:
            ctx.bad(rid, "%s|parser-missing" % path, "header parser %s no longer performs any bitstream read / was renamed: its layout table must be re-confirmed" % path)
            continue
        f, have = got[path]
        ctx.seen(f)
        ctx.count(rid + ".reads", len(have))
        if entry.get("reviewed"):
            reviewed += 1
        have_raw, want_raw = have, want
        have, want = [canon_read(x) for x in have], [canon_read(x) for x in want]
        if have != want and len(have) == len(want):
            # second chance: names of plain locals inside the controlling conditions are not layout (a renamed temporary); names that
            # are fields of some header structure are kept
            if field_names is None:
                field_names = set()
                for cr in ctx.prog.crates.values():
                    for a in cr.adts.values():
                        for v in a["variants"]:
                            for fl in v["fields"]:
                                field_names.add(str(fl[0]))
            def wild_head(x):
                hd, sep, rest = x.partition(": ")
                if sep and " " not in hd and hd not in field_names and not hd.startswith("each"):
                    return "_: " + rest
                return x
            h2 = [wild_head(wild_locals(x, field_names)) for x in have]
            w2 = [wild_head(wild_locals(x, field_names)) for x in want]
            if h2 == w2:
                have = want
        if have == want:
            ctx.ok(rid, "layout:%s" % path, "%d reads%s" % (len(have), "" if entry.get("reviewed") else " (snapshot, not independently reviewed)"),
                   nontrivial=len(have) > 1, fn=f)
            continue
        # first difference
        i = 0
        while i < min(len(have), len(want)) and have[i] == want[i]:
            i += 1
        w = want[i] if i < len(want) else "<end>"
        h = have[i] if i < len(have) else "<end>"
        fld = (w.split(":")[0] if ":" in w.split("  if ")[0] else "#%d" % i)
        ctx.bad(rid, "%s|read-%s" % (path, fld),
                "bit layout of %s differs from the format at read #%d: required `%s`, found `%s` (%d reads required, %d found): every later "
                "field and the end position shift" % (path.split(" as ")[0].lstrip("<"), i, w, h, len(want), len(have)), fn=f)
    for path in sorted(set(got) - set(ref["functions"])):
        f, have = got[path]
        if path in bitspec.INLINED:
            continue        # a private helper of a reviewed parser: its reads were compared as part of that parser's layout
        ctx.bad(rid, "%s|unreviewed-parser" % path, "new header parser %s with %d reads has no reviewed layout" % (path, len(have)), fn=f)
    ctx.counts[rid + ".functions"] = len(ref["functions"])
    ctx.counts[rid + ".functions-reviewed-against-spec"] = reviewed
    ctx.floor(rid + ".reads", 120)


def rule_hdrpred(ctx):
    rid = "R-HDRPRED"
    ctx.rule(rid, "the canvas predicates that decide whether blending-info fields are present (FrameHeader::test_full_image, "
                  "resets_canvas) are evaluated from MIR over a grid of crop rectangles around the canvas and must equal the "
                  "format's definition: full image iff x0 <= 0 && y0 <= 0 && x0 + width >= W && y0 + height >= H (signed arithmetic); "
                  "resets_canvas iff mode == Replace && (!have_crop || full image)")
    prog = ctx.prog
    fr = prog.crate("jxl_frame")
    tfi = fr.fn("jxl_frame::header::FrameHeader::test_full_image")
    rc = fr.fn("jxl_frame::header::FrameHeader::resets_canvas")
    bm = fr.adts.get("jxl_frame::header::BlendMode")
    if tfi is None or rc is None or bm is None:
        ctx.anchor_missing(rid, "FrameHeader::test_full_image / resets_canvas / BlendMode")
        return
    ctx.seen(tfi)
    ctx.seen(rc)
    CW, CH = 64, 48
    xs = [-2147483648, -200, -64, -1, 0, 1, 30]
    ws = [0, 1, 63, 64, 65, 264, 4294967295]
    modes = [v["name"] for v in bm["variants"]]

    def run(fn, args):
        env = {("size", "width"): CW, ("size", "height"): CH}
        ev = absint.Evaluator(prog, ext=lambda p: env.get(p, absint.UNKNOWN))
        return ev.call_fn(fn, args)

    diffs = []
    n = 0
    try:
        for x0, y0, w, h in itertools.product(xs, [-100, 0, 5], ws, [0, 48, 148]):
            cs = absint.Struct([1, x0, y0, w, h, absint.Ref(("ext", "size"))])
            got = bool(run(tfi, [cs]))
            want = x0 <= 0 and y0 <= 0 and x0 + w >= CW and y0 + h >= CH
            n += 1
            if got != want:
                diffs.append((x0, y0, w, h, got, want))
    except absint.Unsupported as e:
        ctx.bad(rid, "test_full_image|not-evaluable", "cannot evaluate FrameHeader::test_full_image over the crop grid (%s): it no longer is plain "
                "signed comparison arithmetic on x0, y0, width, height and the canvas size" % e, fn=tfi)
        diffs = None
    if diffs is not None:
        ctx.count(rid + ".rows", n)
        if diffs:
            d = diffs[0]
            ctx.bad(rid, "test_full_image|table-differs", "test_full_image differs from the definition in %d of %d crop rectangles, e.g. x0=%d y0=%d %dx%d on a "
                    "%dx%d canvas -> %s, required %s: `source`/`save_before_ct` are read or skipped wrongly and all later header fields shift"
                    % (len(diffs), n, d[0], d[1], d[2], d[3], CW, CH, d[4], d[5]), fn=tfi)
        else:
            ctx.ok(rid, "test_full_image|table", "%d crop rectangles agree with the definition" % n, nontrivial=True, fn=tfi)
    diffs = []
    n = 0
    try:
        for mi, have_crop, (x0, w) in itertools.product(range(len(modes)), [0, 1], [(0, 64), (-100, 50), (0, 10), (-10, 200)]):
            cs = absint.Struct([have_crop, x0, 0, w, 48, absint.Ref(("ext", "size"))])
            mode = absint.Enum("jxl_frame::header::BlendMode", mi, modes[mi])
            got = bool(run(rc, [mode, cs]))
            full = x0 <= 0 and x0 + w >= CW
            want = modes[mi] == "Replace" and (not have_crop or full)
            n += 1
            if got != want:
                diffs.append((modes[mi], have_crop, x0, w, got, want))
    except absint.Unsupported as e:
        ctx.bad(rid, "resets_canvas|not-evaluable", "cannot evaluate FrameHeader::resets_canvas (%s)" % e, fn=rc)
        return
    ctx.count(rid + ".rows", n)
    if diffs:
        d = diffs[0]
        ctx.bad(rid, "resets_canvas|table-differs", "resets_canvas differs from the definition in %d of %d rows, e.g. mode=%s have_crop=%s x0=%d width=%d -> %s, required %s"
                % (len(diffs), n, d[0], d[1], d[2], d[3], d[4], d[5]), fn=rc)
    else:
        ctx.ok(rid, "resets_canvas|table", "%d rows agree with the definition" % n, nontrivial=True, fn=rc)


def rule_bitbuf(ctx):
    rid = "R-BITBUF"
    ctx.rule(rid, "bit-reader invariant: `buf` holds look-ahead bits of the bytes immediately before `bytes`; outside refill/refill_slow, "
                  "every store that advances `Bitstream.bytes` is preceded on all paths by `buf = 0` (and `remaining_buf_bits = 0`), "
                  "otherwise stale look-ahead bits are OR-ed into the fields read after a long skip (extension payloads)")
    from ..facts import place_fields, op_const_int
    from ..mirutil import find_path_edges
    bs = ctx.prog.crate("jxl_bitstream")
    ADT = "jxl_bitstream::bitstream::Bitstream"
    n = 0
    for f in bs.fn_list:
        if f.kind != "AssocFn" or not f.path.startswith("jxl_bitstream::bitstream::Bitstream::<'_>::"):
            continue
        short = f.path.split("::")[-1]
        if short in ("refill", "refill_slow", "new"):
            continue
        stores = {"bytes": [], "buf0": [], "rem0": []}
        for b, blk in enumerate(f.blocks):
            if f.is_cleanup(b):
                continue
            for st in blk[0]:
                if st[0] != "=":
                    continue
                pf = place_fields(st[1])
                if not pf or pf[-1][1] != ADT:
                    continue
                if pf[-1][0] == "bytes":
                    stores["bytes"].append((b, st))
                if pf[-1][0] == "buf" and st[2][0] == "use" and op_const_int(st[2][1]) == 0:
                    stores["buf0"].append(b)
                if pf[-1][0] == "remaining_buf_bits" and st[2][0] == "use" and op_const_int(st[2][1]) == 0:
                    stores["rem0"].append(b)
        for b, st in stores["bytes"]:
            n += 1
            ctx.count(rid + ".bytes-stores")
            ctx.seen(f)
            for what, blocks in (("buf", stores["buf0"]), ("remaining_buf_bits", stores["rem0"])):
                p = find_path_edges(f, [0], lambda x: x == b, avoid_block=lambda x: x in blocks) if (0 not in blocks and b not in blocks) else None
                if p is None and blocks:
                    ctx.ok(rid, "%s|%s-cleared-before-skip" % (short, what), "every path to the `bytes` store passes `%s = 0`" % what, nontrivial=True, fn=f)
                else:
                    ctx.bad(rid, "%s|%s-not-cleared-before-skip" % (short, what),
                            "Bitstream::%s advances `bytes` without first clearing `%s` on every path: look-ahead bits of the skipped region leak "
                            "into the next reads" % (short, what), fn=f, pos=st[3], path=p)
    ctx.floor(rid + ".bytes-stores", 1)


def rule_toc_gather(ctx):
    """a permuted table of contents reads the offset and the size of a section at the same position"""
    from ..facts import callee, op_local, op_place
    from ..mirutil import Defs, alias_closure
    rid = "R-TOC-GATHER"
    ctx.rule(rid, "Toc::parse, permuted case: the loop over the permutation builds the reported offset and size of every section from the "
                  "unpermuted vectors.  Offset and size of one section sit at one position, so every element read (Index::index) of "
                  "another vector whose index is either an element of the permutation or the position it was taken from uses the "
                  "same of the two - a gather on one vector and a scatter on the other reports another section's offset for every "
                  "permutation that is not an involution.  Decided on MIR by tracing each index back to the permutation vector "
                  "(the result of read_permutation): `element` = read out of it (iterator item or permutation[i]), `position` = the "
                  "enumerate counter, or the range variable it was indexed with")
    cr = ctx.prog.crate("jxl_frame")
    fs = [g for g in cr.fn_list if "toc::Toc as" in g.path and g.path.endswith("::parse")]
    if len(fs) != 1:
        ctx.anchor_missing(rid, "Toc::parse")
        return
    f = fs[0]
    ctx.seen(f)
    defs = Defs(f)
    seeds = {t[3][0] for b, t in f.calls() if callee(t) and callee(t)["fn"].endswith("read_permutation") and t[3] and len(t[3]) == 1}
    if not seeds:
        ctx.anchor_missing(rid, "the call of read_permutation in Toc::parse")
        return
    P = set(alias_closure(f, seeds))
    # references to it, iterators over it
    grew = True
    while grew:
        grew = False
        for blk in f.blocks:
            if blk[2]:
                continue
            for st in blk[0]:
                if st[0] == "=" and len(st[1]) == 1 and st[1][0] not in P and st[2][0] == "ref" and st[2][2][0] in P:
                    P.add(st[1][0])
                    grew = True
            t = blk[1]
            if t[0] == "call" and t[3] and len(t[3]) == 1 and t[3][0] not in P and callee(t):
                last = callee(t)["fn"].split("::")[-1]
                if last in ("iter", "into_iter", "enumerate", "deref", "as_slice", "by_ref", "copied", "cloned") and any(op_local(a) in P for a in t[2]):
                    P.add(t[3][0])
                    grew = True
        P = set(alias_closure(f, P))

    def back(l):
        """(kind, payload): trace local l through copies / derefs / casts to its origin"""
        seen = set()
        while l is not None and l not in seen:
            seen.add(l)
            d = defs.single(l)
            if not d:
                return None
            if d[2] == "call":
                return ("call", d[3])
            rv = d[3][2]
            pl = op_place(rv[1]) if rv[0] == "use" else (rv[2] if rv[0] == "ref" else (op_place(rv[2]) if rv[0] == "cast" else None))
            if pl is None:
                return None
            fl = [e for e in pl[1:] if isinstance(e, list) and e[0] == "."]
            if fl:
                return ("field", (pl[0], fl[-1][1]))
            l = pl[0]
        return None

    positions = set()          # locals (range variables) the permutation itself is indexed with

    def klass(l, depth=0):
        o = back(l)
        if o is None or depth > 6:
            return None
        if o[0] == "call":
            c = callee(o[1])
            if c and c["fn"].endswith("ops::index::Index::index") and len(o[1][2]) == 2 and op_local(o[1][2][0]) in P:
                return "element"
            return None
        base, k = o[1]
        # a component of an iterator item: Option<(usize, &usize)> payload, or the tuple itself
        ob = base
        for _ in range(6):
            d = defs.single(ob)
            if d and d[2] == "call":
                c = callee(d[3])
                if c and c["fn"].endswith("Iterator::next") and any(op_local(a) in P for a in d[3][2]):
                    ty = " ".join(c.get("args", []))
                    if "Enumerate<" in ty:
                        return "position" if k == 0 else "element"
                    return "element"
                return None
            if d and d[2] == "assign":
                rv = d[3][2]
                pl = op_place(rv[1]) if rv[0] == "use" else (rv[2] if rv[0] == "ref" else None)
                if pl is None:
                    return None
                ob = pl[0]
                continue
            return None
        return None

    idx_calls = [(b, t) for b, t in f.calls() if callee(t) and callee(t)["fn"].endswith("ops::index::Index::index") and len(t[2]) == 2]
    # range variables used to index the permutation are positions
    from ..intervals import value_class
    for b, t in idx_calls:
        if op_local(t[2][0]) in P and op_local(t[2][1]) is not None:
            try:
                positions |= set(value_class(f, op_local(t[2][1])))
            except Exception:
                positions.add(op_local(t[2][1]))
    reads = []
    for b, t in idx_calls:
        if op_local(t[2][0]) in P:
            continue
        il = op_local(t[2][1])
        k = klass(il)
        if k is None and il is not None:
            try:
                vc = set(value_class(f, il))
            except Exception:
                vc = {il}
            if vc & positions:
                k = "position"
        if k:
            reads.append((k, callee(t).get("args", ["?"])[0], t))
    # the same gathers written as iterator chains: permutation.iter()[.enumerate()].map(|..| vec[..]) - inside the closure the index
    # is the closure's argument (an element; for an enumerated iterator component 0 is the position, component 1 the element)
    for b, t in f.calls():
        c = callee(t)
        if not c or c["fn"].split("::")[-1] not in ("map", "for_each", "filter_map") or len(t[2]) != 2 or op_local(t[2][0]) not in P:
            continue
        d = defs.single(op_local(t[2][1])) if op_local(t[2][1]) is not None else None
        if not d or d[2] != "assign" or d[3][2][0] != "agg" or d[3][2][1][0] != "closure":
            continue
        g = cr.fns.get(d[3][2][1][1])
        if g is None:
            continue
        ctx.seen(g)
        enum = "Enumerate<" in " ".join(c.get("args", []))
        gd = Defs(g)
        for gb, gt in g.calls():
            gc = callee(gt)
            if not gc or not gc["fn"].endswith("ops::index::Index::index") or len(gt[2]) != 2:
                continue
            l, comp, n = op_local(gt[2][1]), None, 0
            while l is not None and l != 2 and n < 8:
                n += 1
                dd = gd.single(l)
                if not dd or dd[2] != "assign":
                    l = None
                    break
                rv = dd[3][2]
                pl = op_place(rv[1]) if rv[0] == "use" else (rv[2] if rv[0] == "ref" else (op_place(rv[2]) if rv[0] == "cast" else None))
                if pl is None:
                    l = None
                    break
                for e in pl[1:]:
                    if isinstance(e, list) and e[0] == "." and comp is None:
                        comp = e[1]
                l = pl[0]
            if l == 2:
                k = ("position" if comp == 0 else "element") if enum else "element"
                reads.append((k, gc.get("args", ["?"])[0], gt))
    ctx.count(rid + ".reads", len(reads))
    if len(reads) < 2:
        ctx.anchor_missing(rid, "two element reads indexed through the permutation in Toc::parse")
        return
    kinds = {k for k, _, _ in reads}
    if len(kinds) == 1:
        ctx.ok(rid, "gather-consistent", "%d reads, all indexed by the permutation's %s" % (len(reads), kinds.pop()), nontrivial=True, fn=f)
    else:
        odd = [r for r in reads if r[0] != reads[0][0]][0]
        ctx.bad(rid, "gather-inconsistent", "inside the permutation loop %s is read at the %s while %s is read at the %s: offset and size "
                "of one section are taken from different positions" % (odd[1], odd[0], reads[0][1], reads[0][0]), fn=f, pos=odd[2][-2])


def rule_primitives(ctx):
    """the U64 and F16 readers, evaluated from MIR against a scripted bit source, read the format's layout and produce its values"""
    import struct
    from .. import absint
    rid = "R-PRIMITIVE"
    ctx.rule(rid, "Bitstream::read_u64, read_u32 and read_f16_as_f32 are evaluated from MIR with Bitstream::read_bits replaced by a scripted source "
                  "that records the width of every read.  U64 (ISO/IEC 18181-1 U64()): selector u(2); 0 -> 0; 1 -> 1 + u(4); 2 -> 17 + "
                  "u(8); 3 -> u(12), then while u(1): 8 more bits at shift 12, 20, .. 52, and 4 bits at shift 60, after which it stops - "
                  "both the value and the sequence of read widths are compared for every selector and every number of continuation "
                  "groups 0..7.  U32(d0, d1, d2, d3): u(2) selects a distribution, which is a constant or offset + u(n).  F16: 320 bit patterns (every exponent, five mantissas, both signs): the value equals IEEE 754 "
                  "binary16, NaN / infinity are an error, and exactly 16 bits are read")
    cr = ctx.prog.crate("jxl_bitstream")
    f64_ = [g for g in cr.fn_list if g.path.endswith("Bitstream::<'_>::read_u64") or g.path.endswith("Bitstream::read_u64")]
    f16_ = [g for g in cr.fn_list if g.path.endswith("::read_f16_as_f32") and "Bitstream" in g.path]
    if len(f64_) != 1 or len(f16_) != 1:
        ctx.anchor_missing(rid, "jxl_bitstream::bitstream::Bitstream::read_u64 / read_f16_as_f32")
        return

    def run(f, script):
        log, it = [], iter(script)

        def rb(args):
            n = args[1] if len(args) > 1 else None
            log.append(n)
            try:
                v = next(it)
            except StopIteration:
                raise absint.Unsupported("the function reads more often than the definition (%d reads so far: %s)" % (len(log), log))
            return absint.Enum("core::result::Result", 0, "Ok", [v & ((1 << n) - 1) if isinstance(n, int) else v])
        ev = absint.Evaluator(ctx.prog)
        ev.intercept = {"Bitstream::<'_>::read_bits": rb, "Bitstream::read_bits": rb}
        r = ev.call_fn(f, [absint.Ref(("ext", "bitstream"))])
        return r, log

    # U64
    f = f64_[0]
    ctx.seen(f)
    cases = [([0], 0, [2]), ([1, 5], 6, [2, 4]), ([1, 15], 16, [2, 4]), ([2, 0], 17, [2, 8]), ([2, 255], 272, [2, 8])]
    for k in range(0, 8):
        script, widths, val = [3, 0xabc], [2, 12], 0xabc
        for g in range(k):
            last = g == 6
            byte = (0x91 + 17 * g) & (0xf if last else 0xff)
            script += [1, byte]
            widths += [1, 4 if last else 8]
            val |= byte << (12 + 8 * g)
        if k < 7:
            script += [0]
            widths += [1]
        cases.append((script, val, widths))
    cases.append(([3, 0xfff] + [1, 0xff] * 6 + [1, 0xf], (1 << 64) - 1, [2, 12] + [1, 8] * 6 + [1, 4]))
    rows, bad = 0, None
    for script, val, widths in cases:
        try:
            r, log = run(f, script + [0] * 4)
        except absint.Unsupported as e:
            bad = ("not-evaluable", str(e))
            break
        rows += 1
        got = r.fields[0] if isinstance(r, absint.Enum) and r.name == "Ok" else None
        if got != val or log != widths:
            bad = ("layout", "script %s: value %s with reads %s, the definition gives %d with reads %s" % (script, got, log, val, widths))
            break
    bad_any = bool(bad)
    if bad:
        ctx.bad(rid, "read_u64|" + bad[0], "Bitstream::read_u64: " + bad[1], fn=f)
    else:
        ctx.ok(rid, "read_u64", "%d scripts: value and read widths equal U64()" % rows, nontrivial=True, fn=f)
    # U32
    f32_ = [x for x in cr.fn_list if x.path.endswith("::read_u32") and "Bitstream" in x.path and x.kind == "AssocFn"]
    sp = cr.adts.get("jxl_bitstream::bitstream::U32Specifier")
    rows32 = 0
    if len(f32_) == 1 and sp and [v["name"] for v in sp["variants"]] == ["Constant", "BitsOffset"]:
        fu = f32_[0]
        ctx.seen(fu)
        K = lambda x: absint.Enum("jxl_bitstream::bitstream::U32Specifier", 0, "Constant", [x])
        B = lambda o, n: absint.Enum("jxl_bitstream::bitstream::U32Specifier", 1, "BitsOffset", [o, n])
        dists = [[K(5), K(77), B(2, 4), B(18, 6)], [B(0, 1), B(1, 30), K(0), B(0xfffffff0, 8)]]
        bad32 = None
        for ds in dists:
            for sel in range(4):
                d = ds[sel]
                script = [sel] + ([] if d.name == "Constant" else [(0x2aaaaaab >> 3) & ((1 << d.fields[1]) - 1)])
                want_v = d.fields[0] if d.name == "Constant" else (d.fields[0] + script[1]) & 0xffffffff
                want_w = [2] + ([] if d.name == "Constant" else [d.fields[1]])
                log, it = [], iter(script + [0, 0])

                def rb(args, log=log, it=it):
                    log.append(args[1])
                    return absint.Enum("core::result::Result", 0, "Ok", [next(it)])
                ev = absint.Evaluator(ctx.prog)
                ev.intercept = {"Bitstream::<'_>::read_bits": rb, "Bitstream::read_bits": rb}
                try:
                    r = ev.call_fn(fu, [absint.Ref(("ext", "bitstream"))] + ds)
                except absint.Unsupported as e:
                    bad32 = ("not-evaluable", str(e))
                    break
                rows32 += 1
                got = r.fields[0] if isinstance(r, absint.Enum) and r.name == "Ok" else None
                if got != want_v or log != want_w:
                    bad32 = ("layout", "selector %d of %s: value %s with reads %s, the definition gives %d with reads %s" % (sel, ds, got, log, want_v, want_w))
                    break
            if bad32:
                break
        bad_any = bad_any or bool(bad32)
        if bad32:
            ctx.bad(rid, "read_u32|" + bad32[0], "Bitstream::read_u32: " + bad32[1], fn=fu)
        else:
            ctx.ok(rid, "read_u32", "8 selector / distribution pairs: u(2) selects; a constant, or offset + u(n) modulo 2^32", nontrivial=True, fn=fu)
    else:
        ctx.anchor_missing(rid, "Bitstream::read_u32 / U32Specifier::{Constant, BitsOffset}")
    # F16
    g = f16_[0]
    ctx.seen(g)
    rows16, bad = 0, None
    for sign in (0, 1):
        for e in range(32):
            for m in (0, 1, 0x155, 0x200, 0x3ff):
                v = (sign << 15) | (e << 10) | m
                try:
                    r, log = run(g, [v, 0, 0])
                except absint.Unsupported as ex:
                    bad = ("not-evaluable", str(ex))
                    break
                rows16 += 1
                if e == 31:
                    ok = isinstance(r, absint.Enum) and r.name == "Err"
                    want = "an error"
                else:
                    want = struct.unpack("<e", struct.pack("<H", v))[0]
                    got = r.fields[0] if isinstance(r, absint.Enum) and r.name == "Ok" else None
                    ok = isinstance(got, (int, float)) and float(got) == want and (got != 0 or (struct.pack("<f", float(got))[3] >> 7) == sign)
                if not ok or log != [16]:
                    bad = ("value", "bit pattern 0x%04x: %s with reads %s, binary16 gives %s with one 16-bit read" % (v, r, log, want))
                    break
            if bad:
                break
        if bad:
            break
    bad_any = bad_any or bool(bad)
    if bad:
        ctx.bad(rid, "read_f16_as_f32|" + bad[0], "Bitstream::read_f16_as_f32: " + bad[1], fn=g)
    else:
        ctx.ok(rid, "read_f16_as_f32", "%d bit patterns equal IEEE 754 binary16" % rows16, nontrivial=True, fn=g)
    ctx.count(rid + ".rows", rows + rows16 + rows32)
    if rows + rows16 + rows32 >= 14 + 320 + 8 or not bad_any:
        ctx.floor(rid + ".rows", 14 + 320 + 8)


def main(pid, tier, repo=None):
    ctx = Ctx(pid, tier, configs=("workspace",), repo=repo)
    rule_bitspec(ctx)
    rule_hdrpred(ctx)
    rule_bitbuf(ctx)
    rule_toc_gather(ctx)
    rule_primitives(ctx)
    from . import c12
    c12.rule_unpack_value(ctx)
    specconst.run(ctx, pid)
    from . import enummap
    enummap.run(ctx, pid)
    from . import c09
    c09.rule_init_offsets(ctx)
    ctx.not_decided("the primitive readers' own arithmetic (U64 continuation, F16 conversion), derived values other than the canvas predicates, "
                    "and that reported accessor values equal the parsed fields")
    return ctx.finish(
        "The layout half of the property: which bits are read, in which order, with which distribution, bound to which field and "
        "under which condition, for every header parser, reconstructed from MIR and compared with a table reviewed against the "
        "format specification; plus the decision tables of the canvas predicates that gate the presence of blending fields.")

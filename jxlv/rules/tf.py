"""R-TF: a #[target_feature] function is only entered (called, reified, passed as a value) where the CPU
is known to have the features: own features of the enclosing function, the x86_64 baseline, or a dominating
runtime detection.  Forward must-dataflow over MIR + call-graph summaries for attribute-less unsafe fns and closures."""
import re

from ..facts import callee, op_local, op_const, op_const_int, pos_line

DETECT_PREFIX = "std_detect::detect::arch::x86::__is_feature_detected::"
TOP = "TOP"  # universe (unreachable / vacuous)


def meet(a, b):
    if a is TOP:
        return b
    if b is TOP:
        return a
    return a & b


def join_add(a, b):
    """features known after learning b on top of a"""
    if a is TOP or b is TOP:
        return TOP
    return a | b


class Detect:
    """per-function dataflow: IN[b] = features detected on every feasible path to b"""

    def __init__(self, fn, implied, bool_summaries):
        self.fn = fn
        self.implied = implied
        self.summ = bool_summaries
        n = len(fn.blocks)
        self.IN = [TOP] * n          # detected feature set (frozenset) or TOP
        self.POS_IN = [None] * n     # dict local -> set|TOP : features implied when local is true ; None = unvisited
        self.NEG_IN = [None] * n
        self.visited = [False] * n
        self.run()

    def closure(self, f):
        f = f.replace("_", ".") if f not in self.implied and f.replace("_", ".") in self.implied else f
        return frozenset(self.implied.get(f, [f]))

    def run(self):
        fn = self.fn
        self.IN[0] = frozenset()
        self.POS_IN[0] = {}
        self.NEG_IN[0] = {}
        self.visited[0] = True
        work = [0]
        it = 0
        while work:
            it += 1
            if it > 200000:
                raise RuntimeError("R-TF dataflow did not converge in %s" % fn.path)
            b = work.pop()
            det = self.IN[b]
            pos = dict(self.POS_IN[b])
            neg = dict(self.NEG_IN[b])
            for st in fn.stmts(b):
                if st[0] != "=" or len(st[1]) != 1:
                    continue
                dst = st[1][0]
                rv = st[2]
                p = n_ = None
                if rv[0] == "use":
                    c = op_const_int(rv[1])
                    l = op_local(rv[1])
                    if c is not None and fn.local_ty(dst) == "bool":
                        if c == 0:
                            p, n_ = TOP, frozenset()
                        else:
                            p, n_ = frozenset(), TOP
                    elif l is not None and l in pos:
                        p, n_ = pos.get(l, frozenset()), neg.get(l, frozenset())
                elif rv[0] == "un" and rv[1] == "Not":
                    l = op_local(rv[2])
                    if l is not None and (l in pos or l in neg):
                        p, n_ = neg.get(l, frozenset()), pos.get(l, frozenset())
                if p is None:
                    pos.pop(dst, None)
                    neg.pop(dst, None)
                else:
                    pos[dst] = p
                    neg[dst] = n_
            t = fn.term(b)
            outs = []  # (succ, det, pos, neg)
            if t[0] == "call":
                dst = t[3][0] if len(t[3]) == 1 else None
                c = callee(t)
                if dst is not None:
                    pos.pop(dst, None)
                    neg.pop(dst, None)
                    if c:
                        name = c.get("res", c["fn"])
                        if c["fn"].startswith(DETECT_PREFIX):
                            pos[dst] = self.closure(c["fn"][len(DETECT_PREFIX):])
                            neg[dst] = frozenset()
                        elif name in self.summ and self.summ[name]:
                            pos[dst] = frozenset(self.summ[name])
                            neg[dst] = frozenset()
                for s in fn.succs(b):
                    outs.append((s, det, pos, neg))
            elif t[0] == "switch":
                l = op_local(t[1])
                cval = op_const_int(t[1])
                listed = [(int(v), x) for v, x in t[2]]
                edges = [(x, v) for v, x in listed] + [(t[3], "otherwise")]
                for s, v in edges:
                    d2 = det
                    if cval is not None:
                        # constant switch: only the matching edge is feasible
                        tgt = t[3]
                        for vv, xx in listed:
                            if vv == cval:
                                tgt = xx
                        if s != tgt or (v != "otherwise" and v != cval) or (v == "otherwise" and any(vv == cval for vv, _ in listed)):
                            d2 = TOP
                    elif l is not None and (l in pos or l in neg) and fn.local_ty(l) == "bool":
                        if v == 0:
                            d2 = join_add(det, neg.get(l, frozenset()))
                        elif v == "otherwise" and any(vv == 0 for vv, _ in listed):
                            d2 = join_add(det, pos.get(l, frozenset()))
                        elif v == "otherwise":
                            d2 = det  # could be 0 or not
                        else:
                            d2 = join_add(det, pos.get(l, frozenset()))
                    outs.append((s, d2, pos, neg))
            else:
                for s in fn.succs(b):
                    outs.append((s, det, pos, neg))
            for s, d2, p2, n2 in outs:
                if not self.visited[s]:
                    self.visited[s] = True
                    self.IN[s] = d2
                    self.POS_IN[s] = dict(p2)
                    self.NEG_IN[s] = dict(n2)
                    work.append(s)
                    continue
                changed = False
                nd = meet(self.IN[s], d2)
                if d2 is not TOP or self.IN[s] is TOP:
                    pass
                if nd != self.IN[s]:
                    # meet can only shrink (or replace TOP)
                    self.IN[s] = nd
                    changed = True
                if d2 is not TOP:
                    # merge carries: a TOP-detected edge is infeasible and does not constrain
                    for mp_in, mp_new in ((self.POS_IN[s], p2), (self.NEG_IN[s], n2)):
                        for k in list(mp_in.keys()):
                            if k not in mp_new:
                                del mp_in[k]
                                changed = True
                            else:
                                m = meet(mp_in[k], mp_new[k])
                                if m != mp_in[k]:
                                    mp_in[k] = m
                                    changed = True
                if changed:
                    work.append(s)

    def at(self, b):
        return self.IN[b]

    def ret_pos(self):
        """features implied by the function returning true (must over all returns); None if not bool"""
        fn = self.fn
        if fn.local_ty(0) != "bool":
            return None
        res = TOP
        for b in range(len(fn.blocks)):
            if fn.term(b)[0] != "ret" or not self.visited[b]:
                continue
            # replay statements of b to get pos at the end
            pos = dict(self.POS_IN[b])
            det = self.IN[b]
            for st in fn.stmts(b):
                if st[0] == "=" and len(st[1]) == 1:
                    dst = st[1][0]
                    rv = st[2]
                    if rv[0] == "use":
                        c = op_const_int(rv[1])
                        l = op_local(rv[1])
                        if c is not None:
                            pos[dst] = TOP if c == 0 else frozenset()
                            continue
                        if l is not None and l in pos:
                            pos[dst] = pos[l]
                            continue
                    pos.pop(dst, None)
            p = pos.get(0, frozenset())
            p = join_add(p, det) if det is not TOP else TOP
            res = meet(res, p)
        return res if res is not TOP else frozenset()


def mentions(fn):
    """every constant fn-item operand in the body: (bb, pos, const dict, how)"""
    out = []

    def visit_op(o, b, pos, how):
        c = op_const(o)
        if c is not None and "fn" in c:
            out.append((b, pos, c, how))

    for b, blk in enumerate(fn.blocks):
        if fn.is_cleanup(b):
            continue
        for st in blk[0]:
            if st[0] != "=":
                continue
            rv = st[2]
            k = rv[0]
            if k in ("use", "repeat"):
                visit_op(rv[1], b, st[3], "value")
            elif k == "cast":
                visit_op(rv[2], b, st[3], "reify")
            elif k == "agg":
                for o in rv[2]:
                    visit_op(o, b, st[3], "value")
                if rv[1][0] == "closure":
                    out.append((b, st[3], {"fn": rv[1][1], "args": [], "closure": True, "local": True}, "closure"))
            elif k == "bin":
                visit_op(rv[2], b, st[3], "value")
                visit_op(rv[3], b, st[3], "value")
        t = blk[1]
        if t[0] == "call":
            visit_op(t[1], b, t[-2], "call")
            for a in t[2]:
                visit_op(a, b, t[-2], "arg")
            # fn items hidden in generic arguments: `{path}` inside a type string
            c = callee(t)
            if c:
                for a in c["args"]:
                    for m in re.finditer(r"\{([A-Za-z_][\w:<>, ]*)\}", a):
                        nm = m.group(1)
                        if nm.startswith("closure@") or "closure@" in nm:
                            continue
                        out.append((b, t[-2], {"fn": nm, "args": [], "generic": True}, "generic-arg"))
    return out


def run(ctx, crates):
    rid = "R-TF"
    ctx.rule(rid, "required(target_feature callee) is a subset of own_features(F) + x86_64 baseline + features whose runtime "
                  "detection holds on every feasible path to the mention (must-dataflow incl. `!detected` early returns and "
                  "`cfg!() || detect()` constant folding); attribute-less unsafe fns and closures propagate their unmet "
                  "requirement to every mention of them (fixpoint); a safe fn with an unmet requirement is a violation")
    prog = ctx.prog
    any_crate = next(iter(prog.crates.values()))
    implied = any_crate.implied
    baseline = frozenset(any_crate.baseline)
    if not implied:
        ctx.anchor_missing(rid, "implied_target_features table")
        return
    fns = [f for f in prog.all_fns(crates)]
    byname = {}
    for f in fns:
        byname.setdefault(f.path, f)
    # tf of every local fn by path (callee facts carry tf for resolved targets, but closures/summaries need own)
    # 1. bool-returning detection wrappers (e.g. SimdVector::available): fixpoint of summaries
    summ = {}
    for _ in range(3):
        changed = False
        for f in fns:
            if f.local_ty(0) != "bool" or len(f.blocks) > 40:
                continue
            has = any(callee(t) and (callee(t)["fn"].startswith(DETECT_PREFIX) or callee(t).get("res", callee(t)["fn"]) in summ)
                      for _, t in f.calls())
            if not has:
                continue
            d = Detect(f, implied, summ)
            rp = d.ret_pos()
            if rp and summ.get(f.path) != rp:
                summ[f.path] = rp
                changed = True
        if not changed:
            break
    for k, v in sorted(summ.items()):
        ctx.ok(rid, "detect-wrapper:" + k, "returns true only if %s detected" % sorted(v), fn=byname.get(k))
    # 2. per-function unmet requirements with summaries
    detect_cache = {}
    U = {}          # path -> frozenset unmet (for summary-eligible fns)
    detail = {}     # path -> list of (pos, callee, missing, how)

    def eligible(f):
        return f.kind == "Closure" or (f.unsafe and not f.tf)

    n_detect_calls = 0
    n_mentions = 0
    unresolved_generic = 0
    for rnd in range(12):
        changed = False
        n_mentions = 0
        for f in fns:
            ms = mentions(f)
            if not ms:
                continue
            own = frozenset(f.tf)
            unmet = set()
            det = None
            dl = []
            for b, pos, c, how in ms:
                tgt = c.get("res", c["fn"])
                req = None
                if c.get("tf"):
                    req = frozenset(c["tf"])
                elif tgt in U:
                    req = U[tgt]
                elif c["fn"] in U:
                    req = U[c["fn"]]
                elif c.get("generic") and tgt in byname and byname[tgt].tf:
                    req = frozenset(byname[tgt].tf)
                if not req:
                    continue
                n_mentions += 1
                if det is None:
                    det = detect_cache.get(f.path)
                    if det is None:
                        det = Detect(f, implied, summ)
                        detect_cache[f.path] = det
                d = det.at(b)
                if d is TOP:
                    continue  # infeasible code
                avail = own | baseline | d
                miss = req - avail
                if miss:
                    unmet |= miss
                    dl.append((pos, tgt, sorted(miss), how, b))
            detail[f.path] = dl
            if eligible(f):
                fu = frozenset(unmet)
                if U.get(f.path, frozenset()) != fu:
                    U[f.path] = fu
                    changed = True
        if not changed:
            break
    # 3. verdicts
    for f in fns:
        for _, t in f.calls():
            c = callee(t)
            if c and c["fn"].startswith(DETECT_PREFIX):
                n_detect_calls += 1
        dl = detail.get(f.path)
        if dl is None:
            continue
        ctx.seen(f)
        if eligible(f):
            continue
        if not dl:
            # had requiring mentions, all covered
            continue
        for pos, tgt, miss, how, b in dl:
            ctx.bad(rid, "%s|%s" % (f.path, tgt),
                    "safe function %s %s %s, which requires target features %s that are neither enabled on the function, part of "
                    "the x86_64 baseline, nor detected on every path to this point: undefined behaviour / illegal instruction on "
                    "CPUs without them" % (f.path, {"call": "calls", "reify": "takes a pointer to", "arg": "passes as a value",
                                                    "value": "uses as a value", "closure": "creates the closure",
                                                    "generic-arg": "instantiates with"}.get(how, how), tgt, miss),
                    fn=f, pos=pos)
    # successes: one obligation per (function, required-callee) that is covered
    for f in fns:
        ms = mentions(f)
        det = detect_cache.get(f.path)
        if det is None:
            continue
        seen_keys = set()
        bad_keys = {(tgt) for _, tgt, _, _, _ in detail.get(f.path, [])}
        for b, pos, c, how in ms:
            tgt = c.get("res", c["fn"])
            req = frozenset(c["tf"]) if c.get("tf") else U.get(tgt) or U.get(c["fn"])
            if not req or tgt in bad_keys or (f.path, tgt) in seen_keys:
                continue
            seen_keys.add((f.path, tgt))
            d = det.at(b)
            own = frozenset(f.tf)
            if d is TOP:
                continue
            by_detection = bool(req - own - baseline)
            if eligible(f) and (req - own - baseline - d):
                continue  # propagated to callers
            ctx.ok(rid, "%s|%s" % (f.path, tgt),
                   ("covered by runtime detection %s" % sorted(d)) if by_detection else "covered by the function's own target features",
                   nontrivial=by_detection, fn=f)
    ctx.counts[rid + ".detection-calls"] = n_detect_calls
    ctx.counts[rid + ".requiring-mentions"] = n_mentions
    ctx.counts[rid + ".summarised-unsafe-fns-with-requirement"] = len([k for k, v in U.items() if v])
    ctx.floor(rid + ".detection-calls", 30)
    ctx.floor(rid + ".requiring-mentions", 300)
    return U

"""C11 — every prefix of a valid stream means 'need more data' (claimed in part: classification):
R-EOF-FORWARD (every wrapping route of a bitstream error is recognised), R-EOF-SITES (the API boundary asks before giving up)."""
from ..engine import Ctx, LIB_CRATES
from ..facts import callee, op_local, op_place, pos_line
from ..mirutil import Defs, find_path_edges, switch_subject, DEREF_FNS

BITSTREAM_ERR = "jxl_bitstream::error::Error"
ERROR_CRATES = ["jxl_bitstream", "jxl_coding", "jxl_modular", "jxl_vardct", "jxl_frame", "jxl_color", "jxl_render", "jxl_jbr", "jxl_oxide"]


def all_access_paths(f, defs, l, depth=0, seen=None):
    """set of projection tuples (from `self`, local 1) that local l may refer to, following *all* definitions"""
    if seen is None:
        seen = set()
    if depth > 30 or l in seen:
        return set()
    seen = seen | {l}
    if l == 1:
        return {()}
    out = set()
    for d in defs.of(l):
        if f.is_cleanup(d[0]):
            continue
        if d[2] == "assign":
            rv = d[3][2]
            p = None
            if rv[0] in ("ref", "rawptr"):
                p = rv[2]
            elif rv[0] == "use":
                p = op_place(rv[1])
            elif rv[0] == "cast":
                p = op_place(rv[2])
            if p is not None:
                out |= place_paths(f, defs, p, depth + 1, seen)
        elif d[2] == "call":
            c = callee(d[3])
            if c and c["fn"] in DEREF_FNS and d[3][2]:
                p = op_place(d[3][2][0])
                if p is not None:
                    out |= place_paths(f, defs, p, depth + 1, seen)
    return out


def place_paths(f, defs, p, depth, seen):
    bases = all_access_paths(f, defs, p[0], depth, seen)
    proj = []
    for e in p[1:]:
        if isinstance(e, list) and e[0] == "as":
            proj.append(e[1])
    return {b + tuple(proj) for b in bases}


def error_graph(prog):
    """nodes: ADTs named *::Error with an unexpected_eof method or reachable; edges: (enum, variant) -> payload enum"""
    adts = {}
    for cn in ERROR_CRATES:
        if cn not in prog.crates:
            continue
        for p, a in prog.crate(cn).adts.items():
            if a["kind"] == "enum" and p.split("::")[-1] == "Error":
                adts[p] = a
    edges = {}
    for p, a in adts.items():
        for v in a["variants"]:
            if len(v["fields"]) == 1 and v["fields"][0][1] in adts:
                edges.setdefault(p, []).append((v["name"], v["fields"][0][1]))
    return adts, edges


def graph_paths(edges, src, dst, limit=8):
    out = set()

    def rec(node, path, visited):
        if node == dst:
            out.add(tuple(path))
            return
        if len(path) >= limit:
            return
        for vn, tgt in edges.get(node, []):
            if tgt in visited:
                continue
            rec(tgt, path + [vn], visited | {tgt})
    rec(src, [], {src})
    return out


def method_paths(prog, adts, memo, enum_path):
    """variant paths (tuples of variant names) along which E::unexpected_eof can answer true, ending at jxl_bitstream::Error::Io"""
    if enum_path in memo:
        return memo[enum_path]
    memo[enum_path] = set()
    cn = enum_path.split("::")[0]
    f = prog.crate(cn).fn(enum_path + "::unexpected_eof")
    if f is None:
        memo[enum_path] = None
        return None
    defs = Defs(f)
    res = set()
    for b, t in f.calls():
        c = callee(t)
        if not c or not t[2]:
            continue
        l = op_local(t[2][0])
        if l is None:
            continue
        if c["fn"].endswith("::unexpected_eof") and c["fn"] != f.path:
            tgt_enum = c["fn"][: -len("::unexpected_eof")]
            sub = method_paths(prog, adts, memo, tgt_enum)
            for p in all_access_paths(f, defs, l):
                for s in (sub or set()):
                    res.add(tuple(p) + tuple(s))
        elif c["fn"] == "std::io::error::Error::kind":
            for p in all_access_paths(f, defs, l):
                res.add(tuple(p))
    memo[enum_path] = res
    return res


def rule_forward(ctx):
    rid = "R-EOF-FORWARD"
    ctx.rule(rid, "for every Error enum with an unexpected_eof method, the set of variant paths its body maps to 'true when the leaf is "
                  "Io(UnexpectedEof)' (computed from MIR: downcast chains of the arguments of delegated unexpected_eof()/io::Error::kind() "
                  "calls, followed transitively) equals the set of ALL paths from that enum to jxl_bitstream::Error in the error-type "
                  "graph built from the ADT definitions")
    prog = ctx.prog
    adts, edges = error_graph(prog)
    if BITSTREAM_ERR not in adts:
        ctx.anchor_missing(rid, BITSTREAM_ERR)
        return
    memo = {}
    n = 0
    for ep in sorted(adts):
        mp = method_paths(prog, adts, memo, ep)
        want = {p + ("Io",) for p in graph_paths(edges, ep, BITSTREAM_ERR)} if ep != BITSTREAM_ERR else {("Io",)}
        if mp is None:
            if want and ep.split("::")[0] in ("jxl_coding", "jxl_modular", "jxl_vardct", "jxl_frame", "jxl_color", "jxl_render"):
                ctx.bad(rid, "no-method:" + ep, "%s wraps bitstream errors (%d routes) but has no unexpected_eof method" % (ep, len(want)))
            continue
        f = prog.crate(ep.split("::")[0]).fn(ep + "::unexpected_eof")
        ctx.seen(f)
        n += 1
        missing = want - mp
        extra = mp - want
        ctx.count(rid + ".routes", len(want))
        if not missing:
            ctx.ok(rid, "enum:" + ep, "%d/%d wrapping routes recognised: %s" % (len(want & mp), len(want), sorted("::".join(p) for p in want)[:4]),
                   nontrivial=len(want) > 1, fn=f)
        for m in sorted(missing):
            ctx.bad(rid, "%s|missing-route:%s" % (ep, "::".join(m)),
                    "%s::unexpected_eof does not recognise a bitstream end-of-data wrapped as %s: a truncated (still valid) stream is reported "
                    "as a decode error instead of 'need more data'" % (ep, "::".join(m)), fn=f)
        for x in sorted(extra):
            ctx.bad(rid, "%s|unknown-route:%s" % (ep, "::".join(x)), "unexpected_eof follows a route that is not in the ADT graph (%s): analysis out of sync" % "::".join(x), fn=f)
    ctx.floor(rid + ".routes", 20)


# boundary functions and the number of end-of-data questions each must ask (confirmed by reading)
SITES = {
    "jxl_oxide::UninitializedJxlImage::try_init": (3, "image header, ICC, preview frame"),
    "jxl_oxide::JxlImageInner::feed_bytes_inner": (1, "frame header"),
    "jxl_frame::Frame::try_parse_lf_global": (1, "single-section LfGlobal"),
    "jxl_frame::Frame::try_parse_lf_group": (1, "single-section LfGroup"),
    "jxl_frame::Frame::try_parse_hf_global": (1, "single-section HfGlobal"),
    "jxl_render::render::render_frame": (1, "VarDCT -> LF fallback"),
    "jxl_jbr::JpegBitstreamData::try_parse": (1, "reconstruction header"),
}


def eof_tests(f):
    """blocks calling *::unexpected_eof whose result controls a branch; returns list of (call bb, true_edge, false_edge)"""
    out = []
    defs = Defs(f)
    for b, t in f.calls():
        c = callee(t)
        if not c or not c["fn"].endswith("::unexpected_eof") or len(t[3]) != 1:
            continue
        res = t[3][0]
        nb = t[4]
        if nb is None:
            continue
        # the result is switched on in the successor (possibly after a move)
        sw = None
        cur = nb
        for _ in range(3):
            tt = f.term(cur)
            if tt[0] == "switch":
                l = op_local(tt[1])
                if l == res or (l is not None and defs.single(l) and defs.single(l)[2] == "assign" and op_local(defs.single(l)[3][2][1]) == res if defs.single(l) and defs.single(l)[3][2][0] == "use" else False):
                    sw = cur
                break
            if tt[0] == "goto":
                cur = tt[1]
                continue
            break
        if sw is None:
            out.append((b, None, None))
            continue
        tt = f.term(sw)
        false_t = [x for v, x in tt[2] if v == "0"]
        true_t = tt[3] if false_t else None
        out.append((b, (sw, true_t), (sw, false_t[0] if false_t else None)))
    return out


def rule_partial_polarity(ctx):
    """end-of-data is forgiven exactly while the frame is still being loaded"""
    from ..facts import op_const_int, op_place
    from ..intervals import value_class
    rid = "R-LOADING-POLARITY"
    ctx.rule(rid, "in the single-section parsers of Frame (the functions that compute `loaded = reading_data_index != 0`), an end-of-data "
                  "error is forgiven - not recorded in the sticky has_error flag - exactly when the frame is NOT yet fully loaded: the "
                  "end-of-data question is reached on the `!loaded` edge, or a helper that asks it is handed `!loaded` for the parameter it "
                  "forgives under. The siblings must agree; an inverted flag at one site poisons a frame that is merely incomplete")
    fr = ctx.prog.crate("jxl_frame")
    n = 0
    for f in fr.fn_list:
        if f.kind == "Promoted":
            continue
        defs = None
        # L: locals defined as Ne(load of .reading_data_index, 0)
        Ls = set()
        for blk in f.blocks:
            if blk[2]:
                continue
            for st in blk[0]:
                if st[0] != "=" or len(st[1]) != 1 or st[2][0] != "bin":
                    continue
                op_, a_, b_ = st[2][1], st[2][2], st[2][3]
                # `x != 0`, `x > 0`, `0 < x`, `x >= 1`, `1 <= x` on the unsigned counter are the same question
                if (op_ in ("Ne", "Gt") and op_const_int(b_) == 0) or (op_ == "Ge" and op_const_int(b_) == 1):
                    l = op_local(a_)
                elif (op_ in ("Ne", "Lt") and op_const_int(a_) == 0) or (op_ == "Le" and op_const_int(a_) == 1):
                    l = op_local(b_)
                else:
                    continue
                if True:
                    if defs is None:
                        defs = Defs(f)
                    d = defs.single(l) if l is not None else None
                    pl = op_place(d[3][2][1]) if d and d[2] == "assign" and d[3][2][0] == "use" else None
                    if pl is not None and any(isinstance(e, list) and e[0] == "." and e[2] == "reading_data_index" for e in pl[1:]):
                        Ls |= value_class(f, st[1][0])
        if not Ls:
            continue
        # negations of L
        notL = set()
        for blk in f.blocks:
            for st in blk[0]:
                if st[0] == "=" and len(st[1]) == 1 and st[2][0] == "un" and st[2][1] == "Not" and op_local(st[2][2]) in Ls:
                    notL |= value_class(f, st[1][0])
        questions = [b for b, t in f.calls() if callee(t) and callee(t)["fn"].endswith("::unexpected_eof")]
        verdicts = []
        for q in questions:
            # which edge of a switch on L leads here?
            for b in range(len(f.blocks)):
                t = f.term(b)
                if t[0] != "switch" or op_local(t[1]) not in Ls or f.is_cleanup(b):
                    continue
                zero = [x for v, x in t[2] if v == "0"]
                if not zero:
                    continue
                on_not_loaded = q in f.reachable(zero[0]) or q == zero[0]
                on_loaded = q in f.reachable(t[3]) or q == t[3]
                if on_not_loaded and not on_loaded:
                    verdicts.append(("direct", True))
                elif on_loaded and not on_not_loaded:
                    verdicts.append(("direct", False))
        # helpers that ask the question and are handed L / !L
        for b, t in f.calls():
            c = callee(t)
            g = ctx.prog.fn(c.get("res", c["fn"])) if c else None
            if g is None or g.crate != f.crate or g is f or len(g.blocks) > 40:
                continue
            if not any(callee(tt) and callee(tt)["fn"].endswith("::unexpected_eof") for _, tt in g.calls()):
                continue
            for a in t[2]:
                l = op_local(a)
                if l in notL:
                    verdicts.append(("helper:" + g.path.split("::")[-1], True))
                elif l in Ls:
                    verdicts.append(("helper:" + g.path.split("::")[-1], False))
        if not verdicts:
            continue
        n += 1
        ctx.seen(f)
        wrong = [v for v in verdicts if not v[1]]
        key = "polarity:%s" % f.path
        if wrong:
            ctx.bad(rid, key + "|inverted", "%s forgives an end-of-data error when the frame IS fully loaded (and records it while it is still "
                    "loading) - via %s: a truncated but valid stream sets the sticky has_error flag and can never be completed"
                    % (f.path.split("::")[-1], wrong[0][0]), fn=f)
        else:
            ctx.ok(rid, key, "end-of-data is forgiven on the !loaded side (%d sites)" % len(verdicts), nontrivial=True, fn=f)
    ctx.counts[rid + ".functions"] = n
    ctx.floor(rid + ".functions", 2)


def rule_sites(ctx):
    rid = "R-EOF-SITES"
    ctx.rule(rid, "every API-boundary function asks `unexpected_eof()` about the error of its parse step the reviewed number of times and "
                  "branches on the answer; in Frame::try_parse_* the sticky has_error flag is not set on the end-of-data edge; in try_init a "
                  "NeedMoreData exit happens before the input buffer is drained (retry-from-start contract) and the end-of-data edge leads "
                  "to NeedMoreData")
    prog = ctx.prog
    found = {}
    for f in prog.all_fns(LIB_CRATES):
        ts = eof_tests(f)
        if ts and not f.path.endswith("::unexpected_eof"):
            found[f.path] = (f, ts)
            ctx.count(rid + ".questions", len(ts))
    for path, (n, what) in SITES.items():
        hit = [(p, v) for p, v in found.items() if p == path or p.startswith(path + "::{closure")]
        cnt = sum(len(v[1]) for _, v in hit)
        f = prog.fn(path)
        if f is None:
            ctx.anchor_missing(rid, path)
            continue
        ctx.seen(f)
        # the question may have been moved into a private helper of the same crate (one level): count the helper's questions once per
        # call site.  (What the helper is told by its caller - e.g. which flag means "still loading" - is then not decided here.)
        delegated = 0
        if cnt < n:
            for b_, t_ in f.calls():
                c_ = callee(t_)
                g_ = prog.fn(c_.get("res", c_["fn"])) if c_ else None
                if g_ is not None and g_.crate == f.crate and g_.path in found and g_.path not in SITES and len(g_.blocks) <= 40:
                    delegated += len(found[g_.path][1])
        if cnt >= n and all(t[1] is not None for _, v in hit for t in v[1]):
            ctx.ok(rid, "asks:%s" % path, "%d end-of-data question(s) (%s), each controlling a branch" % (cnt, what), nontrivial=True, fn=f)
        elif cnt + delegated >= n:
            ctx.ok(rid, "asks:%s" % path, "%d end-of-data question(s) asked directly, %d through a private helper (%s)" % (cnt, delegated, what), fn=f)
        else:
            ctx.bad(rid, "%s|eof-question-missing" % path,
                    "%s asks unexpected_eof() %d time(s), %d reviewed (%s): an end-of-data error of that step now surfaces as a hard error "
                    "for a truncated but valid stream" % (path, cnt, n, what), fn=f)
    # the allow_partial sites (decoders of partial sections)
    partial = [p for p in found if any(k in p for k in ("LfGroup", "PassGroup", "lf_group", "pass_group", "decode_image", "ModularImageDestination", "TransformedModularSubimage"))]
    ctx.count(rid + ".partial-section-sites", len(partial))
    for p in sorted(partial):
        ctx.ok(rid, "partial:%s" % p, "partial-section decoder tests unexpected_eof", fn=found[p][0])
    ctx.floor(rid + ".partial-section-sites", 3)
    # render closure (do_render): the question + IncompleteFrame
    rc = [p for p in found if p.startswith("jxl_render::RenderContext::render_op::{closure") or p.startswith("jxl_render::RenderContext::do_render")]
    if rc:
        ctx.ok(rid, "asks:render-op", "the render closure classifies end-of-data as InProgress/Err by is_loading_done", fn=found[rc[0]][0])
    else:
        ctx.bad(rid, "jxl_render::RenderContext::render_op|eof-question-missing", "the per-frame render closure no longer asks unexpected_eof(): "
                "a partially loaded frame becomes a permanent FrameRender::Err", fn=prog.fn("jxl_render::RenderContext::render_op"))
    # has_error poisoning only on non-EOF errors.  The store may sit in a small helper (`record_error`): functions of jxl_frame that
    # do nothing but store into has_error count as the store at their call sites.
    from ..mirutil import access_path as _ap
    setters = set()
    for g in prog.crate("jxl_frame").fn_list:
        gd = None
        for b, t in g.calls():
            c = callee(t)
            if c and c["fn"].startswith("core::sync::atomic::Atomic") and c["fn"].endswith("::store") and t[2]:
                if gd is None:
                    gd = Defs(g)
                l = op_local(t[2][0])
                ap = _ap(g, gd, l) if l is not None else None
                if ap and ap[1] and ap[1][-1] == "has_error" and len(g.blocks) <= 40 and not g.path.startswith("jxl_frame::Frame::try_parse"):
                    setters.add(g.path)
    for path in ("jxl_frame::Frame::try_parse_lf_global", "jxl_frame::Frame::try_parse_lf_group", "jxl_frame::Frame::try_parse_hf_global"):
        if path not in found:
            continue
        f, ts = found[path]
        stores = []
        defs = Defs(f)
        for b, t in f.calls():
            c = callee(t)
            if c and c["fn"].startswith("core::sync::atomic::Atomic") and c["fn"].endswith("::store") and t[2]:
                from ..mirutil import access_path
                l = op_local(t[2][0])
                ap = access_path(f, defs, l) if l is not None else None
                if ap and ap[1] and ap[1][-1] == "has_error":
                    stores.append(b)
            elif c and (c["fn"] in setters or c.get("res") in setters):
                stores.append(b)
        if not stores:
            ctx.bad(rid, "%s|has_error-store-missing" % path, "no has_error store found in %s (table must be re-confirmed)" % path, fn=f)
            continue
        for (cb, te, fe) in ts:
            if te is None or te[1] is None:
                continue
            # `!loaded && e.unexpected_eof()`: from the true edge no has_error store is reachable
            p = find_path_edges(f, [te[1]], lambda x: x in stores)
            if p is None and te[1] not in stores:
                ctx.ok(rid, "%s|eof-does-not-poison" % path, "has_error.store unreachable from the end-of-data edge", nontrivial=True, fn=f)
            else:
                ctx.bad(rid, "%s|eof-poisons-frame" % path, "an end-of-data error sets the sticky has_error flag: supplying the remaining bytes "
                        "later can no longer succeed", fn=f, pos=f.term_pos(cb), path=p)
    # try_init: NeedMoreData before drain; eof edge leads to NeedMoreData
    f = prog.fn("jxl_oxide::UninitializedJxlImage::try_init")
    if f is not None:
        nmd = [b for b, blk in enumerate(f.blocks) for st in blk[0]
               if st[0] == "=" and st[2][0] == "agg" and st[2][1][0] == "adt" and st[2][1][1].endswith("InitializeResult") and st[2][1][2] == "NeedMoreData"]
        drains = [b for b, t in f.calls() if callee(t) and callee(t)["fn"].endswith("::drain")]
        bad = [d for d in drains if any(find_path_edges(f, [d], lambda x, n=n: x == n) is not None for n in nmd)]
        if nmd and drains and not bad:
            ctx.ok(rid, "try_init|need-more-data-before-drain", "%d NeedMoreData exits, none reachable after buffer.drain" % len(nmd), nontrivial=True, fn=f)
        else:
            ctx.bad(rid, "try_init|need-more-data-after-drain", "try_init can report NeedMoreData after it has drained its input buffer: the retry "
                    "would restart from a truncated buffer", fn=f)
        ts = found.get(f.path, (f, []))[1]
        for i, (cb, te, fe) in enumerate(ts):
            if te is None or te[1] is None:
                continue
            # true edge reaches a NeedMoreData block before any Err return
            from ..validation import err_return_blocks
            errs = err_return_blocks(f)
            p1 = find_path_edges(f, [te[1]], lambda x: x in nmd, avoid_block=lambda x: x in errs)
            p2 = find_path_edges(f, [te[1]], lambda x: x in errs, avoid_block=lambda x: x in nmd)
            if p1 is not None and p2 is None:
                ctx.ok(rid, "try_init|eof-edge-%d->NeedMoreData" % i, "end-of-data edge leads to NeedMoreData and to no error return", nontrivial=True, fn=f)
            else:
                ctx.bad(rid, "try_init|eof-edge-%d-not-NeedMoreData" % i, "the end-of-data edge of a try_init parse step does not (only) lead to NeedMoreData",
                        fn=f, pos=f.term_pos(cb))
    ctx.floor(rid + ".questions", 9)


def rule_drop(ctx):
    rid = "R-EOF-DROP"
    ctx.rule(rid, "no Result carrying a decoder error is discarded: a call returning Result<_, *::Error> whose value is never read, or "
                  "whose `.ok()`/`.err()` is never read, swallows end-of-data (the decoder would continue on zero padding instead of "
                  "reporting 'need more data')")
    from ..mirutil import local_uses
    n = 0
    for f in ctx.prog.all_fns(LIB_CRATES):
        uses = None
        for b, t in f.calls():
            c = callee(t)
            if not c or len(t[3]) != 1 or t[3][0] == 0:
                continue
            ty = f.local_ty(t[3][0])
            is_res = ty.startswith("core::result::Result<") and "::Error" in ty and "fmt::Error" not in ty
            is_ok = c["fn"] in ("core::result::Result::<T, E>::ok", "core::result::Result::<T, E>::err") and \
                any("::Error" in a and "fmt::Error" not in a for a in c["args"])
            if not (is_res or is_ok):
                continue
            n += 1
            if uses is None:
                uses = local_uses(f)
                ctx.seen(f)
            if uses.get(t[3][0], 0) == 0:
                what = "the result of %s" % c["fn"].split("::")[-1]
                ctx.bad(rid, "%s|%s" % (f.path, "ok-discarded" if is_ok else "result-discarded:" + c["fn"].split("::")[-1]),
                        "%s (line %d, type %s) is never read: a decoder error, including running out of data, is silently dropped and decoding "
                        "continues on padding" % (what, pos_line(t[-2]), ty[:70]), fn=f, pos=t[-2])
    ctx.counts[rid + ".result-producing-calls"] = n
    ctx.ok(rid, "census", "%d calls producing Result<_, decoder error>; none discarded" % n)
    ctx.floor(rid + ".result-producing-calls", 500)


def rule_deferred_first(ctx):
    """a deferred end-of-data error is looked at before anything else can fail"""
    rid = "R-DEFERRED-EOF-FIRST"
    ctx.rule(rid, "the fast-lossless RLE path of the Modular decoder does not stop at the first failed read: it records the error in its "
                  "RleState and goes on, decoding garbage.  Whatever is checked afterwards (the ANS final state) fails on that garbage, "
                  "so the recorded error has to be surfaced first: every call of Decoder::finalize that is reachable from a call "
                  "working on the RleState is dominated by RleState::check_error.  Otherwise a truncated section reports "
                  "InvalidAnsStream - a hard error that poisons the frame - instead of end-of-data")
    md = ctx.prog.crate("jxl_modular")
    n = 0
    for f in md.fn_list:
        if f.kind == "Promoted":
            continue
        users, checks, finals = [], [], []
        for b, t in f.calls():
            c = callee(t)
            if not c:
                continue
            nm = c["fn"]
            if nm.endswith("RleState::<S>::check_error") or nm.endswith("RleState::check_error") or ("RleState" in nm and nm.endswith("::check_error")):
                checks.append(b)
            elif nm.endswith("Decoder::finalize"):
                finals.append((b, t))
            elif any(op_local(a) is not None and "RleState" in f.local_ty(op_local(a)) for a in t[2]):
                users.append(b)
        if not users or not finals:
            continue
        ctx.seen(f)
        region = set()
        for u in users:
            region |= set(f.reachable(u))
        for b, t in finals:
            if b not in region:
                continue
            n += 1
            if any(f.dominates(cb, b) and cb != b for cb in checks):
                ctx.ok(rid, "%s|finalize-after-check_error" % f.path, "the deferred read error is surfaced before the final-state check", nontrivial=True, fn=f)
            else:
                ctx.bad(rid, "%s|finalize-before-check_error" % f.path, "Decoder::finalize runs on the RLE path before RleState::check_error: "
                        "a truncated section fails the ANS final-state check on garbage and reports a hard error instead of end-of-data",
                        fn=f, pos=t[-2])
    ctx.count(rid + ".sites", n)
    ctx.floor(rid + ".sites", 1)


def main(pid, tier, repo=None):
    configs = ("workspace",) if tier == "quick" else ("workspace", "norayon")
    ctx = Ctx(pid, tier, configs=configs, repo=repo)
    for cfg in configs:
        ctx.use_config(cfg)
        rule_forward(ctx)
        rule_sites(ctx)
        rule_partial_polarity(ctx)
        rule_drop(ctx)
        rule_deferred_first(ctx)
    from . import c09 as _c09
    _c09.rule_preview_len(ctx)
    from . import fixguards
    fixguards.run(ctx, pid)
    ctx.not_decided("that a partial section decodes to a correct partial image; allow_partial value computations; equality of the final result")
    return ctx.finish(
        "Classification half of the property, for every prefix at once: (1) the error-type graph is built from the ADT definitions and "
        "every route by which a bitstream end-of-data error can be wrapped must be recognised by the corresponding unexpected_eof "
        "method (computed from MIR, not from source text); (2) each API boundary asks that question and branches on it, without "
        "poisoning sticky state on the end-of-data edge.")

"""C12 - 16-bit and 32-bit Modular buffers give identical results (claimed narrowly: selection of the buffer width and agreement of
the sibling code paths by the operations they route through).  Sample-for-sample equality is value-level and not decided."""
import itertools
import re

from .. import absint
from ..engine import Ctx, LIB_CRATES
from ..facts import callee, op_local, op_place
from ..mirutil import Defs, switch_subject, strip_generics

IMGBUF = "jxl_render::image::ImageBuffer"
NARROW = "jxl_render::RenderContext::narrow_modular"

# reviewed differences between the I32 and the I16 arm / impl (anything else must be identical)
ARM_EXCEPTIONS = {
    "<u16 as jxl_oxide::fb::private::Sealed>::copy_from_grid": ({"clamp"}, {"max"},
        "an i16 sample cannot exceed 65535, so the upper clamp of the i32 arm reduces to max(0)"),
}
IMPL_EXCEPTIONS = {
    "unpack_signed_u32": "i32 delegates to jxl_bitstream::unpack_signed, i16 computes the same zig-zag decode on 16 bits inline",
    "try_as_mutable_subgrid_i32": "type selectors (identity for the own width, None for the other)",
    "try_as_mutable_subgrid_i16": "type selectors",
    "try_into_grid_i32": "type selectors",
    "try_into_grid_i16": "type selectors",
}


def arm_sig(f, start, stop):
    """operations in the blocks private to one arm: reachable from the arm's entry and dominated by it (a loop's back edge must not
    make the whole loop body 'common')"""
    seen = set()
    work = [start]
    sig = []
    while work:
        b = work.pop()
        if b in seen or f.is_cleanup(b) or b in stop or not f.dominates(start, b):
            continue
        seen.add(b)
        for st in f.stmts(b):
            if st[0] == "=" and st[2][0] == "bin":
                sig.append("op:" + st[2][1].replace("WithOverflow", ""))
        t = f.term(b)
        if t[0] == "call":
            c = callee(t)
            nm = strip_generics(c["fn"]) if c else "?"
            sig.append(re.sub(r"\bi16\b|\bi32\b", "iN", nm))
        work.extend(f.succs(b))
    return sorted(sig)


def rule_buffer_sibling(ctx):
    rid = "R-BUFFER-SIBLING"
    ctx.rule(rid, "every match on ImageBuffer that has separate arms for the 32-bit and the 16-bit integer grid routes both arms through the "
                  "same operations: the multiset of resolved callees (i16/i32 in names unified) and of arithmetic/comparison operators in the "
                  "blocks private to each arm is identical, except for reviewed differences listed with their reason")
    adt = ctx.prog.crate("jxl_render").adts.get(IMGBUF)
    if adt is None:
        ctx.anchor_missing(rid, IMGBUF)
        return
    idx = {v["name"]: str(i) for i, v in enumerate(adt["variants"])}
    if "I32" not in idx or "I16" not in idx:
        ctx.anchor_missing(rid, IMGBUF + "::{I32, I16}")
        return
    n = 0
    for f in ctx.prog.all_fns(LIB_CRATES):
        if "core::fmt::Debug" in f.path:
            continue
        defs = None
        k = 0
        for b, blk in enumerate(f.blocks):
            t = blk[1]
            if t[0] != "switch" or f.is_cleanup(b):
                continue
            if defs is None:
                defs = Defs(f)
            sub = switch_subject(f, defs, b)
            if not (sub and sub[0] == "discr" and IMGBUF in f.local_ty(sub[1][0])):
                continue
            d = dict(t[2])
            if idx["I32"] not in d or idx["I16"] not in d:
                continue
            a32, a16 = d[idx["I32"]], d[idx["I16"]]
            if a32 == a16:
                continue
            n += 1
            k += 1
            ctx.seen(f)
            s32 = arm_sig(f, a32, {a16})
            s16 = arm_sig(f, a16, {a32})
            key = "arms:%s#%d" % (f.path, k)
            if s32 == s16:
                ctx.ok(rid, key, "I32 and I16 arms: %d operations each, identical" % len(s32), nontrivial=bool(s32), fn=f)
                continue
            only32 = {x.split("::")[-1] for x in s32 if s32.count(x) != s16.count(x)}
            only16 = {x.split("::")[-1] for x in s16 if s32.count(x) != s16.count(x)}
            exc = ARM_EXCEPTIONS.get(f.path)
            if exc and only32 - only16 <= exc[0] and only16 - only32 <= exc[1]:
                ctx.ok(rid, key, "reviewed difference: %s" % exc[2], fn=f)
            else:
                ctx.bad(rid, key + "|arms-differ", "the 32-bit and the 16-bit arm of a match on ImageBuffer do different things (32-bit only: %s; "
                        "16-bit only: %s): narrow and wide buffers no longer go through the same computation"
                        % (sorted(only32 - only16) or "-", sorted(only16 - only32) or "-"), fn=f, pos=f.term_pos(b))
    ctx.counts[rid + ".switches"] = n
    ctx.floor(rid + ".switches", 10)


def rule_sample_sibling(ctx):
    rid = "R-SAMPLE-SIBLING"
    ctx.rule(rid, "the i16 and i32 implementations of the Modular sample traits (Sample, Sealed) use the same operations method by method "
                  "(resolved callees with the integer width unified, arithmetic and comparison operators), except for the reviewed "
                  "differences listed with their reason")
    md = ctx.prog.crate("jxl_modular")
    pairs = {}
    for f in md.fn_list:
        m = re.match(r"<(i16|i32) as jxl_modular::sample::(Sample|Sealed)>::(\w+)$", f.path)
        if m:
            pairs.setdefault((m.group(2), m.group(3)), {})[m.group(1)] = f
    n = 0
    for (tr, meth), d in sorted(pairs.items()):
        if "i16" not in d or "i32" not in d:
            ctx.bad(rid, "impl:%s::%s|missing-sibling" % (tr, meth), "method implemented for only one of i16 / i32")
            continue
        n += 1
        ctx.seen(d["i16"])
        ctx.seen(d["i32"])

        def sig(f):
            out = []
            for b, blk in enumerate(f.blocks):
                if blk[2]:
                    continue
                for st in blk[0]:
                    if st[0] == "=" and st[2][0] == "bin":
                        out.append("op:" + st[2][1].replace("WithOverflow", ""))
                t = blk[1]
                if t[0] == "call":
                    c = callee(t)
                    nm = strip_generics(c["fn"]) if c else "?"
                    out.append(re.sub(r"\b(i16|i32|i64|u16|u32)\b", "N", nm))
            return sorted(out)

        s16, s32 = sig(d["i16"]), sig(d["i32"])
        key = "impl:%s::%s" % (tr, meth)
        if s16 == s32:
            ctx.ok(rid, key, "identical operations (%d)" % len(s16), nontrivial=bool(s16), fn=d["i16"])
        elif meth in IMPL_EXCEPTIONS:
            ctx.ok(rid, key, "reviewed difference: %s" % IMPL_EXCEPTIONS[meth], fn=d["i16"])
        else:
            ctx.bad(rid, key + "|impls-differ", "<i16 as %s>::%s and <i32 as %s>::%s use different operations (i16: %s; i32: %s)"
                    % (tr, meth, tr, meth, [x.split("::")[-1] for x in s16], [x.split("::")[-1] for x in s32]), fn=d["i16"])
    ctx.counts[rid + ".methods"] = n
    ctx.floor(rid + ".methods", 8)


def rule_width_sibling(ctx):
    """the 16-bit and 32-bit scalar kernels of the Modular transforms are the same computation"""
    import collections
    rid = "R-WIDTH-SIBLING"
    ctx.rule(rid, "the inverse transforms of jxl_modular come as pairs of free functions named ..._i16... / ..._i32... (RCT row kernel, "
                  "squeeze kernels and their `tendency`).  For every pair of scalar bodies (no target_feature) the multiset of operations "
                  "- MIR binary operators (overflow-checked and unchecked forms unified) and resolved callees with the integer width "
                  "unified, also inside function names - is the same; a dispatcher pair may differ only by the 16-bit side's CPU-feature "
                  "tests and SIMD kernels.  A rounding helper (midpoint), a saturating or widening step on one side only changes "
                  "samples that fit in 16 bits")
    md = ctx.prog.crate("jxl_modular")
    pairs = {}
    for f in md.fn_list:
        if f.kind not in ("Fn", "AssocFn") or f.tf or not f.path.startswith("jxl_modular::transform::"):
            continue
        last = f.path.split("::")[-1]
        m = re.search(r"_(i16|i32)(?=_|$)", last)
        if m:
            pairs.setdefault((f.path.rsplit("::", 1)[0], last[:m.start()] + "_N" + last[m.end():]), {})[m.group(1)] = f

    def sig(f, depth=2):
        """operations of f; scalar helpers of the transform module are expanded in place (an extracted per-sample helper on one
        side is the same computation)"""
        out = collections.Counter()
        for b, blk in enumerate(f.blocks):
            if blk[2]:
                continue
            for st in blk[0]:
                if st[0] == "=" and st[2][0] == "bin":
                    out["op:" + st[2][1].replace("WithOverflow", "").replace("Unchecked", "")] += 1
            t = blk[1]
            if t[0] == "call":
                c = callee(t)
                raw = (c.get("res") or c["fn"]) if c else "?"
                h = md.fns.get(raw) or (md.fns.get(c["fn"]) if c else None)
                if h is not None and re.search(r"::tendency_(i16|i32)$", h.path):
                    out["tendency_N"] += 1      # what the two tendency functions compute is decided by R-TENDENCY (evaluation), not by their spelling
                    continue
                if h is not None and depth > 0 and not h.tf and h.path.startswith("jxl_modular::transform::") and h is not f:
                    out += sig(h, depth - 1)
                    continue
                nm = re.sub(r"\b(i16|i32|i64|u16|u32)\b", "N", strip_generics(raw))
                out[re.sub(r"_(i16|i32)(?=_|$|:)", "_N", nm)] += 1
        return out

    n = 0
    for key, d in sorted(pairs.items()):
        if len(d) != 2:
            continue
        n += 1
        ctx.seen(d["i16"])
        ctx.seen(d["i32"])
        k = "pair:%s::%s" % (key[0].split("::")[-1], key[1])
        if key[1] == "tendency_N":
            ctx.ok(rid, k, "both are compared with the format's definition by R-TENDENCY (evaluation): one side may be written differently", fn=d["i16"])
            continue
        a, b = sig(d["i16"]), sig(d["i32"])
        if a == b:
            ctx.ok(rid, k, "identical operations (%d)" % sum(a.values()), nontrivial=True, fn=d["i16"])
            continue
        only16, only32 = a - b, b - a
        simd = all("__is_feature_detected" in x or "is_aarch64_feature_detected" in x or re.search(r"_(x86_64|aarch64|wasm32)_", x)
                   for x in only16)
        if not only32 and simd:
            ctx.ok(rid, k, "dispatcher: the 16-bit side adds %d CPU-feature tests / SIMD kernels, otherwise identical" % sum(only16.values()), fn=d["i16"])
        else:
            ctx.bad(rid, k + "|kernels-differ", "%s: the 16-bit and the 32-bit bodies use different operations (only 16-bit: %s; only 32-bit: %s)"
                    % (key[1], sorted(x.split("::")[-1] for x in only16), sorted(x.split("::")[-1] for x in only32)), fn=d["i16"])
    ctx.count(rid + ".pairs", n)
    ctx.floor(rid + ".pairs", 3)


def rule_unpack_width(ctx):
    """the narrow path halves the 32-bit token before narrowing it"""
    rid = "R-UNPACK-WIDTH"
    ctx.rule(rid, "<i16 as Sealed>::unpack_signed_u32 turns an entropy-decoded u32 token t into (t >> 1) ^ -(t & 1) modulo 2^16.  Bit 16 of "
                  "the token is bit 15 of the result (tokens above 65535 occur with large leaf offsets although every sample fits 16 "
                  "bits), so the shift has to happen at 32-bit width: the `>> 1` in that function has a u32 left operand.  Narrowing "
                  "first drops the bit and the narrow decode differs from the wide one by 32768")
    md = ctx.prog.crate("jxl_modular")
    f = md.fns.get("<i16 as jxl_modular::sample::Sealed>::unpack_signed_u32")
    if f is None:
        ctx.anchor_missing(rid, "<i16 as jxl_modular::sample::Sealed>::unpack_signed_u32")
        return
    ctx.seen(f)
    shifts = []
    fams = [f] + [md.fns[c["fn"]] for _, t in f.calls() for c in [callee(t)] if c and c["fn"] in md.fns]
    for g in fams:
        for blk in g.blocks:
            if blk[2]:
                continue
            for st in blk[0]:
                if st[0] == "=" and st[2][0] == "bin" and st[2][1] in ("Shr", "ShrUnchecked"):
                    o = st[2][2]
                    ty = g.local_ty(o[1][0]) if o[0] in ("c", "m") and len(o[1]) == 1 else (o[1].get("ty") if o[0] == "k" else None)
                    shifts.append(ty)
        for _, t in g.calls():
            c = callee(t)
            if c and c["fn"].endswith("unpack_signed") and "jxl_bitstream" in c["fn"]:
                shifts.append("u32")      # the shared 32-bit implementation
    if not shifts:
        ctx.anchor_missing(rid, "the `>> 1` of <i16 as Sealed>::unpack_signed_u32")
    elif all(t in ("u32", "i32", "u64") for t in shifts):
        ctx.ok(rid, "shift-at-32-bits", "the token is halved at %s width before it is narrowed" % shifts[0], nontrivial=True, fn=f)
    else:
        ctx.bad(rid, "shift-after-narrowing", "the token is narrowed to %s before `>> 1`: bit 16 of a token above 65535 is lost and the narrow "
                "decode is off by 32768" % [t for t in shifts if t not in ("u32", "i32", "u64")][0], fn=f)


def rule_narrowpred(ctx):
    rid = "R-NARROWPRED"
    ctx.rule(rid, "RenderContext::narrow_modular is exactly `!force_wide_buffers && image_header.metadata.modular_16bit_buffers` (complete "
                  "decision table over the two booleans, extracted by abstract evaluation of its MIR), and the builder's force_wide_buffers "
                  "setting is what reaches the render context")
    f = ctx.prog.fn(NARROW)
    if f is None:
        ctx.anchor_missing(rid, NARROW)
        return
    ctx.seen(f)
    diffs = []
    try:
        for fw, flag in itertools.product([0, 1], [0, 1]):
            def ext(p, fw=fw, flag=flag):
                if p and p[-1] == "force_wide_buffers":
                    return fw
                if p and p[-1] == "modular_16bit_buffers":
                    return flag
                return absint.UNKNOWN
            ev = absint.Evaluator(ctx.prog, ext=ext)
            got = ev.call_fn(f, [absint.Ref(("ext", "self"))])
            want = (not fw) and bool(flag)
            if bool(got) != bool(want):
                diffs.append((fw, flag, bool(got), bool(want)))
    except absint.Unsupported as e:
        ctx.bad(rid, "narrow_modular|not-evaluable", "cannot extract the decision table of narrow_modular (%s): it reads something besides the "
                "two reviewed inputs" % e, fn=f)
        return
    if diffs:
        d = diffs[0]
        ctx.bad(rid, "narrow_modular|table-differs", "narrow_modular(force_wide=%s, header flag=%s) = %s, required %s" % d, fn=f)
    else:
        ctx.ok(rid, "narrow_modular|table", "4 rows: !force_wide && modular_16bit_buffers", nontrivial=True, fn=f)
    # plumbing of the setting: jxl-oxide's builder hands its field to the render-context builder
    ox = ctx.prog.crate("jxl_oxide")
    ok = False
    for g in ox.fn_list:
        for b, t in g.calls():
            c = callee(t)
            if c and strip_generics(c["fn"]).endswith("RenderContextBuilder::force_wide_buffers") and len(t[2]) > 1:
                defs = Defs(g)
                l = op_local(t[2][1])
                seen = set()
                while l is not None and l not in seen:
                    seen.add(l)
                    dd = defs.single(l)
                    if not dd or dd[2] != "assign":
                        break
                    rv = dd[3][2]
                    pl = op_place(rv[1]) if rv[0] == "use" else None
                    if pl is None:
                        break
                    if any(isinstance(e, list) and e[0] == "." and e[2] == "force_wide_buffers" for e in pl[1:]):
                        ok = True
                        ctx.seen(g)
                        break
                    l = pl[0] if len(pl) == 1 else None
    if ok:
        ctx.ok(rid, "setting-reaches-context", "JxlImageBuilder.force_wide_buffers -> RenderContextBuilder::force_wide_buffers", fn=f)
    else:
        ctx.bad(rid, "setting-reaches-context", "the force_wide_buffers setting of JxlImageBuilder is not what is passed to the render context", fn=f)


def rule_narrow_saturate(ctx):
    """narrow (i16) sample arithmetic may wrap - the wide path wraps the same way modulo 2^16 - but must not saturate"""
    from ..facts import callee, pos_line
    rid = "R-NARROW-SATURATE"
    ctx.rule(rid, "in the sample-processing crates (jxl-modular, jxl-render, jxl-oxide) no i16 value is combined with a saturating_* "
                  "operation: an intermediate that leaves the i16 range is clipped on the narrow path while the i32 path carries the "
                  "exact value, so the two buffer widths give different samples although every coded sample fits in 16 bits "
                  "(wrapping_* operations are consistent modulo 2^16 and are accepted; widening to i32 first is the other accepted form)")
    n = 0
    for f in ctx.prog.all_fns(["jxl_modular", "jxl_render", "jxl_oxide"]):
        if f.kind == "Promoted":
            continue
        for b, t in f.calls():
            c = callee(t)
            if not c or "<impl i16>::" not in c["fn"]:
                continue
            m = c["fn"].split("::")[-1]
            if m.startswith(("wrapping_", "saturating_", "overflowing_", "checked_")):
                n += 1
            if m.startswith("saturating_"):
                ctx.seen(f)
                ctx.bad(rid, "i16-saturating:%s|%s" % (f.path, m), "%s combines 16-bit samples with %s: a sum that leaves the i16 range is clipped "
                        "here but exact on the 32-bit buffer path" % (f.path, m), fn=f, pos=t[-2])
    ctx.count(rid + ".i16-explicit-overflow-ops", n)
    ctx.floor(rid + ".i16-explicit-overflow-ops", 4)
    if not any(v["rule"] == rid for v in ctx.violations):
        ctx.ok(rid, "no-i16-saturation", "%d explicit-overflow operations on i16, none saturating" % n, nontrivial=True)


def rule_unpack_value(ctx):
    """UnpackSigned, in each of its four copies, equals the format's definition (evaluated from MIR)"""
    from .. import absint
    rid = "R-UNPACK-VALUE"
    ctx.rule(rid, "UnpackSigned(u) = u / 2 for even u, -(u + 1) / 2 for odd u (ISO/IEC 18181-1).  The four copies - "
                  "jxl_bitstream::unpack_signed, unpack_signed_u64, and the Modular sample decoders <i32 as Sealed>::unpack_signed_u32 and "
                  "<i16 as Sealed>::unpack_signed_u32 (result modulo 2^16, as the narrow buffers require) - are evaluated from MIR for 17 "
                  "tokens around 0, 2^8, 2^16, 2^17 and the top of the range and compared with the definition")
    P = ctx.prog
    cands = [("jxl_bitstream::unpack_signed", 32, 32), ("jxl_bitstream::unpack_signed_u64", 64, 64)]
    fns = []
    for path, inb, outb in cands:
        f = P.fn(path)
        if f is None:
            ctx.anchor_missing(rid, path)
            continue
        fns.append((f, inb, outb, path))
    md = P.crate("jxl_modular")
    for g in md.fn_list:
        if g.path.endswith("::unpack_signed_u32") and " as jxl_modular::sample::Sealed>" in g.path and g.kind != "Promoted":
            w = 16 if g.path.startswith("<i16 ") else (32 if g.path.startswith("<i32 ") else None)
            if w:
                fns.append((g, 32, w, g.path))
    if len(fns) < 4:
        ctx.anchor_missing(rid, "the four UnpackSigned implementations (found %d)" % len(fns))
        return
    rows = 0
    for f, inb, outb, path in fns:
        ctx.seen(f)
        top = (1 << inb) - 1
        toks = [0, 1, 2, 3, 4, 5, 254, 255, 256, 65534, 65535, 65536, 65537, 131070, 131071, top - 1, top]
        bad, undec = None, None
        for u in toks:
            want = u // 2 if u % 2 == 0 else -((u + 1) // 2)
            want &= (1 << outb) - 1
            if want >= 1 << (outb - 1):
                want -= 1 << outb
            ev = absint.Evaluator(P)
            try:
                got = ev.call_fn(f, [u])
            except absint.Unsupported as e:
                undec = str(e)
                break
            rows += 1
            if got != want and bad is None:
                bad = (u, got, want)
        key = absint_key(path)
        if undec:
            ctx.bad(rid, key + "|not-evaluable", "%s is no longer a function the evaluator can decide (%s)" % (path, undec), fn=f)
        elif bad:
            ctx.bad(rid, key + "|value", "token %d unpacks to %s, the definition gives %d (result width %d bits)" % (bad[0], bad[1], bad[2], outb), fn=f)
        else:
            ctx.ok(rid, key, "17 tokens equal the definition (result width %d bits)" % outb, nontrivial=True, fn=f)
    ctx.count(rid + ".rows", rows)
    ctx.floor(rid + ".rows", 4 * 17)


def absint_key(path):
    import re
    return re.sub(r"\s+", " ", path)


def rule_tendency(ctx):
    """the Squeeze smooth-tendency function, evaluated from MIR in both sample widths, is the format's"""
    from .. import absint
    rid = "R-TENDENCY"
    ctx.rule(rid, "the inverse Squeeze step adds `tendency(A, B, C)` to the residual (ISO/IEC 18181-1, Squeeze): for A >= B >= C, "
                  "X = (4A - 3C - B + 6) / 12 (truncating), clamped by `X - (X & 1) > 2(A - B) -> 2(A - B) + 1` and `X + (X & 1) > "
                  "2(B - C) -> 2(B - C)`; mirrored for A <= B <= C; 0 otherwise.  jxl_modular::transform::squeeze::tendency_i32 and "
                  "tendency_i16 are evaluated from MIR (nothing is run; Wrapping<i32> / Wrapping<i16> arithmetic is interpreted) on "
                  "14^3 triples whose intermediate values fit 16 bits, and compared with that definition - so the narrow and the wide "
                  "decode agree with the format, and hence with each other, on those triples")
    md = ctx.prog.crate("jxl_modular")
    V = [-2000, -257, -12, -7, -6, -2, -1, 0, 1, 3, 6, 13, 255, 1999]

    def ref(a, b, c):
        def td(x, y):
            q = abs(x) // abs(y)
            return q if (x >= 0) == (y >= 0) else -q
        if a >= b >= c:
            x = td(4 * a - 3 * c - b + 6, 12)
            if x - (x & 1) > 2 * (a - b):
                x = 2 * (a - b) + 1
            if x + (x & 1) > 2 * (b - c):
                x = 2 * (b - c)
            return x
        if a <= b <= c:
            x = td(4 * a - 3 * c - b - 6, 12)
            if x + (x & 1) < 2 * (a - b):
                x = 2 * (a - b) - 1
            if x - (x & 1) < 2 * (b - c):
                x = 2 * (b - c)
            return x
        return 0
    rows = 0
    for nm in ("tendency_i32", "tendency_i16"):
        fs = [g for g in md.fn_list if g.path.endswith("squeeze::" + nm) and g.kind == "Fn"]
        if len(fs) != 1 or fs[0].argc != 3:
            ctx.anchor_missing(rid, "jxl_modular::transform::squeeze::%s(a, b, c)" % nm)
            continue
        f = fs[0]
        ctx.seen(f)
        bad = undec = None
        n = 0
        for a in V:
            for b in V:
                for c in V:
                    ev = absint.Evaluator(ctx.prog)
                    try:
                        got = ev.call_fn(f, [a, b, c])
                    except absint.Unsupported as e:
                        undec = "(%d, %d, %d): %s" % (a, b, c, e)
                        break
                    n += 1
                    want = ref(a, b, c)
                    if got != want and bad is None:
                        bad = (a, b, c, got, want)
                if undec:
                    break
            if undec:
                break
        rows += n
        if undec:
            ctx.bad(rid, nm + "|not-evaluable", "%s is no longer a function the evaluator can decide (%s)" % (nm, undec), fn=f)
        elif bad:
            ctx.bad(rid, nm + "|definition", "%s(%d, %d, %d) = %s, the format's tendency is %d: the inverse Squeeze reconstructs other samples than "
                    "the encoder predicted from" % ((nm,) + bad), fn=f)
        else:
            ctx.ok(rid, nm + "|definition", "%d triples equal the format's smooth tendency" % n, nontrivial=True, fn=f)
    ctx.count(rid + ".rows", rows)
    ctx.floor(rid + ".rows", 2 * 14 ** 3)


def rule_width_branch(ctx):
    """the narrow and the wide branch of every `if self.narrow_modular()` read the same state"""
    from ..facts import op_local, op_place
    rid = "R-WIDTH-BRANCH"
    ctx.rule(rid, "RenderContext keeps two parallel sets of render handles (renders_narrow / renders_wide) and duplicates a stretch of code "
                  "for each under `if self.narrow_modular()`.  For every such branch the set of struct fields read or written in the "
                  "two arms (closures created there included; narrow / wide in field names normalised) is the same - an arm that takes "
                  "its reference frames, regions or dependencies from another field than its twin renders 16-bit images differently from "
                  "32-bit ones")
    cr = ctx.prog.crate("jxl_render")

    def fields_of(f, blocks, depth=0):
        out = set()

        def plf(pl):
            for e in pl[1:]:
                if isinstance(e, list) and e[0] == "." and e[2]:
                    out.add(str(e[2]))
        for b in blocks:
            for st in f.stmts(b):
                if st[0] != "=":
                    continue
                plf(st[1])
                rv = st[2]
                ops = [rv[1]] if rv[0] == "use" else ([rv[2]] if rv[0] in ("cast", "un") else ([rv[2], rv[3]] if rv[0] == "bin" else (list(rv[2]) if rv[0] == "agg" else [])))
                for o in ops:
                    p = op_place(o)
                    if p:
                        plf(p)
                if rv[0] == "ref":
                    plf(rv[2])
                if rv[0] == "discr":
                    plf(rv[1])
                if rv[0] == "agg" and rv[1][0] == "closure" and depth < 3:
                    g = cr.fns.get(rv[1][1])
                    if g is not None:
                        out |= fields_of(g, [x for x in range(len(g.blocks)) if not g.is_cleanup(x)], depth + 1)
            t = f.term(b)
            if t[0] == "call":
                for a in t[2]:
                    p = op_place(a)
                    if p:
                        plf(p)
                plf(t[3])
            elif t[0] == "switch":
                p = op_place(t[1])
                if p:
                    plf(p)
        return out

    def norm(s):
        return {x.replace("narrow", "*").replace("wide", "*") for x in s}

    sites = 0
    for f in cr.fn_list:
        if f.kind == "Promoted" or not f.path.startswith("jxl_render::RenderContext"):
            continue
        k = 0
        for b, t in f.calls():
            c = callee(t)
            if not c or not c["fn"].endswith("RenderContext::narrow_modular") or not t[3] or len(t[3]) != 1:
                continue
            from ..intervals import value_class
            cls = set(value_class(f, t[3][0]))     # the answer may be kept in a named local and tested later (benign E12)
            for sb in range(len(f.blocks)):
                st = f.term(sb)
                if st[0] != "switch" or op_local(st[1]) not in cls:
                    continue
                tg = [x for _, x in st[2]] + [st[3]]
                if len(tg) != 2 or tg[0] == tg[1]:
                    continue
                regs = []
                for x in tg:
                    other = [y for y in tg if y != x][0]
                    regs.append([bb for bb in range(len(f.blocks)) if not f.is_cleanup(bb) and f.dominates(x, bb) and not f.dominates(other, bb)])
                sites += 1
                k += 1
                ctx.seen(f)
                fa, fb = norm(fields_of(f, regs[0])), norm(fields_of(f, regs[1]))
                key = "%s#%d" % (f.path, k)
                if fa == fb:
                    ctx.ok(rid, key, "both arms touch the same %d fields" % len(fa), nontrivial=True, fn=f)
                else:
                    ctx.bad(rid, key + "|fields-differ", "the two arms of `if self.narrow_modular()` do not use the same state: only one of them touches %s"
                            % ", ".join("`%s`" % x for x in sorted(fa ^ fb)), fn=f, pos=f.term_pos(sb))
    ctx.count(rid + ".branches", sites)
    ctx.floor(rid + ".branches", 6)


def main(pid, tier, repo=None):
    ctx = Ctx(pid, tier, configs=("workspace",), repo=repo)
    rule_narrowpred(ctx)
    rule_buffer_sibling(ctx)
    rule_sample_sibling(ctx)
    rule_width_sibling(ctx)
    rule_unpack_width(ctx)
    rule_unpack_value(ctx)
    rule_width_branch(ctx)
    rule_tendency(ctx)
    rule_narrow_saturate(ctx)
    ctx.not_decided("sample-for-sample equality of the two decodes; the arithmetic of the i16 SIMD squeeze kernels against the scalar code "
                    "(head/tail handling per width class); that 16-bit intermediates never overflow for depths up to 12 bits")
    return ctx.finish(
        "Claimed narrowly: what selects the buffer width and that the two widths go through the same operations. The predicate choosing "
        "narrow buffers equals `!force_wide && header flag` (exhaustive decision table); every match on ImageBuffer with separate I32/I16 "
        "arms, and every i16/i32 pair of Sample/Sealed methods, use the same resolved callees and operators (sibling agreement, reviewed "
        "exceptions listed). Identity of the decoded samples, and the SIMD squeeze kernels' agreement with the scalar code, are not decided.")

"""R-GUARD: the consistency checks that repaired defects D23-D39 introduced are still in place.
Each entry names a function (and its closures), the kind of fact, and the normalised comparison / callee:
  reject   a comparison whose edge leads to an error return (reconstructed as in R-LIMIT);
  compare  a comparison that decides a branch (either outcome) - used for `skip when empty` / `mirror at the edge` guards;
  calls    a call to the named function from the family (a conversion or a query the repair depends on);
  calls-own  the same, but only in the named function and its closures (for a callee the function's own helpers call as well);
  guarded  `callee <= cmp:<text>` / `callee <= call:<fn>`: every call of `callee` in the family is dominated by a branch on that comparison
           (either polarity) / on the result of a call to <fn>;
  reads    the family reads the named struct field;
  bytes    the function (or one of its promoted constants) contains the byte-string literal.
These are necessary conditions only: the rule says that the guard exists and is wired to the same values, not that it is sufficient."""
from .. import validation
from ..facts import callee

TABLE = [
    # (property ids, function path prefix, kind, text, defect, why)
    (("C01",), "jxl_render::vardct::adaptive_lf_smoothing", "compare", "ret:width != arg1.width | ret:width != width | ret:height != height", "D23",
     "LF planes of different sizes (chroma subsampling) are not smoothed: the smoothing kernel asserts equal plane lengths"),
    (("C01",), "<jxl_vardct::hf_metadata::HfMetadata as jxl_oxide_common::Bundle<", "reject", "dw > 1", "D24",
     "varblocks wider than 8 in a chroma-subsampled frame stick out of the smaller chroma grid"),
    (("C01",), "<jxl_vardct::hf_metadata::HfMetadata as jxl_oxide_common::Bundle<", "reject", "dh > 1", "D24",
     "varblocks taller than 8 in a chroma-subsampled frame"),
    (("C01", "C05"), "jxl_render::blend::blend", "reject", "ret:color_channels != color_channels", "D25",
     "blending a 1-channel (grey Modular) frame with a 3-channel (VarDCT) frame"),
    (("C01", "C05"), "jxl_render::blend::patch", "reject", "ret:color_channels != color_channels", "D25",
     "patch source with a different number of colour channels"),
    (("C01", "C05"), "jxl_render::blend::blend", "guarded", "blend::blend_single <= call:region::Region::is_empty", "D26",
     "a frame outside the rendered region has empty buffers: nothing is blended, no subgrid is taken"),
    (("C01", "C05"), "jxl_render::RenderContext::load_frame_header", "reject", "ref_header.width < size.width", "D27",
     "a cropped reference-only frame is not a valid blending background"),
    (("C01", "C05"), "jxl_render::RenderContext::load_frame_header", "reject", "ref_header.height < size.height", "D27",
     "a cropped reference-only frame is not a valid blending background"),
    (("C01", "C05"), "jxl_render::blend::patch", "calls", "region::Region::downsample_with_shift #2", "D28",
     "patch targets are clipped against the buffer of an upsampled frame, not against its upsampled region"),
    (("C01",), "jxl_render::features::noise::fill_once", "compare", "source_y < ret:height", "D29",
     "the group below may be a single row high: the row read from it is mirrored"),
    (("C01", "C05"), "jxl_render::blend::patch", "compare", "width == 0", "D30", "an empty clipped patch is skipped before any subgrid is taken"),
    (("C01", "C05"), "jxl_render::blend::patch", "compare", "height == 0", "D30", "an empty clipped patch is skipped"),
    (("C01",), "jxl_render::RenderContext::load_frame_header", "reject", "ret:sample_width < lf_width", "D31",
     "the LF frame must provide one sample per 8x8 block of the frame that uses it"),
    (("C01",), "jxl_render::RenderContext::load_frame_header", "reject", "ret:sample_height < lf_height", "D31", "as above, height"),
    (("C01",), "jxl_render::vardct::render_vardct", "calls", "image::ImageWithRegion::convert_modular_color", "D32",
     "an integer (Modular, non-XYB) LF frame is converted to float before it is used as LF coefficients"),
    (("C01",), "jxl_render::vardct::render_vardct", "calls", "image::ImageWithRegion::clone_gray", "D32",
     "a single-channel LF frame is expanded to three channels"),
    (("C01",), "jxl_render::RenderContext::postprocess_keyframe", "guarded", "ImageWithRegion::remove_color_channels <= cmp:output_channels < 3", "D34",
     "a no-op transform with four outputs (CMYK) removes no colour channel from a three-channel image"),
    (("C01",), "jxl_render::RenderContextBuilder::build", "calls", "ExtraChannelInfo::is_black", "D35",
     "a CMYK profile needs a black extra channel"),
    (("C06",), "jxl_render::util::image_region_to_frame", "reads", "save_before_ct", "D42",
     "a regular frame saved for reference before the colour transform can be a patch source and is rendered in full, like a reference-only frame"),
    (("C01", "C06"), "jxl_render::image::ImageWithRegion::upsample_nonseparable", "calls-own", "region::Region::upsample", "D45",
     "after upsampling an extra channel to the colour resolution only (frames with patches) its region is brought back to full-resolution "
     "coordinates, the convention of regions_and_shifts()"),
    (("C06",), "jxl_render::util::pad_upsampling", "calls", "FrameFlags::patches", "D46",
     "with patches, extra channels are upsampled in two stages: the padding counts the passes of both"),
    (("C01", "C17"), "jxl_jbr::JpegBitstreamData::reconstruct", "guarded", "::new <= call:JpegBitstreamData::is_complete", "D50",
     "the data section is sliced by the lengths the header announces only when all of it has been decompressed"),
    (("C17", "C01"), "<jxl_jbr::huffman::HuffmanCode as jxl_oxide_common::Bundle", "reject", "sum_counts == 0", "D63",
     "a Huffman code of the reconstruction data has at least the sentinel symbol: the DHT writer takes values[..len - 1], the table builder lengths[0]"),
    (("C17", "C01"), "<jxl_jbr::huffman::HuffmanCode as jxl_oxide_common::Bundle", "reject", "counts != 0", "D63",
     "no symbol has a zero-length code (the table builder shifts by 64 - length)"),
    (("C17",), "jxl_oxide::aux_box::jbrd::Jbrd::data", "calls", "JpegBitstreamData::is_complete", "D50",
     "the jbrd box is handed out (status Available) only once its data section is complete; the header alone is parsed much earlier"),
    (("C17",), "jxl_jbr::reconstruct::JpegBitstreamReconstructor::<'_, '_, '_>::process_next", "reads", "do_ycbcr", "seed-C17f",
     "which frame channel holds a JPEG component's quantisation table depends on the colour model: Y,Cb,Cr are stored as channels "
     "1,0,2, R,G,B as 0,1,2 - the DQT writer has to look at do_ycbcr (a seeded change made the swap unconditional)"),
    (("C10",), "jxl_oxide::aux_box::AuxBoxList::handle_event", "calls", "AuxBoxReader::ensure_raw", "seed-C10g",
     "an uncompressed auxiliary box leaves the Init state at its start: a box without payload gets no data event, and finalize() turns a "
     "reader still in Init into NoData, so its type and (empty) payload would be lost"),
    (("C10",), "jxl_bitstream::container::parse::ParseEvents::<'inner, 'buf>::emit_single", "bytes", 'b"jxl"', "seed-C10i",
     "inside a brob box every inner type that starts with `jxl` is reserved, known to this decoder or not: the test compares the "
     "three-byte prefix (a seeded change replaced it by the list of the four known jxl? types)"),
    (("C01",), "jxl_frame::data::spline::Splines::estimate_area", "calls", "core::cmp::Ord::max", "D54",
     "a spline whose colour coefficients are all zero still costs work proportional to its length: the colour factor of the estimated "
     "area is at least 1 (without it a 271-byte file renders for minutes)"),
    (("C01",), "jxl_frame::data::spline::Splines::estimate_area", "calls", "saturating_mul #3", "D55",
     "the estimated area is computed from bitstream values in u64: products saturate instead of overflowing (panic in checked builds, "
     "a wrapped value below the limit otherwise)"),
    (("C01",), "jxl_frame::data::spline::validate_spline_pos", "reject", "ret:abs > 8388607", "D56",
     "spline coordinates are strictly inside (-2^23, 2^23): beyond 2^24 the renderer's f32 unit steps stop advancing and the sampling "
     "loop never ends"),
    (("C01",), "<jxl_frame::data::spline::Splines as jxl_oxide_common::Bundle<", "calls", "validate_spline_pos #2", "D56",
     "every start point of a spline is range-checked"),
    (("C01",), "<jxl_frame::data::spline::QuantSpline as jxl_oxide_common::Bundle<", "calls", "validate_spline_pos", "D56",
     "every accumulated control point of a spline is range-checked"),
    (("C06", "C07"), "jxl_render::RenderContext::get_previous_frames_visibility", "calls", "binary_search | partition_point | Iterator::position", "seed-C06l",
     "the noise seed of a frame counts the visible frames before THAT frame: the frame has to be located among the keyframes (the "
     "function also runs for old frames when reset_cache rebuilds every render after a region request), not assumed to be the newest"),
    (("C05",), "jxl_render::image::composite_preprocess", "reads", "color_channels", "seed-C05l",
     "the bit depths zipped with the grid's buffers are laid out by the grid's own colour-channel count (a grey image coded as three "
     "channels has one colour buffer by then), not by the number of channels the frame was coded with"),
    (("C11",), "jxl_frame::Frame::try_parse_lf_global", "calls", "is_partial", "D57",
     "in a single-entry frame the start of LfGroup is learned from the end of LfGlobal: only from a complete parse (a partial global "
     "Modular image stops early)"),
    (("C11",), "jxl_frame::Frame::try_parse_lf_group", "reads", "partial", "D57",
     "the start of HfGlobal is learned from the end of LfGroup: only from a complete parse"),
    (("C11",), "jxl_frame::Frame::try_parse_hf_global", "compare", "offset == 0", "D57",
     "while the offset of HfGlobal is unknown the section is reported as not available yet instead of being parsed at offset 0"),
    (("C09", "C10"), "jxl_oxide::JxlImageBuilder::read", "calls", "ContainerParser::kind", "D58",
     "read() keeps pulling from the reader after the last frame when the file is a container: boxes may follow the codestream"),
    (("C11", "C05"), "jxl_render::RenderContext::render_loading_frame", "reads", "frame_deps", "D60",
     "a frame that is already complete is rendered with the reference / LF slots recorded when it was loaded, not with the current ones"),
    (("C03",), "jxl_modular::image::decode_simple_table_slow", "compare", "table.decision_prop == 15", "seed-C03m",
     "a lookup table on property 15 (the weighted predictor's max error) needs the weighted-predictor state whatever predictor its leaves "
     "use: without the header the property reads 0 for every sample and the wrong leaf is taken"),
    (("C13", "C11"), "jxl_frame::Frame::try_parse_lf_global", "reads", "toc_group", "seed-C13m",
     "a section is decoded in partial (error-tolerant) mode only while fewer bytes than its own TOC size are available - not while "
     "the frame as a whole is still loading: in partial mode every error of the section, including OutOfMemory, is dropped"),
    (("C13", "C11"), "jxl_frame::Frame::try_parse_lf_group", "reads", "toc_group", "seed-C13m",
     "partial mode of an LF group is decided by that group's own size in the TOC"),
    (("C13", "C11"), "jxl_frame::Frame::pass_group_bitstream", "reads", "toc_group", "seed-C13m",
     "partial mode of a pass group is decided by that group's own size in the TOC"),
    (("C06",), "jxl_render::util::image_region_to_frame", "reads", "frame_type", "seed-C06h",
     "a ReferenceOnly frame is a patch / blending source whatever its save_before_ct bit says (the bit is only defaulted to true when "
     "absent), and reset_cache keeps its render handle across region changes: it has to be rendered in full"),
    (("C05",), "jxl_render::blend::blend", "calls", "region::Region::with_size", "seed-C05h",
     "the new frame's buffer region is clipped to the frame's own width x height: after upsampling the buffer is rounded up to a "
     "multiple of the factor and the excess columns / rows must not be blended onto the canvas"),
    (("C06",), "jxl_render::modular::compute_modular_region", "calls", "::has_palette", "seed-C06e",
     "any Palette transform forces a full-frame Modular decode: implicit delta entries (negative indices) are predicted from neighbours "
     "across group borders even when nb_deltas = 0 (confirmed by reading Palette::inverse_inner; a seeded change narrowed this to delta palettes)"),
    (("C01", "C03"), "jxl_modular::ma::MaTreeNode::try_compile_to_table", "compare", "value > ret:end", "D39",
     "a decision whose threshold lies above the node's range is redundant: only the right child is reachable"),
    (("C01", "C03"), "jxl_modular::ma::MaTreeNode::try_compile_to_table", "compare", "(value+1) < ret:start", "D39",
     "a decision whose threshold lies below the node's range is redundant: only the left child is reachable"),
]


def flip_text(t):
    """`a < b` as `b > a` (None for a comparison with a constant, which norm() already orients)"""
    parts = t.rsplit(" ", 2)
    if len(parts) != 3 or parts[2].lstrip("-").isdigit():
        return None
    fl = {"<": ">", ">": "<", "<=": ">=", ">=": "<=", "==": "==", "!=": "!="}
    return "%s %s %s" % (parts[2], fl[parts[1]], parts[0])


_DEEP = None


def deep_forms(key):
    """definition-resolved forms recorded for an entry when it was confirmed (tables/guard_deep.json): they contain no local names, so a
    renamed local is still recognised"""
    global _DEEP
    if _DEEP is None:
        import json, os
        p = os.path.join(os.path.dirname(os.path.dirname(os.path.dirname(os.path.abspath(__file__)))), "tables", "guard_deep.json")
        try:
            _DEEP = json.load(open(p))
        except (OSError, ValueError):
            _DEEP = {}
    return set(_DEEP.get(key, []))


def family(prog, prefix):
    """the function, its closures, and the same-crate functions they call directly (a guard moved into a private helper is still the
    guard)"""
    cn = prefix.lstrip("<").split("::")[0]
    cr = prog.crates.get(cn)
    if cr is None:
        return []
    fam = [f for f in cr.fn_list if f.kind != "Promoted" and f.path.startswith(prefix)]
    seen = {f.path for f in fam}
    for f in list(fam):
        for _, t in f.calls():
            c = callee(t)
            g = (cr.fns.get(c.get("res") or c["fn"]) or cr.fns.get(c["fn"])) if c else None
            if g is not None and g.path not in seen and g.kind != "Promoted" and len(g.blocks) < 120:
                seen.add(g.path)
                fam.append(g)
                for h in cr.fn_list:
                    if h.path.startswith(g.path + "::{closure") and h.path not in seen:
                        seen.add(h.path)
                        fam.append(h)
    return fam


def run(ctx, pid):
    rid = "R-GUARD"
    ctx.rule(rid, "table of the guards introduced by repaired defects (D23-D39): for each, the comparison that rejects (edge leads to an "
                  "error return), the comparison that decides a skip / mirror branch, or the call the repair depends on is present in the "
                  "named function or one of its closures; comparisons are reconstructed from MIR and normalised as in R-LIMIT")
    cache = {}
    n = 0
    for props, prefix, kind, text, defect, why in TABLE:
        if pid not in props:
            continue
        n += 1
        fam = family(ctx.prog, prefix)
        key = "%s|%s|%s:%s" % (defect, prefix.split("::")[-1].rstrip("<"), kind, text)
        if not fam:
            ctx.anchor_missing(rid, prefix)
            continue
        found = False
        if kind == "guarded":
            target, _, guard = text.partition(" <= ")
            sites = 0
            unguarded = 0
            for f in fam:
                defs = None
                for b, t in f.calls():
                    c = callee(t)
                    if not c or not (c["fn"].endswith(target) or c.get("res", "").endswith(target)):
                        continue
                    sites += 1
                    if defs is None:
                        from ..mirutil import Defs
                        from ..facts import op_local
                        defs = Defs(f)
                        cmps = {}
                        for cc in validation.checks(f, errs=set(range(len(f.blocks)))):
                            cmps.setdefault(cc["bb"], set()).add(validation.norm(cc["subject"], cc["op"], cc["other"]))
                    ok = False
                    for sb in range(len(f.blocks)):
                        st_ = f.term(sb)
                        if st_[0] != "switch" or sb == b or not f.dominates(sb, b):
                            continue
                        if guard.startswith("cmp:"):
                            gt = guard[4:]
                            neg = {"<": ">=", ">=": "<", ">": "<=", "<=": ">", "==": "!=", "!=": "=="}
                            parts = gt.rsplit(" ", 2)
                            forms = {gt}
                            if len(parts) == 3:
                                forms.add(validation.norm(parts[0], neg[parts[1]], int(parts[2]) if parts[2].lstrip("-").isdigit() else parts[2]))
                            if cmps.get(sb, set()) & forms:
                                ok = True
                        else:
                            l = op_local(st_[1])
                            for _ in range(4):
                                d = defs.single(l) if l is not None else None
                                if d and d[2] == "assign" and d[3][2][0] in ("use", "un"):
                                    l = op_local(d[3][2][1] if d[3][2][0] == "use" else d[3][2][2])
                                    continue
                                break
                            d = defs.single(l) if l is not None else None
                            if d and d[2] == "call" and callee(d[3]) and callee(d[3])["fn"].endswith(guard[5:]):
                                ok = True
                    if not ok:
                        unguarded += 1
                if sites:
                    ctx.seen(f)
            if sites and not unguarded:
                ctx.ok(rid, key, "%s (%s); %d call site(s) guarded" % (why, defect, sites), nontrivial=True, fn=fam[0])
            elif not sites:
                ctx.bad(rid, key + "|missing", "the call `%s` the %s guard protects is no longer found in %s" % (target, defect, prefix), fn=fam[0])
            else:
                ctx.bad(rid, key + "|missing", "the guard recorded for %s is gone from %s: a call of %s is not dominated by a branch on `%s`: %s"
                        % (defect, prefix, target, guard, why), fn=fam[0])
            continue
        if kind == "bytes":
            cn = prefix.lstrip("<").split("::")[0]
            cr_ = ctx.prog.crates.get(cn)
            hit = False
            # the function, its closures / promoted constants, and the same-crate helpers it calls (two levels)
            fam_b = [g for g in (cr_.fn_list if cr_ is not None else []) if g.path.startswith(prefix)]
            for _ in range(2):
                for g in list(fam_b):
                    for _b, t_ in g.calls():
                        c_ = callee(t_)
                        h = cr_.fns.get(c_.get("res") or c_["fn"]) or cr_.fns.get(c_["fn"]) if c_ else None
                        if h is not None and h not in fam_b:
                            fam_b.append(h)
                            fam_b.extend(x for x in cr_.fn_list if x.path.startswith(h.path + "::") and x not in fam_b)
            for g in fam_b:
                for blk in g.blocks:
                    for st in blk[0]:
                        if st[0] == "=" and st[2][0] == "use" and st[2][1][0] == "k" and str(st[2][1][1].get("s", "")) == text:
                            hit = True
            if hit:
                ctx.ok(rid, key, "%s (%s)" % (why, defect), nontrivial=True, fn=fam[0])
            else:
                ctx.bad(rid, key + "|missing", "the guard recorded for %s is gone from %s (byte-string constant %s): %s" % (defect, prefix, text, why), fn=fam[0])
            continue
        if kind == "calls-own":
            fam = [f for f in fam if f.path.startswith(prefix)]
            kind = "calls"
        for f in fam:
            if (f.path, kind) not in cache:
                if kind == "reject":
                    cache[(f.path, kind)] = {validation.norm(c["subject"], c["op"], c["other"]) for c in validation.checks_deep(ctx.prog, f)}
                elif kind == "compare":
                    cache[(f.path, kind)] = {validation.norm(c["subject"], c["op"], c["other"])
                                             for c in validation.checks(f, errs=set(range(len(f.blocks))))}
                elif kind == "reads":
                    names = set()
                    for blk in f.blocks:
                        if blk[2]:
                            continue
                        for st in blk[0]:
                            if st[0] != "=":
                                continue
                            rv = st[2]
                            pls = [rv[1][1]] if rv[0] == "use" and rv[1][0] in ("c", "m") else ([rv[2]] if rv[0] == "ref" else [])
                            for pl in pls:
                                for e in pl[1:]:
                                    if isinstance(e, list) and e[0] == "." and e[2] is not None:
                                        names.add(str(e[2]))
                        t = blk[1]
                        if t[0] == "switch" and t[1][0] in ("c", "m"):
                            for e in t[1][1][1:]:
                                if isinstance(e, list) and e[0] == "." and e[2] is not None:
                                    names.add(str(e[2]))
                    cache[(f.path, kind)] = names
                else:
                    cache[(f.path, kind)] = {callee(t)["fn"] for _, t in f.calls() if callee(t)} | \
                                            {callee(t).get("res", "") for _, t in f.calls() if callee(t)}
            have = cache[(f.path, kind)]
            alts = [x.strip() for x in text.split(" | ")]
            if kind == "calls":
                if any(x.endswith(a) or (a in x) for x in have for a in alts):
                    found = True
                # `name #n`: at least n call sites in the whole family (the repair's call next to a later one of the same callee)
                for a in alts:
                    if " #" in a:
                        nm_, _, cnt_ = a.rpartition(" #")
                        tot = sum(1 for g in fam for _, t in g.calls() if callee(t) and (callee(t)["fn"].endswith(nm_) or nm_ in callee(t)["fn"]))
                        found = tot >= int(cnt_)
            elif any(a in have for a in alts):
                found = True
            elif kind in ("compare", "reject") and any(flip_text(a) in have for a in alts):
                found = True
            elif kind in ("compare", "reject") and deep_forms(key):
                dk = (f.path, kind + "-deep")
                if dk not in cache:
                    cs_ = validation.checks_deep(ctx.prog, f) if kind == "reject" else validation.checks(f, errs=set(range(len(f.blocks))))
                    cache[dk] = {c.get("deep") for c in cs_ if c.get("deep")}
                if cache[dk] & deep_forms(key):
                    found = True
            elif kind == "compare":
                # the negated form is the same decision
                neg = {"<": ">=", ">=": "<", ">": "<=", "<=": ">", "==": "!=", "!=": "=="}
                for a in alts:
                    parts = a.rsplit(" ", 2)
                    if len(parts) != 3:
                        continue
                    n_ = validation.norm(parts[0], neg[parts[1]], int(parts[2]) if parts[2].lstrip("-").isdigit() else parts[2])
                    if n_ in have or (flip_text(n_) in have):
                        found = True
            if found:
                ctx.seen(f)
                break
        if found:
            ctx.ok(rid, key, "%s (%s)" % (why, defect), nontrivial=True, fn=fam[0])
        else:
            ctx.bad(rid, key + "|missing", "the guard recorded for %s is gone from %s (%s `%s`): %s" % (defect, prefix, kind, text, why), fn=fam[0])
    ctx.count(rid + ".entries", n)

"""R-SEARCH-UNWRAP: the result of a predicate search over decoded data is never unwrapped.
`iter.position(p)`, `find`, `rposition`, `find_map`, `rfind` answer None whenever no element satisfies the predicate; when the
elements come from the stream (a jbrd header's table list, the frame header's pass table) the stream decides whether the search
succeeds, so `Option::unwrap` / `expect` on that result is a reachable panic (C01, C17: "an error, not a panic").  The rule follows the
unwrapped operand back through copies, `?`, and the Option adaptors (`map`, `copied`, `cloned`, `as_ref`, `and_then`, `filter`) to the
call that produced it.  Sites whose search cannot fail for a reason established elsewhere are listed with that reason and the rule that
keeps the reason true; nothing else is tolerated."""
from ..facts import callee, op_local
from ..mirutil import Defs, strip_generics, access_path
from ..intervals import value_class

SEARCHES = ("position", "rposition", "find", "find_map", "rfind")
ADAPTORS = ("map", "copied", "cloned", "as_ref", "as_mut", "and_then", "filter", "or", "inspect", "as_deref", "as_deref_mut")
UNWRAPS = ("unwrap", "expect", "unwrap_unchecked")

# (function path suffix, search) -> (reason, rule that keeps it true)
REVIEWED = {
    ("jxl_modular::image::ModularImageDestination::<S>::prepare_groups", "find"):
        ("the pass table's ranges form a chain 3 = b0, b1, .., bn = 0 of [b_i, b_(i-1)) intervals, so every shift in [0, 3) lies in one of "
         "them, provided no entry of the chain is lost while the table is built", "R-PASS-CHAIN"),
}


def is_search(name):
    nm = strip_generics(name)
    last = nm.split("::")[-1]
    return last in SEARCHES and ("Iterator" in nm or "::iter::" in nm or "::slice::" in nm or "::str::" in nm)


def collection(f, defs, t, depth=0):
    """name of what the search iterates: follow the receiver through iterator constructors / adaptors to a field path"""
    if not t[2] or depth > 6:
        return "?"
    a = op_local(t[2][0])
    if a is None:
        return "?"
    ap = access_path(f, defs, a)
    if ap is None:
        return "?"
    root, fields = ap
    if fields:
        return ".".join(str(x) for x in fields)
    d = defs.single(root)
    if d and d[2] == "call":
        return collection(f, defs, d[3], depth + 1)
    return f.local_name(root) or "?"


def sources(f, defs, l, depth=0, seen=None):
    """search calls whose result reaches local l: [(search name, terminator)]"""
    seen = set() if seen is None else seen
    out = []
    if depth > 6:
        return out
    for x in value_class(f, l):
        if x in seen:
            continue
        seen.add(x)
        for d in defs.of(x):
            if d[2] != "call":
                continue
            c = callee(d[3])
            if not c:
                continue
            for nm in ([c["res"]] if "res" in c else []) + [c["fn"]]:
                if is_search(nm):
                    out.append((strip_generics(nm).split("::")[-1] + ":" + collection(f, defs, d[3]), d[3]))
                    break
            else:
                nm = strip_generics(c["fn"])
                if nm.startswith("core::option::Option") and nm.split("::")[-1] in ADAPTORS and d[3][2]:
                    a = op_local(d[3][2][0])
                    if a is not None:
                        out += sources(f, defs, a, depth + 1, seen)
    return out


def run(ctx, crates, rid="R-SEARCH-UNWRAP", floor=100):
    ctx.rule(rid, "every Option::unwrap/expect whose operand is (through copies, `?` and Option adaptors) the result of an iterator "
                  "predicate search (position, rposition, find, find_map, rfind) is a violation unless the (function, search) pair is "
                  "in the reviewed table with the invariant that makes the search total and the rule that maintains it")
    n_unwrap = 0
    for f in ctx.prog.all_fns(crates):
        defs = None
        for b, t in f.calls():
            c = callee(t)
            if not c or t[-1]:
                continue
            nm = strip_generics(c["fn"])
            if not (nm.startswith("core::option::Option") and nm.split("::")[-1] in UNWRAPS and t[2]):
                continue
            n_unwrap += 1
            a = op_local(t[2][0])
            if a is None:
                continue
            if defs is None:
                defs = Defs(f)
            for search, st in sources(f, defs, a):
                ctx.seen(f)
                ctx.count(rid + ".search-unwrap-sites")
                key = "search-unwrap:%s|%s" % (f.path, search)
                rev = next((v for (suf, s), v in REVIEWED.items() if f.path.endswith(suf) and s == search.split(':')[0]), None)
                if rev:
                    ctx.ok(rid, key, "reviewed: %s (kept true by %s)" % rev, nontrivial=True, fn=f)
                else:
                    ctx.bad(rid, key, "%s unwraps the result of Iterator::%s (method:collection) over decoded data: when no element satisfies the predicate "
                                      "the decoder panics instead of returning an error" % (f.path, search), fn=f, pos=t[-2])
    ctx.count(rid + ".option-unwraps-examined", n_unwrap)
    ctx.floor(rid + ".option-unwraps-examined", floor)


PASS_MAP_TY = "alloc::collections::btree::map::BTreeMap<u32, (i32, i32)>"


def rule_pass_chain(ctx, rid="R-PASS-CHAIN"):
    """The frame's pass table maps a pass index to the [minshift, maxshift) range of channel shifts decoded in that pass.  The ranges
    are produced as a chain (each link starts where the previous one ended, the last ends at 0), which is what makes the lookup in
    prepare_groups total.  `last_pass` comes from the frame header, so two links can carry the same key: a write that replaces the
    earlier link (`BTreeMap::insert` with the previous value discarded) loses part of the chain and the lookup panics."""
    from ..mirutil import local_uses
    ctx.rule(rid, "in jxl_frame, every write into a BTreeMap<u32, (i32, i32)> (the pass -> shift-range table) keeps the entry it finds: "
                  "BTreeMap::insert whose returned previous value is discarded is a violation (entry()/and_modify()/or_insert(), or an "
                  "insert whose result is inspected, are accepted); at least one write must exist")
    writes = 0
    for f in ctx.prog.all_fns(["jxl_frame"]):
        uses = None
        for b, t in f.calls():
            c = callee(t)
            if not c or t[-1] or not t[2]:
                continue
            nm = strip_generics(c["fn"])
            if "btree::map::BTreeMap" not in nm:
                continue
            a = op_local(t[2][0])
            if a is None or PASS_MAP_TY not in f.local_ty(a):
                continue
            m = nm.split("::")[-1]
            if m == "entry":
                writes += 1
                ctx.ok(rid, "pass-table-write:%s|entry" % f.path, "written through the entry API (existing link kept or merged)", nontrivial=True, fn=f)
            elif m == "insert":
                writes += 1
                if uses is None:
                    uses = local_uses(f)
                ret = t[3][0] if t[3] else None
                if ret is not None and uses.get(ret, 0) > 0:
                    ctx.ok(rid, "pass-table-write:%s|insert-checked" % f.path, "insert whose previous value is inspected", nontrivial=True, fn=f)
                else:
                    ctx.bad(rid, "pass-table-write:%s|insert-discards-previous" % f.path,
                            "%s writes a pass-table link with BTreeMap::insert and drops the entry it replaces: two links with the same "
                            "`last_pass` key (which the frame header chooses) lose a shift range, and prepare_groups' lookup of that "
                            "shift panics" % f.path, fn=f, pos=t[-2])
            elif m in ("extend", "from_iter", "append"):
                writes += 1
                ctx.bad(rid, "pass-table-write:%s|%s" % (f.path, m), "%s fills the pass table with %s, which replaces duplicate keys" % (f.path, m), fn=f, pos=t[-2])
    ctx.count(rid + ".pass-table-writes", writes)
    ctx.floor(rid + ".pass-table-writes", 1)

"""R-FIELDRANGE: integers read from the bitstream with a constant width or distribution (header fields) must not reach an
overflow-checked +,-,* whose result can leave the type for some value of the field's range, a shift whose amount can reach the
bit width, or a division whose divisor can be zero -- unless an ordering comparison on that value dominates the operation or the
field is validated (compare -> error) somewhere.  Interval abstract interpretation over MIR; nothing is executed."""
from .. import intervals as IV
from .. import validation
from ..facts import op_local, op_place, op_const, op_const_int, pos_line, callee
from ..mirutil import alias_closure

MINMAX = ("core::cmp::Ord::min", "core::cmp::Ord::max", "core::cmp::min", "core::cmp::max")   # evaluated by the interval domain
CHECKED = {"AddWithOverflow": "+", "SubWithOverflow": "-", "MulWithOverflow": "*"}
ORDER = {"Lt", "Le", "Gt", "Ge"}
ORDER_CALLS = ("core::cmp::PartialOrd::lt", "core::cmp::PartialOrd::le", "core::cmp::PartialOrd::gt", "core::cmp::PartialOrd::ge",
               "core::cmp::Ord::cmp", "core::cmp::PartialOrd::partial_cmp", "core::cmp::Ord::min", "core::cmp::Ord::max",
               "core::cmp::Ord::clamp", "core::cmp::min", "core::cmp::max")


def field_of_place(p):
    fl = [e for e in p[1:] if isinstance(e, list) and e[0] == "."]
    if fl and fl[-1][2] is not None and fl[-1][3]:
        return (fl[-1][3], fl[-1][2])
    return None


def field_loads(fn):
    """local -> (adt, field) for locals defined as a (cast of a) load of a field"""
    out = {}
    for blk in fn.blocks:
        if blk[2]:
            continue
        for st in blk[0]:
            if st[0] != "=" or len(st[1]) != 1:
                continue
            rv = st[2]
            o = rv[1] if rv[0] == "use" else (rv[2] if rv[0] == "cast" else None)
            if o is None:
                continue
            p = op_place(o)
            if p is None:
                continue
            k = field_of_place(p)
            if k:
                out[st[1][0]] = k
            elif len(p) == 1 and p[0] in out:
                out[st[1][0]] = out[p[0]]
    return out


def ok_exits(fn):
    """return blocks that are not error returns (every `ret` block that is not in validation.err_return_blocks)"""
    errs = validation.err_return_blocks(fn)
    return [b for b, blk in enumerate(fn.blocks) if not blk[2] and blk[1][0] == "ret" and b not in errs] or \
           [b for b, blk in enumerate(fn.blocks) if not blk[2] and blk[1][0] == "ret"]


def governing_predicate(fn, bb):
    """(callee path, truth) of the nearest dominating branch on the boolean result of a call that decides whether bb runs:
    `if header.flags.use_lf_frame() && field >= 4 { Err }` -> ("..::use_lf_frame", True) for the block comparing the field"""
    best = None
    for sb, blk in enumerate(fn.blocks):
        if blk[2] or blk[1][0] != "switch" or sb == bb or not fn.dominates(sb, bb):
            continue
        t = blk[1]
        l = op_local(t[1])
        if l is None or fn.local_ty(l) != "bool":
            continue
        # the switch operand is (a copy of) a call result
        src = None
        seen = set()
        cur = l
        while cur is not None and cur not in seen:
            seen.add(cur)
            ds = [x for b2, blk2 in enumerate(fn.blocks) if not blk2[2] for x in
                  ([st for st in blk2[0] if st[0] == "=" and st[1] == [cur]] + ([blk2[1]] if blk2[1][0] == "call" and blk2[1][3] == [cur] else []))]
            if len(ds) != 1:
                break
            d = ds[0]
            if d[0] == "call":
                c = callee(d)
                src = c["fn"] if c else None
                break
            if d[2][0] == "use":
                cur = op_local(d[2][1])
                continue
            break
        if not src or src.startswith(("core::", "std::", "alloc::")):
            continue
        # which edge leads to bb?
        truth = None
        for v, succ in [(x[0], x[1]) for x in t[2]] + [("otherwise", t[3])]:
            if succ == bb or fn.dominates(succ, bb):
                truth = (v != "0")
        if truth is None:
            continue
        if best is None or fn.dominates(best[2], sb):
            best = (src, truth, sb)
    return (best[0], best[1]) if best else None


def under_predicate(fn, bb, pred, truth):
    """is block bb only reached through the `truth` edge of a branch on the result of a call to pred?"""
    for sb, blk in enumerate(fn.blocks):
        if blk[2] or blk[1][0] != "switch" or not fn.dominates(sb, bb) or sb == bb:
            continue
        g = governing_predicate(fn, bb) if False else None
        t = blk[1]
        l = op_local(t[1])
        if l is None:
            continue
        # find the defining call of l (through copies)
        cur, seen, src = l, set(), None
        while cur is not None and cur not in seen:
            seen.add(cur)
            ds = [x for blk2 in fn.blocks if not blk2[2] for x in
                  ([st for st in blk2[0] if st[0] == "=" and st[1] == [cur]] + ([blk2[1]] if blk2[1][0] == "call" and blk2[1][3] == [cur] else []))]
            if len(ds) != 1:
                break
            d = ds[0]
            if d[0] == "call":
                c = callee(d)
                src = c["fn"] if c else None
                break
            if d[2][0] == "use":
                cur = op_local(d[2][1])
                continue
            break
        if src != pred:
            continue
        for v, succ in [(x[0], x[1]) for x in t[2]] + [("otherwise", t[3])]:
            if (v != "0") == truth and (succ == bb or fn.dominates(succ, bb)):
                return True
    return False


def compared_fields(fn):
    """(blanket, refinements): fields a load of which takes part in an ordering comparison anywhere in fn.
    A comparison that is a validation check (reject edge -> error return) against a constant is returned as a refinement
    (field, reject-op, constant) and narrows the field's range; every other ordering comparison (against another value, or merely
    branching) makes the field `blanket` validated: optimistic silence."""
    loads = field_loads(fn)
    blanket = set()
    refs = []
    cond_refs = fn._cache.setdefault("cond_refs", [])
    del cond_refs[:]
    try:
        vchecks = {(c["bb"], c["pos"]): c for c in validation.checks(fn)}
    except Exception:
        vchecks = {}

    def fld(o):
        p = op_place(o)
        if p is None:
            return None
        k = field_of_place(p)
        if k:
            return k
        if len(p) == 1 and p[0] in loads:
            return loads[p[0]]
        return None

    oks = None
    for b, blk in enumerate(fn.blocks):
        if blk[2]:
            continue
        for st in blk[0]:
            if st[0] == "=" and st[2][0] == "bin" and st[2][1] in ORDER:
                if blk[1][0] == "assert" and blk[1][3] == "bounds" and op_local(blk[1][1]) == st[1][0]:
                    continue    # the compiler's bounds check is a sink, not a validation
                ka, kb = fld(st[2][2]), fld(st[2][3])
                vc = vchecks.get((b, st[3]))
                for k, other in ((ka, st[2][3]), (kb, st[2][2])):
                    if k is None:
                        continue
                    if vc is not None and isinstance(vc["other"], int) and op_const_int(other) is not None:
                        # the bound holds for every accepted header only if the check runs on every accepted path: the checking
                        # block dominates every successful return (`if a && field >= 4 { Err }` bounds nothing when !a)
                        if oks is None:
                            oks = ok_exits(fn)
                        if all(fn.dominates(b, r) for r in oks):
                            refs.append((k, vc["op"], vc["other"]))
                        else:
                            g = governing_predicate(fn, b)
                            if g is not None:
                                cond_refs.append((k, vc["op"], vc["other"], g[0], g[1]))
                    elif op_const_int(other) is None:
                        blanket.add(k)
                    # a branch on `field <op> constant` that is not a validation bounds nothing outside its own arm: uses under the
                    # arm are recognised by locally_guarded
        t = blk[1]
        if t[0] == "call":
            c = callee(t)
            if c and ((c["fn"] in ORDER_CALLS and c["fn"] not in MINMAX) or c.get("res", "").endswith(("::cmp", "::partial_cmp", "::lt", "::le", "::gt", "::ge"))):
                for a in t[2]:
                    k = fld(a)
                    if k:
                        blanket.add(k)
                    l = op_local(a)
                    if l is not None:
                        # by-reference comparison
                        for blk2 in fn.blocks:
                            for st in blk2[0]:
                                if st[0] == "=" and st[1] == [l] and st[2][0] == "ref":
                                    k = field_of_place(st[2][2])
                                    if k:
                                        blanket.add(k)
    return blanket, refs


def locally_guarded(fn, l, bb, skip=None, eq_ok=False):
    """an ordering comparison on a member of l's value class dominates bb (the sink statement itself excluded); with eq_ok an
    (in)equality test against a constant counts as well (`if x != 0 { x - 1 }`)"""
    al = set(IV.value_class(fn, l))
    # two loads of one field through a shared reference are one value (`if h.lf_level != 0 { h.lf_level - 1 }`)
    loads_of = fn._cache.get("place_loads")
    if loads_of is None:
        loads_of = {}
        for blk in fn.blocks:
            if blk[2]:
                continue
            for st in blk[0]:
                if st[0] == "=" and len(st[1]) == 1 and st[2][0] == "use" and st[2][1][0] == "c":
                    p = st[2][1][1]
                    if len(p) > 1 and fn.local_ty(p[0]).startswith("&") and not fn.local_ty(p[0]).startswith("&mut"):
                        loads_of.setdefault(repr(p), set()).add(st[1][0])
        fn._cache["place_loads"] = loads_of
    for grp in loads_of.values():
        if grp & al:
            for x in grp:
                al |= set(IV.value_class(fn, x))
    if eq_ok:
        for b, blk in enumerate(fn.blocks):
            if blk[2] or not fn.dominates(b, bb) or b == bb:
                continue
            for st in blk[0]:
                if st is not skip and st[0] == "=" and st[2][0] == "bin" and st[2][1] in ("Eq", "Ne") and blk[1][0] == "switch":
                    for o, other in ((st[2][2], st[2][3]), (st[2][3], st[2][2])):
                        x = op_local(o)
                        if x is not None and x in al and op_const_int(other) is not None:
                            return True
    for b, blk in enumerate(fn.blocks):
        if blk[2] or not fn.dominates(b, bb):
            continue
        for st in blk[0]:
            if st is skip:
                continue
            if st[0] == "=" and st[2][0] == "bin" and st[2][1] in ORDER:
                if blk[1][0] == "assert" and blk[1][3] == "bounds" and op_local(blk[1][1]) == st[1][0]:
                    continue    # a bounds check is a sink, not a guard
                for o in (st[2][2], st[2][3]):
                    x = op_local(o)
                    if x is not None and x in al:
                        return True
        t = blk[1]
        if t[0] == "call" and b != bb:
            c = callee(t)
            if c and (c["fn"] in ORDER_CALLS):
                for a in t[2]:
                    x = op_local(a)
                    if x is not None and x in al:
                        return True
    return False


def operand_ty(fn, o):
    p = op_place(o)
    if p is not None and len(p) == 1:
        return fn.local_ty(p[0])
    c = op_const(o)
    if c is not None:
        return c.get("ty")
    return None


def analyse(prog, crates):
    adts = {}
    for cn in crates:
        if cn in prog.crates:
            adts.update(prog.crate(cn).adts)
    fields = IV.build_field_table(prog, crates, adts, validation)
    fns = [f for f in prog.all_fns(crates) if f.kind != "Promoted"]
    validated = set()
    refinements = []
    cond_refinements = []
    for f in fns:
        bl, rf = compared_fields(f)
        validated |= bl
        refinements.extend(rf)
        cond_refinements.extend(f._cache.get("cond_refs", []))
    # constant-bound validation checks narrow the field's range everywhere (optimistic about ordering: the check is assumed to
    # run before every use), instead of silencing it altogether
    for k, op, kv in refinements:
        v = fields.get(k)
        if v is None or k in validated:
            continue
        lo, hi = v.lo, v.hi
        if op == ">":
            hi = min(hi, kv)
        elif op == ">=":
            hi = min(hi, kv - 1)
        elif op == "<":
            lo = max(lo, kv)
        elif op == "<=":
            lo = max(lo, kv + 1)
        if lo <= hi:
            fields[k] = IV.Iv(lo, hi, v.src, v.exact)
    findings = []
    n_ops = 0
    callers = None
    for f in fns:
        fi = None
        loads = None
        for b, blk in enumerate(f.blocks):
            if blk[2]:
                continue
            for st in blk[0]:
                if st[0] != "=" or st[2][0] != "bin":
                    continue
                op = st[2][1]
                kind = None
                if op in CHECKED:
                    kind = "arith"
                elif op == "Lt" and blk[1][0] == "assert" and blk[1][3] == "bounds" and op_local(blk[1][1]) == st[1][0] \
                        and op_const_int(st[2][3]) is not None:
                    kind = "index"      # bounds check of a fixed-size array
                elif op in ("Shl", "Shr"):
                    kind = "shift"
                elif op in ("Div", "Rem"):
                    kind = "div"
                if kind is None:
                    continue
                if fi is None:
                    fi = IV.FnIntervals(f, fields, prog)
                    loads = field_loads(f)
                a, c = fi.op(st[2][2]), fi.op(st[2][3])
                if a is None or c is None:
                    continue
                if not (a.src or c.src):
                    continue
                n_ops += 1
                sure_zero = kind == "div" and c.src and not c.exact and c.sure is not None and c.sure[0] <= 0 <= c.sure[1]
                if not (a.exact and c.exact) and not sure_zero:
                    continue   # something unknown was absorbed: no basis for a report
                ty = operand_ty(f, st[2][2]) or operand_ty(f, st[2][3])
                r = IV.ty_range(ty) if ty else None
                if r is None:
                    continue
                bad = None
                if kind == "arith":
                    res = IV.arith(op, a, c, ty)
                    if res is not None and not res.within(r):
                        bad = "%s %s %s = [%d, %d] leaves %s" % (a, CHECKED[op], c, res.lo, res.hi, ty)
                elif kind == "index":
                    if a.src and a.hi >= c.lo:
                        bad = "index %s can reach the array length %d" % (a, c.lo)
                elif kind == "shift":
                    bits = {"u8": 8, "i8": 8, "u16": 16, "i16": 16, "u32": 32, "i32": 32, "u64": 64, "i64": 64, "usize": 64, "isize": 64,
                            "u128": 128, "i128": 128}.get(operand_ty(f, st[2][2]))
                    if bits and c.src and (c.hi >= bits or c.lo < 0):
                        bad = "shift amount %s can reach the width of %s" % (c, operand_ty(f, st[2][2]))
                elif kind == "div":
                    if sure_zero:
                        bad = "divisor %s can be zero (the stream sets it to any value in [%d, %d])" % (c, c.sure[0], c.sure[1])
                    elif c.src and c.lo <= 0 <= c.hi:
                        bad = "divisor %s can be zero" % (c,)
                if bad is None:
                    continue
                # guards
                inputs = []
                for o, v in ((st[2][2], a), (st[2][3], c)):
                    if not v.src:
                        continue
                    if kind in ("shift", "div") and o is st[2][2]:
                        continue
                    if kind == "index" and o is st[2][3]:
                        continue
                    inputs.append((o, v))
                skip = False
                names = []
                for tag in (a.src | c.src):
                    if tag.startswith("field:"):
                        adt_, _, fld_ = tag[6:].rpartition(".")
                        if (adt_, fld_) in validated:
                            skip = True
                for o, v in inputs:
                    l = op_local(o)
                    p = op_place(o)
                    k = field_of_place(p) if p is not None else None
                    if k is None and l is not None:
                        k = loads.get(l)
                    if k is not None and k in validated:
                        skip = True
                    if l is not None and locally_guarded(f, l, b, skip=st, eq_ok=(kind == "arith")):
                        skip = True
                    if kind == "div" and l is not None and nonzero_tested(f, l, b):
                        skip = True
                    nm = None
                    if k is not None:
                        nm = "%s.%s" % (k[0].split("::")[-1], k[1])
                    elif l is not None:
                        for x in sorted(alias_closure(f, {l})):
                            if f.local_name(x):
                                nm = f.local_name(x)
                                break
                    names.append(nm or "?")
                if not skip and cond_refinements:
                    # a bound that the parser enforces only when a predicate holds (`use_lf_frame() && lf_level >= 4 -> Err`)
                    # covers the uses that sit under the same predicate
                    for tag in (a.src | c.src):
                        if not tag.startswith("field:"):
                            continue
                        adt_, _, fld_ = tag[6:].rpartition(".")
                        for k_, op_, kv_, pred_, truth_ in cond_refinements:
                            if k_ != (adt_, fld_):
                                continue
                            if not under_predicate(f, b, pred_, truth_):
                                # a helper all of whose call sites sit under the predicate (`if use_lf_frame() { self.check(h)? }`)
                                if callers is None:
                                    callers = {}
                                    for g in fns:
                                        for gb, gt in g.calls():
                                            cc = callee(gt)
                                            if cc:
                                                callers.setdefault(cc.get("res") or cc["fn"], []).append((g, gb))
                                                callers.setdefault(cc["fn"], []).append((g, gb))
                                sites = callers.get(f.path, [])
                                if not sites or not all(under_predicate(g, gb, pred_, truth_) for g, gb in sites):
                                    continue
                            v_ = a if tag in a.src else c
                            lo_, hi_ = v_.lo, v_.hi
                            if op_ == ">":
                                hi_ = min(hi_, kv_)
                            elif op_ == ">=":
                                hi_ = min(hi_, kv_ - 1)
                            elif op_ == "<":
                                lo_ = max(lo_, kv_)
                            elif op_ == "<=":
                                lo_ = max(lo_, kv_ + 1)
                            if kind == "index" and v_ is a and hi_ < c.lo:
                                skip = True
                            elif kind == "shift" and v_ is c and bits and 0 <= lo_ and hi_ < bits:
                                skip = True
                if skip:
                    continue
                if all(n == "?" for n in names):
                    fl = sorted(t[6:].split("::")[-1] for t in (a.src | c.src) if t.startswith("field:"))
                    if fl:
                        names = fl
                findings.append(dict(fn=f, kind=kind, op=op, pos=st[3], bb=b, why=bad, name=",".join(names),
                                     src=sorted(x for x in (a.src | c.src) if not x.startswith("field:"))))
    # a `match` on a ranged value whose fall-through arm is an explicit panic (unreachable!() / panic!()) must list every value
    # the stream can set
    for f in fns:
        fi = None
        for b, blk in enumerate(f.blocks):
            if blk[2] or blk[1][0] != "switch":
                continue
            t = blk[1]
            ob = t[3]
            for _ in range(4):
                tt = f.term(ob)
                if tt[0] == "goto" and not f.stmts(ob):
                    ob = tt[1]
                else:
                    break
            tt = f.term(ob)
            cc = callee(tt) if tt[0] == "call" else None
            if not (cc and cc["fn"].startswith("core::panicking::") and tt[4] is None):
                continue
            if len(t[2]) < 2 or operand_ty(f, t[1]) == "bool":
                continue        # `assert!(flag)` shapes are conditions on other state, not a match over a decoded value
            if fi is None:
                fi = IV.FnIntervals(f, fields, prog)
                loads = field_loads(f)
            v = fi.op(t[1])
            if v is None or not v.src:
                continue
            rng = (v.lo, v.hi) if v.exact else v.sure
            if rng is None:
                continue
            n_ops += 1
            listed = {int(x) for x, _ in t[2]}
            missing = None
            if rng[1] - rng[0] + 1 > sum(1 for x in listed if rng[0] <= x <= rng[1]):
                missing = next(x for x in range(rng[0], min(rng[1], rng[0] + 4096) + 1) if x not in listed) \
                    if any(x not in listed for x in range(rng[0], min(rng[1], rng[0] + 4096) + 1)) else rng[1]
            if missing is None:
                continue
            skip = False
            for tag in v.src:
                if tag.startswith("field:"):
                    adt_, _, fld_ = tag[6:].rpartition(".")
                    if (adt_, fld_) in validated:
                        skip = True
            l = op_local(t[1])
            if l is not None and locally_guarded(f, l, b, skip=None):
                skip = True
            if skip:
                continue
            p = op_place(t[1])
            k = field_of_place(p) if p is not None else None
            if k is None and l is not None:
                k = loads.get(l)
            nm = ("%s.%s" % (k[0].split("::")[-1], k[1])) if k else (f.local_name(l) if l is not None and f.local_name(l) else
                                                                 ",".join(sorted(x[6:].split("::")[-1] for x in v.src if x.startswith("field:"))) or "?")
            findings.append(dict(fn=f, kind="match", op="switch", pos=t[-2], bb=b, name=nm,
                                 why="the match lists %s but the value ranges over [%d, %d]; %d falls through to an explicit panic (%s)"
                                     % (sorted(listed), rng[0], rng[1], missing, cc["fn"].split("::")[-1]),
                                 src=sorted(x for x in v.src if not x.startswith("field:"))))
    return findings, n_ops, fields


def nonzero_tested(fn, l, bb):
    al = alias_closure(fn, {l})
    for b, blk in enumerate(fn.blocks):
        if blk[2] or not fn.dominates(b, bb):
            continue
        t = blk[1]
        for st in blk[0]:
            if st[0] == "=" and st[2][0] == "bin" and st[2][1] in ("Eq", "Ne"):
                if t[0] == "assert" and op_local(t[1]) == st[1][0]:
                    continue    # the compiler's own `attempt to divide by zero` check is the panic, not a guard
                for o, other in ((st[2][2], st[2][3]), (st[2][3], st[2][2])):
                    x = op_local(o)
                    if x is not None and x in al and op_const_int(other) == 0:
                        return True
    return False


def run(ctx, crates, only_crates=None):
    rid = "R-FIELDRANGE"
    ctx.rule(rid, "interval analysis of header fields: every integer read with a constant width/distribution (and every struct field "
                  "built only from such reads) has the range the stream can set; an overflow-checked +,-,* on it whose result can leave "
                  "the type, a shift by it that can reach the bit width, or a division by it that can be zero, with no ordering "
                  "comparison on the value before and no validation of the field anywhere, is a panic a hostile stream can trigger")
    findings, n_ops, fields = analyse(ctx.prog, crates)
    if only_crates is not None:
        findings = [x for x in findings if x["fn"].crate in only_crates]
    known = sum(1 for v in fields.values() if v is not None and v.src)
    ctx.counts[rid + ".fields-with-range"] = known
    ctx.counts[rid + ".operations-on-ranged-values"] = n_ops
    seen_keys = set()
    for x in findings:
        f = x["fn"]
        key = "%s|%s:%s" % (f.path, x["kind"], x["name"])
        if key in seen_keys:
            continue
        seen_keys.add(key)
        ctx.seen(f)
        ctx.bad(rid, key, "header-derived value `%s` (range from %s): %s at line %d, and nothing bounds it before (no ordering "
                          "comparison on it, field never validated): a hostile stream makes this panic in a checked build"
                % (x["name"], ", ".join(x["src"])[:120], x["why"], pos_line(x["pos"])), fn=f, pos=x["pos"])
    if not findings:
        ctx.ok(rid, "all", "%d checked operations on header-derived ranges, none can leave its type unguarded; %d fields carry a "
                           "width-implied range" % (n_ops, known), nontrivial=True)
    ctx.floor(rid + ".fields-with-range", 60)
    ctx.floor(rid + ".operations-on-ranged-values", 40)

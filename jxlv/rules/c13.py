"""C13 — resource accounting (claimed in part): R-TRACKER, R-HANDLE, R-NOLEAK, R-OOM."""
from ..engine import Ctx, LIB_CRATES
from ..facts import callee, op_local, op_place, op_const, pos_line, place_fields
from ..mirutil import Defs, access_path, alias_closure, switch_subject, find_path_edges

INNER = "jxl_grid::alloc_tracker::AllocTrackerInner"
HANDLE = "jxl_grid::alloc_tracker::AllocHandle"
TRACKER = "jxl_grid::alloc_tracker::AllocTracker"
ALLOC = TRACKER + "::alloc"
ATOMIC = "core::sync::atomic::Atomic::<usize>::"



def touches_field(place, field, adt):
    return any(n == field and a == adt for n, a in place_fields(place))


def places_of_stmt(st):
    if st[0] == "=":
        yield st[1]
        rv = st[2]
        k = rv[0]
        ops = []
        if k in ("ref", "rawptr"):
            yield rv[2]
        elif k == "discr":
            yield rv[1]
        elif k in ("use", "repeat"):
            ops = [rv[1]]
        elif k == "cast":
            ops = [rv[2]]
        elif k == "bin":
            ops = [rv[2], rv[3]]
        elif k == "un":
            ops = [rv[2]]
        elif k == "agg":
            ops = rv[2]
        for o in ops:
            p = op_place(o)
            if p is not None:
                yield p


def places_of_term(t):
    if t[0] == "call":
        for a in t[2]:
            p = op_place(a)
            if p is not None:
                yield p
        yield t[3]
    elif t[0] == "drop":
        yield t[1]
    elif t[0] in ("switch", "assert"):
        p = op_place(t[1])
        if p is not None:
            yield p


def bytes_left_op(f, defs, t):
    """name of the atomic method if terminator t is an atomic operation applied to AllocTrackerInner.bytes_left"""
    c = callee(t)
    if not c or not c["fn"].startswith(ATOMIC) or not t[2]:
        return None
    l = op_local(t[2][0])
    ap = access_path(f, defs, l) if l is not None else None
    if ap and ap[1] and ap[1][-1] == "bytes_left":
        return c["fn"][len(ATOMIC):].split("::")[0]
    return None


def closure_is_checked_sub(grid, f, defs, t):
    """fetch_update(.., closure): closure body is exactly `current.checked_sub(captured)`; returns (ok, closure fn, access path
    of the captured amount in f)"""
    cl = op_local(t[2][3]) if len(t[2]) > 3 else None
    cpath = None
    captured = None
    d = defs.single(cl) if cl is not None else None
    if d and d[2] == "assign" and d[3][2][0] == "agg" and d[3][2][1][0] == "closure":
        cpath = d[3][2][1][1]
        ops_ = d[3][2][2]
        if len(ops_) == 1:
            cap = op_local(ops_[0])
            captured = access_path(f, defs, cap) if cap is not None else None
    cf = grid.fn(cpath) if cpath else None
    if cf is None:
        return False, None, None
    calls = [(bb, tt) for bb, tt in cf.calls()]
    ok = False
    if len(calls) == 1:
        cc = callee(calls[0][1])
        tt = calls[0][1]
        if cc and cc["fn"] == "core::num::<impl usize>::checked_sub" and tt[3] == [0]:
            cdefs = Defs(cf)
            a0p = op_place(tt[2][0])
            a0 = access_path(cf, cdefs, a0p[0]) if a0p is not None else None
            a1p = op_place(tt[2][1])
            a1 = access_path(cf, cdefs, a1p[0]) if a1p is not None else None
            if a0 == (2, ()) and a1 is not None and a1[0] == 1:
                ok = True
    arith = [st for blk in cf.blocks for st in blk[0] if st[0] == "=" and st[2][0] == "bin"]
    if ok and not arith:
        return True, cf, captured
    # another spelling (`if current < amount { None } else { Some(current - amount) }`): decide by evaluating the closure
    return closure_evaluates_to_checked_sub(grid, cf), cf, captured


_PROG = [None]


def closure_evaluates_to_checked_sub(grid, cf):
    """the closure, evaluated from MIR for pairs (current, amount) around the boundary, returns Some(current - amount) when it fits
    and None otherwise"""
    from .. import absint
    if len(cf.captures) != 1:
        return False
    by_ref = str(cf.captures[0][2]) != "value" and "Value" not in str(cf.captures[0][2])
    for cur, amt in ((10, 3), (3, 3), (2, 3), (0, 0), (0, 1), (1 << 40, (1 << 40) + 1), ((1 << 64) - 1, 1), (5, (1 << 64) - 1)):
        if _PROG[0] is None:
            return False
        ev = absint.Evaluator(_PROG[0])
        try:
            holder = absint.Frame(cf)
            ev.frames[holder.id] = holder
            holder.env[10 ** 6] = amt
            cap = absint.Ref(("local", holder.id, 10 ** 6)) if by_ref else amt
            cl = absint.Struct([cap])
            cl.closure = cf.path
            r = ev._call_closure(cl, [cur])
        except (absint.Unsupported, KeyError, IndexError, TypeError):
            return False
        want = cur - amt if cur >= amt else None
        got = (r.fields[0] if r.name == "Some" else None) if isinstance(r, absint.Enum) and r.name in ("Some", "None") else "?"
        if got != want:
            return False
    return True


def rule_tracker(ctx):
    rid = "R-TRACKER"
    ctx.rule(rid, "every operation on AllocTrackerInner.bytes_left is AtomicUsize::new, load, fetch_add, or a fetch_update whose closure is "
                  "exactly `current.checked_sub(amount)` (single atomic RMW: the budget never wraps, so tracked total <= limit for every "
                  "interleaving); an AllocHandle is built only on the Ok edge of such a decrement and records exactly the amount "
                  "subtracted; its `bytes` field is written nowhere but in drop, and drop adds exactly that amount back.  Matched by "
                  "operation, not by function name: extracting the decrement into a helper is silent")
    prog = ctx.prog
    _PROG[0] = prog
    grid = prog.crate("jxl_grid")
    if INNER not in grid.adts or HANDLE not in grid.adts:
        ctx.anchor_missing(rid, INNER)
        return
    ALLOWED = {"fetch_update", "fetch_add", "load", "new"}
    # 1: census of operations on bytes_left; decrement sites
    decrements = {}     # fn path -> list of (terminator, captured access path)
    helpers = {}        # fn path -> index of the parameter that is the amount (function returns the fetch_update result)
    n_add = 0
    for f in prog.all_fns(LIB_CRATES):
        hit = False
        for b, blk in enumerate(f.blocks):
            for st in blk[0]:
                for p in places_of_stmt(st):
                    if touches_field(p, "bytes_left", INNER):
                        hit = True
            for p in places_of_term(blk[1]):
                if touches_field(p, "bytes_left", INNER):
                    hit = True
        if not hit:
            continue
        ctx.seen(f)
        defs = Defs(f)
        for b, t in f.calls():
            m = bytes_left_op(f, defs, t)
            if m is None:
                continue
            ctx.count(rid + ".operations")
            if m not in ALLOWED:
                ctx.bad(rid, "atomic-op:%s:%s" % (f.path, m),
                        "bytes_left is modified with AtomicUsize::%s in %s: only a fetch_update(checked_sub) decrement and a "
                        "fetch_add give-back keep the budget from wrapping under concurrency" % (m, f.path.split("::")[-1]),
                        fn=f, pos=t[-2])
                continue
            if m == "fetch_add":
                n_add += 1
            if m == "fetch_update":
                ok, cf, captured = closure_is_checked_sub(grid, f, defs, t)
                if cf is not None:
                    ctx.seen(cf)
                if ok:
                    ctx.ok(rid, "decrement-closure:" + f.path, "closure body is exactly `current.checked_sub(amount)`", nontrivial=True, fn=cf)
                    decrements.setdefault(f.path, []).append((t, captured))
                    ctx.count(rid + ".decrements")
                    # helper: the amount is a parameter and the result is returned as is
                    if captured is not None and captured[1] == () and 1 <= captured[0] <= f.argc and t[3] == [0]:
                        helpers[f.path] = captured[0] - 1
                else:
                    ctx.bad(rid, "decrement-closure:" + f.path, "the closure given to fetch_update on bytes_left is not exactly "
                            "`current.checked_sub(amount)`: the budget can wrap below zero", fn=cf or f, pos=t[-2])
            else:
                ctx.ok(rid, "atomic-op:%s:%s" % (f.path, m), "reviewed operation", fn=f)
    ctx.counts[rid + ".give-backs"] = n_add
    ctx.floor(rid + ".decrements", 1)
    ctx.floor(rid + ".give-backs", 1)
    # 2: every AllocHandle construction sits on the Ok edge of a decrement and records its amount
    for f in prog.all_fns(LIB_CRATES):
        cons = [(b, st) for b, blk in enumerate(f.blocks) if not f.is_cleanup(b) for st in blk[0]
                if st[0] == "=" and st[2][0] == "agg" and st[2][1][0] == "adt" and st[2][1][1] == HANDLE]
        if not cons:
            continue
        ctx.seen(f)
        defs = Defs(f)
        ctx.count(rid + ".handle-constructions", len(cons))
        # decrement results available in f: direct fetch_update, or a call to a helper
        avail = list(decrements.get(f.path, []))
        for b, t in f.calls():
            c = callee(t)
            if c and c.get("res", c["fn"]) in helpers or (c and c["fn"] in helpers):
                hp = c["fn"] if c["fn"] in helpers else c.get("res")
                k = helpers[hp]
                if k < len(t[2]):
                    al = op_local(t[2][k])
                    avail.append((t, access_path(f, defs, al) if al is not None else None))
        if not avail:
            ctx.bad(rid, "handle-forged:" + f.path, "AllocHandle is constructed in a function that does not decrement the budget (bytes "
                    "returned on drop were never subtracted)", fn=f, pos=cons[0][1][3])
            continue
        for t, captured in avail[:1]:
            check_alloc_handle(ctx, f, defs, t, captured)
        # the amount is count * size_of::<T>()
        from ..validation import subject_name
        amt = None
        for b, st in cons:
            amt = subject_name(f, defs, st[2][2][0], use_names=False)
        if amt is not None and "size_of" in str(amt) and "*" in str(amt):
            ctx.ok(rid, "amount-is-count-times-size", "bytes = %s" % amt, nontrivial=True, fn=f)
        else:
            ctx.bad(rid, "amount-is-count-times-size", "the amount charged by alloc::<T>(count) is not count * size_of::<T>() (found %s): "
                    "allocations are under- or over-accounted" % amt, fn=f)
    # 3: drop gives back self.bytes
    f = grid.fn("<jxl_grid::alloc_tracker::AllocHandle as core::ops::drop::Drop>::drop")
    if f is None:
        ctx.anchor_missing(rid, "<AllocHandle as Drop>::drop")
    else:
        defs = Defs(f)
        gave = False
        for b, t in f.calls():
            if bytes_left_op(f, defs, t) == "fetch_add":
                amt = op_local(t[2][1])
                ap = access_path(f, defs, amt) if amt is not None else None
                if ap and ap[0] == 1 and ap[1] == ("bytes",):
                    gave = True
                    ctx.ok(rid, "drop-gives-back-bytes", "fetch_add(self.bytes)", nontrivial=True, fn=f)
                else:
                    ctx.bad(rid, "drop-gives-back-bytes", "AllocHandle::drop does not add back exactly self.bytes", fn=f, pos=t[-2])
                    gave = True
        if not gave:
            # one level of helper: drop calls g(.., self.bytes) and g does fetch_add(param)
            for b, t in f.calls():
                c = callee(t)
                g = grid.fn(c["fn"]) if c else None
                if g is None:
                    continue
                gd = Defs(g)
                for gb, gt in g.calls():
                    if bytes_left_op(g, gd, gt) == "fetch_add":
                        ga = op_local(gt[2][1])
                        gap = access_path(g, gd, ga) if ga is not None else None
                        if gap and gap[1] == () and 1 <= gap[0] <= g.argc and gap[0] - 1 < len(t[2]):
                            al = op_local(t[2][gap[0] - 1])
                            ap = access_path(f, defs, al) if al is not None else None
                            if ap and ap[0] == 1 and ap[1] == ("bytes",):
                                gave = True
                                ctx.ok(rid, "drop-gives-back-bytes", "helper %s does fetch_add(self.bytes)" % g.path, nontrivial=True, fn=f)
            if not gave:
                ctx.bad(rid, "drop-gives-back-bytes", "AllocHandle::drop does not add self.bytes back to the budget", fn=f)
    # 4: AllocTrackerInner constructed only with AtomicUsize::new(limit); writes to AllocHandle.bytes only in drop
    for f in prog.all_fns(LIB_CRATES):
        for b, blk in enumerate(f.blocks):
            if f.is_cleanup(b):
                continue
            for st in blk[0]:
                if st[0] != "=":
                    continue
                if touches_field(st[1], "bytes", HANDLE) and isinstance(st[1][-1], list) and st[1][-1][0] == "." and st[1][-1][2] == "bytes":
                    if not f.path.endswith("as core::ops::drop::Drop>::drop"):
                        ctx.bad(rid, "handle-bytes-written:" + f.path, "AllocHandle.bytes is modified outside drop: the amount given back "
                                "can differ from the amount taken", fn=f, pos=st[3])
                if st[2][0] in ("ref", "rawptr") and st[2][1] not in ("shared", "fake") and touches_field(st[2][2], "bytes", HANDLE) \
                        and isinstance(st[2][2][-1], list) and st[2][2][-1][2] == "bytes" and not f.path.endswith("as core::ops::drop::Drop>::drop"):
                    ctx.bad(rid, "handle-bytes-written:" + f.path, "AllocHandle.bytes is borrowed mutably outside drop", fn=f, pos=st[3])
    ctx.floor(rid + ".handle-constructions", 1)
    ctx.not_decided("`count * size_of::<T>()` in alloc wraps in release builds; callers bound `count` (C01/R-LIMIT), not re-proved here")


def check_alloc_handle(ctx, f, defs, fu_term, captured):
    """in alloc: the handle is built on the Ok edge of the fetch_update result with the amount that was subtracted"""
    rid = "R-TRACKER"
    res = fu_term[3][0]
    al = alias_closure(f, {res}, through_try=False)
    ok_edges = set()
    for b in range(len(f.blocks)):
        sub = switch_subject(f, defs, b)
        if sub and sub[0] == "discr" and len(sub[1]) == 1 and sub[1][0] in al:
            t = f.term(b)
            for v, x in t[2]:
                if v == "0":
                    ok_edges.add((b, x, v))
    found = False
    for b, blk in enumerate(f.blocks):
        for st in blk[0]:
            if st[0] == "=" and st[2][0] == "agg" and st[2][1][0] == "adt" and st[2][1][1] == HANDLE:
                found = True
                amt = op_local(st[2][2][0])
                ap = access_path(f, defs, amt) if amt is not None else None
                if captured is not None and ap == captured:
                    ctx.ok(rid, "handle-amount", "AllocHandle.bytes is the local captured by the decrement closure", nontrivial=True, fn=f)
                else:
                    ctx.bad(rid, "handle-amount", "the amount stored in the handle is not the amount subtracted from the budget", fn=f, pos=st[3])
                path = find_path_edges(f, [fu_term[4]], lambda x: x == b, avoid_edge=lambda x, s, lab: (x, s, lab) in ok_edges)
                if path is None and ok_edges:
                    ctx.ok(rid, "handle-on-success-only", "the handle is built only behind discriminant(result)==Ok", nontrivial=True, fn=f)
                else:
                    ctx.bad(rid, "handle-on-success-only", "a handle can be created although the budget was not decremented", fn=f, pos=st[3], path=path)
    if not found:
        ctx.bad(rid, "handle-amount", "alloc builds no AllocHandle", fn=f)


# ---------------------------------------------------------------------------------------
def contains_handle(ty):
    return HANDLE in ty and not ty.startswith("&") and not ty.startswith("*")


def rule_handle(ctx):
    rid = "R-HANDLE"
    ctx.rule(rid, "no initialised unnamed temporary whose type contains AllocHandle (Result/Option/ControlFlow/tuple of it) is "
                  "dropped on a normal path: `let _ = tracker.alloc(..)?` or a discarded handle releases the bytes while the buffer "
                  "lives; each AllocTracker::alloc call's handle ends in a named binding, a struct field, the return value or an argument")
    prog = ctx.prog
    for f in prog.all_fns(LIB_CRATES):
        hl = [i for i, l in enumerate(f.locals) if contains_handle(l[0])]
        if not hl:
            continue
        if f.path.startswith("jxl_grid::alloc_tracker::") or f.path.startswith("<jxl_grid::alloc_tracker::"):
            continue
        ctx.seen(f)
        defs = Defs(f)
        for b in range(len(f.blocks)):
            if f.is_cleanup(b):
                continue
            t = f.term(b)
            if t[0] != "drop":
                continue
            p = t[1]
            l = p[0]
            if l not in hl:
                continue
            ctx.count(rid + ".drops-examined")
            named = f.local_name(l) is not None
            if named:
                # scope end of a named binding (or the grow-and-replace idiom)
                ctx.ok(rid, "named-drop:%s:%s" % (f.path, f.local_name(l)), None, fn=f)
                continue
            # an unnamed temporary: is it provably empty (None / Err / Break) on the way to this drop?
            if provably_empty(f, defs, l, b):
                ctx.ok(rid, "empty-temp-drop:%s:_%d" % (f.path, l), "dropped only behind a discriminant edge that excludes the handle", fn=f)
                continue
            src = describe_source(f, defs, l)
            ctx.bad(rid, "temp-dropped:%s|%s" % (f.path, src),
                    "an unnamed temporary of type %s holding an allocation handle (%s) is dropped at line %d: the tracked bytes are "
                    "released although the buffer they account for may live on" % (f.local_ty(l)[:80], src, pos_line(t[-2])),
                    fn=f, pos=t[-2])
        # per-site table of alloc calls
        for b, t in f.calls():
            c = callee(t)
            if c and c["fn"] == ALLOC:
                ctx.count(rid + ".alloc-sites")
                dest = alloc_destination(f, defs, t)
                ctx.ok(rid, "alloc-site:%s->%s" % (f.path, dest), "handle of alloc::<%s> ends in %s" % (c["args"][0] if c["args"] else "?", dest), fn=f,
                       nontrivial=True)
    ctx.floor(rid + ".alloc-sites", 6)


def provably_empty(f, defs, l, dropbb):
    """the drop block is reachable from the local's definitions only through a switch on discriminant(l or an alias)
    along the variant that carries no handle (Option: 0, Result/ControlFlow with handle in variant 0: 1)"""
    ty = f.local_ty(l)
    al = {l}
    empty_edges = set()
    for b in range(len(f.blocks)):
        sub = switch_subject(f, defs, b)
        if sub and sub[0] == "discr" and len(sub[1]) == 1 and sub[1][0] in al:
            t = f.term(b)
            vals = {v: x for v, x in t[2]}
            if ty.startswith("core::option::Option<"):
                if "0" in vals:
                    empty_edges.add((b, vals["0"], "0"))
                elif set(vals) == {"1"}:
                    empty_edges.add((b, t[3], "otherwise"))
            elif ty.startswith("core::result::Result<" + HANDLE) or ty.startswith("core::result::Result<core::option::Option<" + HANDLE):
                if "1" in vals:
                    empty_edges.add((b, vals["1"], "1"))
                elif set(vals) == {"0"}:
                    empty_edges.add((b, t[3], "otherwise"))
    if not empty_edges:
        # moved-out check: if the payload was moved out on every path (drop of the husk), the drop is a no-op
        return moved_out_before(f, l, dropbb)
    dblocks = [d[0] for d in defs.of(l) if not f.is_cleanup(d[0])]
    path = find_path_edges(f, dblocks, lambda x: x == dropbb, avoid_edge=lambda x, s, lab: (x, s, lab) in empty_edges)
    if path is None:
        return True
    return moved_out_before(f, l, dropbb)


def moved_out_before(f, l, dropbb):
    """every path from a definition of l to the drop passes a statement moving the handle payload out of l"""
    movers = set()
    for b, blk in enumerate(f.blocks):
        for st in blk[0]:
            if st[0] == "=" and st[2][0] == "use" and st[2][1][0] == "m":
                p = st[2][1][1]
                if p[0] == l and len(p) > 1:
                    movers.add(b)
    if not movers:
        return False
    starts = []
    for b, blk in enumerate(f.blocks):
        if f.is_cleanup(b):
            continue
        for st in blk[0]:
            if st[0] == "=" and st[1] == [l]:
                starts.append(b)
        t = blk[1]
        if t[0] == "call" and t[3] == [l] and t[4] is not None:
            starts.append(t[4])
    if not starts:
        return False
    path = find_path_edges(f, starts, lambda x: x == dropbb, avoid_block=lambda x: x in movers)
    return path is None and dropbb not in starts


def describe_source(f, defs, l):
    d = defs.single(l)
    if d and d[2] == "call":
        c = callee(d[3])
        return "result of " + (c["fn"] if c else "indirect call")
    if d and d[2] == "assign":
        rv = d[3][2]
        if rv[0] == "use":
            p = op_place(rv[1])
            if p is not None:
                return "moved from _%d" % p[0]
    return "_%d" % l


def alloc_destination(f, defs, t):
    """where the handle of an alloc call ends up (best-effort description, stable under line moves)"""
    al = alias_closure(f, {t[3][0]}, extra_calls=("core::result::Result::<T, E>::map_err", "core::option::Option::<T>::transpose",
                                                  "core::result::Result::<T, E>::ok", "core::option::Option::<T>::map"))
    names = sorted({f.local_name(x) for x in al if f.local_name(x)})
    fields = set()
    for b, blk in enumerate(f.blocks):
        for st in blk[0]:
            if st[0] == "=" and st[2][0] == "agg" and st[2][1][0] == "adt":
                for i, o in enumerate(st[2][2]):
                    p = op_place(o)
                    if p is not None and p[0] in al and contains_handle(f.local_ty(p[0])) or (p is not None and p[0] in al and HANDLE in f.local_ty(p[0])):
                        if st[2][1][1] not in ("core::option::Option", "core::result::Result", "core::ops::control_flow::ControlFlow"):
                            fields.add("%s#%d" % (st[2][1][1].split("::")[-1], i))
    if fields:
        return "field " + ",".join(sorted(fields))
    if 0 in al:
        return "return value"
    if names:
        return "binding " + ",".join(names)
    return "temporary"


# ---------------------------------------------------------------------------------------

def unclosure(path):
    """the path of the enclosing named function (closure numbers are source positions and change when an unrelated closure is added)"""
    import re
    return re.sub(r"(::\{closure#\d+\})+$", "", path)


LEAK_FNS = ("core::mem::forget", "core::mem::manually_drop::ManuallyDrop::<T>::new", "alloc::boxed::Box::<T, A>::leak",
            "alloc::vec::Vec::<T, A>::leak", "alloc::sync::Arc::<T, A>::into_raw", "alloc::rc::Rc::<T, A>::into_raw",
            "alloc::boxed::Box::<T, A>::into_raw", "alloc::vec::Vec::<T, A>::into_raw_parts", "core::mem::ManuallyDrop")
LEAK_ALLOWED = {
    ("jxl_render::vardct::dct_common::sec_half", "alloc::vec::Vec::<T, A>::leak"):
        "an untracked, process-lifetime lookup table of f32 (no AllocHandle inside)",
}


def rule_noleak(ctx):
    rid = "R-NOLEAK"
    ctx.rule(rid, "no mem::forget / ManuallyDrop / Box::leak / Vec::leak / into_raw in the library crates except the reviewed, "
                  "untracked table; a leaked AllocHandle never returns its bytes")
    for f in ctx.prog.all_fns(LIB_CRATES):
        for b, t in f.calls():
            c = callee(t)
            if not c:
                continue
            if c["fn"] in LEAK_FNS or c["fn"].startswith("core::mem::manually_drop::ManuallyDrop"):
                ctx.count(rid + ".sites")
                k = (unclosure(f.path), c["fn"])
                if k in LEAK_ALLOWED and not any(HANDLE in a or "AlignedGrid" in a for a in c["args"]):
                    ctx.ok(rid, "leak-allowed:%s:%s" % k, LEAK_ALLOWED[k], fn=f)
                else:
                    ctx.bad(rid, "leak:%s:%s" % k, "%s called with %s: values (and any allocation handle inside) are never dropped"
                            % (c["fn"], c["args"]), fn=f, pos=t[-2])
    # Rc / static storage of handles
    for cn in LIB_CRATES:
        for s in ctx.prog.crate(cn).statics:
            if HANDLE in s["ty"] or "AlignedGrid" in s["ty"] or "AllocTracker" in s["ty"]:
                ctx.bad(rid, "static-holds-handle:" + s["path"], "a static holds tracked memory", fn=None)
    ctx.ok(rid, "census", "no leak primitive on tracked types")


OOM_UNWRAP_ALLOWED = {
    "jxl_grid::AlignedGrid::<S>::clone_untracked": "try_clone is given tracker None here (constant): cannot fail for accounting reasons",
    "jxl_jbr::reconstruct::JpegBitstreamReconstructor::<'jbrd, 'frame, 'meta>::new": "scratch grid created with tracker None (constant) in a closure of new()",
}


def rule_oom(ctx):
    rid = "R-OOM"
    ctx.rule(rid, "no unwrap/expect on a Result whose error is OutOfMemory/TryReserveError or whose value is an AllocHandle, unless "
                  "the tracker operand is the constant None; From<OutOfMemory> exists for the frame/modular/vardct/render errors")
    for f in ctx.prog.all_fns(LIB_CRATES):
        for b, t in f.calls():
            c = callee(t)
            if not c:
                continue
            n = c["fn"]
            if not (n.startswith("core::result::Result::<T, E>::") and n.split("::")[-1] in ("unwrap", "expect", "unwrap_unchecked", "unwrap_or_default")):
                continue
            if not any(("OutOfMemory" in a or "TryReserveError" in a or HANDLE in a) for a in c["args"]):
                continue
            ctx.count(rid + ".unwraps")
            if unclosure(f.path) in OOM_UNWRAP_ALLOWED and untracked_source(f, t):
                ctx.ok(rid, "unwrap-untracked:" + unclosure(f.path), OOM_UNWRAP_ALLOWED[unclosure(f.path)], nontrivial=True, fn=f)
            else:
                ctx.bad(rid, "unwrap-oom:" + f.path, "%s on Result<%s>: reaching the allocation limit would panic instead of returning an error"
                        % (n.split("::")[-1], ", ".join(c["args"])), fn=f, pos=t[-2])
    # From<OutOfMemory> impl census
    want = {"jxl_frame::error::Error", "jxl_modular::error::Error", "jxl_vardct::error::Error", "jxl_render::error::Error"}
    have = set()
    for cn in LIB_CRATES:
        for i in ctx.prog.crate(cn).impls:
            if i["trait"] == "core::convert::From<jxl_grid::OutOfMemory>":
                have.add(i["self"])
    for w in sorted(want):
        if w in have:
            ctx.ok(rid, "from-oom:" + w, "impl From<OutOfMemory>")
        else:
            ctx.bad(rid, "from-oom-missing:" + w, "no From<OutOfMemory> for %s: `?` on a tracked allocation cannot surface as this error" % w)


RAW_ALLOC = ("from_elem", "with_capacity", "try_with_capacity", "try_reserve", "try_reserve_exact", "reserve", "reserve_exact", "resize",
             "resize_with")


def rule_account_first(ctx):
    """the budget is charged before the memory is taken"""
    from ..mirutil import helper_reaches
    rid = "R-ACCOUNT-FIRST"
    ctx.rule(rid, "in every function that both charges the tracker (calls AllocTracker::alloc, or hands a closure that does to "
                  "Option::map / and_then / ...) and allocates (vec![..], Vec::with_capacity, reserve, try_reserve, resize): an "
                  "allocation from which a charge is still reachable is dominated by some charge - the request goes to the tracker "
                  "first, so that an absurd size is refused by the budget (an OutOfMemory error) and never reaches the allocator "
                  "(capacity-overflow panic, abort)")
    n = 0
    for f in ctx.prog.all_fns(LIB_CRATES):
        if f.kind == "Promoted":
            continue
        charge = set()
        cr_f = ctx.prog.crate(f.crate)
        for b, t in f.calls():
            c = callee(t)
            if not c:
                continue
            if c["fn"].endswith("AllocTracker::alloc"):
                charge.add(b)
                continue
            # a private helper that charges (`Self::charge(tracker, len)?`)
            h = cr_f.fns.get(c.get("res") or c["fn"]) or cr_f.fns.get(c["fn"])
            if h is not None and h is not f and "AllocHandle" in str(f.local_ty(t[3][0]) if t[3] else "") \
                    and helper_reaches(cr_f, h, lambda n: n.endswith("AllocTracker::alloc"), depth=1):
                charge.add(b)
        # closures that charge, created here
        for b, blk in enumerate(f.blocks):
            if blk[2]:
                continue
            for st in blk[0]:
                if st[0] == "=" and st[2][0] == "agg" and st[2][1][0] == "closure":
                    g = ctx.prog.fn(st[2][1][1]) or ctx.prog.crate(f.crate).fn(st[2][1][1])
                    if g is not None and any(callee(t) and callee(t)["fn"].endswith("AllocTracker::alloc") for _, t in g.calls()):
                        charge.add(b)
        if not charge:
            continue
        allocs = [(b, t) for b, t in f.calls() if callee(t) and callee(t)["fn"].split("::")[-1] in RAW_ALLOC
                  and ("alloc::" in callee(t)["fn"] or "std::" in callee(t)["fn"] or "Vec" in callee(t)["fn"])]
        if not allocs:
            continue
        ctx.seen(f)
        n += 1
        bad = None
        for b, t in allocs:
            if b in charge or any(f.dominates(a, b) for a in charge):
                continue
            reach = f.reachable(b)
            if any(a in reach and a != b for a in charge):
                bad = (b, t)
                break
        if bad:
            ctx.bad(rid, "alloc-before-charge:" + f.path, "%s is called before the tracker is charged for it: a request the budget would refuse "
                    "reaches the allocator first" % callee(bad[1])["fn"].split("::")[-1], fn=f, pos=bad[1][-2])
        else:
            ctx.ok(rid, "charge-first:" + f.path, "%d allocation(s), each after a charge or on a path without one" % len(allocs), nontrivial=True, fn=f)
    ctx.count(rid + ".functions", n)
    ctx.floor(rid + ".functions", 4)


def rule_limit_commit(ctx):
    """the remembered limit changes only after the tracker accepted the change"""
    from ..mirutil import alias_closure
    rid = "R-LIMIT-COMMIT"
    ctx.rule(rid, "the `image` integration remembers the limit it last gave the tracker (JxlDecoder.current_memory_limit) and turns a new "
                  "limit into a delta against it.  AllocTracker::shrink_limit can refuse; the remembered value may then not have "
                  "changed.  In every function that calls shrink_limit: no store into, and no mutable borrow of, a field of `self` "
                  "that the delta is computed from can be followed by the shrink_limit call (the update comes after the `?`).  "
                  "Otherwise a refused limit is remembered as in force and the next delta is computed from the wrong base - a limit "
                  "far below what is allocated is then accepted and not enforced")
    ox = ctx.prog.crate("jxl_oxide")
    n = 0
    for f in ox.fn_list:
        if f.kind == "Promoted":
            continue
        shr = [b for b, t in f.calls() if callee(t) and callee(t)["fn"].endswith("AllocTracker::shrink_limit")]
        if not shr:
            continue
        ctx.seen(f)
        n += 1
        # fields of self that feed the delta: loads whose value reaches an argument of shrink_limit / expand_limit
        fields = set()
        for blk in f.blocks:
            if blk[2]:
                continue
            for st in blk[0]:
                if st[0] == "=" and st[2][0] == "use":
                    p = op_place(st[2][1])
                    if p is not None and p[0] == 1 and len(p) > 1:
                        fl = [e for e in p[1:] if isinstance(e, list) and e[0] == "." and e[2]]
                        if fl and f.local_ty(st[1][0]) in ("usize", "u64", "u32"):
                            fields.add(fl[-1][2])
        bad = None
        for b, blk in enumerate(f.blocks):
            if blk[2]:
                continue
            for st in blk[0]:
                if st[0] != "=":
                    continue
                tgt = None
                if len(st[1]) > 1 and st[1][0] == 1:
                    fl = [e for e in st[1][1:] if isinstance(e, list) and e[0] == "." and e[2]]
                    tgt = fl[-1][2] if fl else None
                elif st[2][0] == "ref" and st[2][1] not in ("shared", "fake") and st[2][2][0] == 1:
                    fl = [e for e in st[2][2][1:] if isinstance(e, list) and e[0] == "." and e[2]]
                    tgt = fl[-1][2] if fl else None
                if tgt is None:
                    continue
                # integer fields only (the remembered limit), judged by the stored / borrowed place's type
                tyok = tgt in fields
                if not tyok and st[2][0] == "ref":
                    tyok = f.local_ty(st[1][0]).replace("&mut ", "") in ("usize", "u64", "u32")
                if tyok and any(s_ in f.reachable(b) and s_ != b for s_ in shr):
                    bad = (tgt, st)
        if bad:
            ctx.bad(rid, "%s|committed-before-shrink:%s" % (f.path, bad[0]), "`%s` is written before the fallible AllocTracker::shrink_limit call: "
                    "when the tracker refuses, the decoder remembers a limit that is not in force" % bad[0], fn=f, pos=bad[1][3])
        else:
            ctx.ok(rid, "%s|commit-after-shrink" % f.path, "fields feeding the delta are only updated after shrink_limit returned", nontrivial=True, fn=f)
    ctx.count(rid + ".functions", n)
    if "workspace" in str(getattr(ctx, "config", "workspace")):
        ctx.floor(rid + ".functions", 1)


def rule_oom_drop(ctx):
    """an exhausted budget is never swallowed"""
    from ..mirutil import local_uses
    from ..facts import pos_line
    rid = "R-OOM-DROP"
    ctx.rule(rid, "no Result whose error is OutOfMemory / TryReserveError (or a crate error that wraps it) produced by a call that takes the "
                  "tracker or allocates is discarded: a call result of such a type that is never read, or whose `.ok()` is never read, "
                  "turns 'limit reached' into silently missing memory (census over the library crates)")
    n = 0
    for f in ctx.prog.all_fns(LIB_CRATES):
        uses = None
        for b, t in f.calls():
            c = callee(t)
            if not c or len(t[3]) != 1 or t[3][0] == 0:
                continue
            ty = f.local_ty(t[3][0])
            is_res = ty.startswith("core::result::Result<") and ("OutOfMemory" in ty or "TryReserveError" in ty)
            is_ok = c["fn"] in ("core::result::Result::<T, E>::ok", "core::result::Result::<T, E>::err") and \
                any(("OutOfMemory" in a or "TryReserveError" in a) for a in c["args"])
            if not (is_res or is_ok):
                continue
            n += 1
            if uses is None:
                uses = local_uses(f)
                ctx.seen(f)
            if uses.get(t[3][0], 0) == 0:
                ctx.bad(rid, "%s|%s" % (f.path, "ok-discarded" if is_ok else "result-discarded:" + c["fn"].split("::")[-1]),
                        "the result of %s (line %d, type %s) is never read: reaching the allocation limit is silently dropped"
                        % (c["fn"].split("::")[-1], pos_line(t[-2]), ty[:70]), fn=f, pos=t[-2])
    ctx.counts[rid + ".oom-results"] = n
    ctx.ok(rid, "census", "%d calls producing Result<_, OutOfMemory | TryReserveError>; none discarded" % n)
    ctx.floor(rid + ".oom-results", 40)


def untracked_source(f, t):
    """the unwrapped Result comes from a call one of whose arguments is the constant None (tracker)"""
    defs = Defs(f)
    l = op_local(t[2][0])
    seen = set()
    while l is not None and l not in seen:
        seen.add(l)
        d = defs.single(l)
        if not d:
            return False
        if d[2] == "call":
            for a in d[3][2]:
                al = op_local(a)
                if al is None:
                    continue
                dd = defs.single(al)
                if dd and dd[2] == "assign" and dd[3][2][0] == "agg" and dd[3][2][1][0] == "adt" and dd[3][2][1][1] == "core::option::Option" and dd[3][2][1][2] == "None":
                    return True
            return False
        if d[2] == "assign" and d[3][2][0] == "use":
            l = op_local(d[3][2][1])
        else:
            return False
    return False


def main(pid, tier, repo=None):
    configs = ("workspace",) if tier == "quick" else ("workspace", "norayon")
    ctx = Ctx(pid, tier, configs=configs, repo=repo)
    for cfg in configs:
        ctx.use_config(cfg)
        rule_tracker(ctx)
        rule_handle(ctx)
        rule_noleak(ctx)
        rule_oom(ctx)
        rule_account_first(ctx)
        rule_oom_drop(ctx)
        rule_limit_commit(ctx)
        from . import proto
        proto.rule_publish_success(ctx)
        # exhaustion must surface as an error also when it happens in one of several parallel tasks: the shared result slot is monotone
        from . import c07
        c07.rule_errslot(ctx)
        from . import unsafe_rules
        unsafe_rules.rule_type_census(ctx, "handle")
    if tier == "thorough":
        from .. import witness
        witness.rule(ctx, ["AllocHandleIsNotClone", "AllocHandleFieldsArePrivate"])
    from . import fixguards
    fixguards.run(ctx, pid)
    ctx.not_decided("leak-freedom through Arc cycles among FrameRenderHandle.refs (argued acyclic: references point to lower frame indices)")
    ctx.not_decided("untracked allocations (frame buffers, Brotli)")
    return ctx.finish(
        "Budget arithmetic decided structurally on MIR: who touches AllocTrackerInner.bytes_left and with which atomic operation, "
        "the exact body of the decrement closures, amount-in == amount-out between alloc and drop, handle construction sites; "
        "ownership discipline of handles (no dropped temporaries holding a handle, no leak primitives, no unwrap on OOM results). "
        "From these facts the tracked total can never exceed the limit for any interleaving (single atomic RMW with checked_sub).")

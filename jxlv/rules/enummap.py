"""R-ENUMMAP: the numeric codes of the format's enumerations map to the specified variants.
Two facts per enumeration, both read from the type-checked program: the explicit discriminants of the ADT, and the value -> variant map
implemented by its `TryFrom<u32>` (extracted from the switch in MIR).  References transcribed from ISO/IEC 18181-1."""
from ..facts import op_local, op_place

SPEC = [
    # (ADT path, {code: variant}, properties, citation, try_from ADT (if different))
    ("jxl_modular::predictor::Predictor",
     {0: "Zero", 1: "West", 2: "North", 3: "AvgWestAndNorth", 4: "Select", 5: "Gradient", 6: "SelfCorrecting", 7: "NorthEast", 8: "NorthWest",
      9: "WestWest", 10: "AvgWestAndNorthWest", 11: "AvgNorthAndNorthWest", 12: "AvgNorthAndNorthEast", 13: "AvgAll"},
     ["C03"], "Modular predictors 0..13"),
    ("jxl_frame::header::FrameType", {0: "RegularFrame", 1: "LfFrame", 2: "ReferenceOnly", 3: "SkipProgressive"}, ["C14", "C05"], "frame_type"),
    ("jxl_frame::header::Encoding", {0: "VarDct", 1: "Modular"}, ["C14"], "encoding"),
    ("jxl_frame::header::BlendMode", {0: "Replace", 1: "Add", 2: "Blend", 3: "MulAdd", 4: "Mul"}, ["C14", "C05"], "blending mode"),
    ("jxl_frame::data::patch::PatchBlendMode",
     {0: "None", 1: "Replace", 2: "Add", 3: "Mul", 4: "BlendAbove", 5: "BlendBelow", 6: "MulAddAbove", 7: "MulAddBelow"}, ["C05"], "patch blending mode"),
    ("jxl_image::color::ColourSpace", {0: "Rgb", 1: "Grey", 2: "Xyb", 3: "Unknown"}, ["C14", "C19"], "colour_space"),
    ("jxl_image::color::WhitePointDiscriminator", {1: "D65", 2: "Custom", 10: "E", 11: "Dci"}, ["C14", "C19"], "white_point"),
    ("jxl_image::color::PrimariesDiscriminator", {1: "Srgb", 2: "Custom", 9: "Bt2100", 11: "P3"}, ["C14", "C19"], "primaries"),
    ("jxl_image::color::RenderingIntent", {0: "Perceptual", 1: "Relative", 2: "Saturation", 3: "Absolute"}, ["C14", "C19"], "rendering_intent"),
    ("jxl_image::color::TransferFunction", {1: "Bt709", 2: "Unknown", 8: "Linear", 13: "Srgb", 16: "Pq", 17: "Dci", 18: "Hlg"}, ["C14", "C19"],
     "transfer_function (Gamma is not an enumerated code)"),
    ("jxl_image::ExtraChannelTypeRaw",
     {0: "Alpha", 1: "Depth", 2: "SpotColour", 3: "SelectionMask", 4: "Black", 5: "Cfa", 6: "Thermal", 15: "NonOptional", 16: "Optional"},
     ["C14"], "extra channel type"),
    ("jxl_vardct::dct_select::TransformType",
     dict(enumerate(["Dct8", "Hornuss", "Dct2", "Dct4", "Dct16", "Dct32", "Dct16x8", "Dct8x16", "Dct32x8", "Dct8x32", "Dct32x16", "Dct16x32", "Dct4x8",
                     "Dct8x4", "Afv0", "Afv1", "Afv2", "Afv3", "Dct64", "Dct64x32", "Dct32x64", "Dct128", "Dct128x64", "Dct64x128", "Dct256",
                     "Dct256x128", "Dct128x256"])), ["C16"], "varblock transform types 0..26"),
]


def try_from_map(prog, adt_path):
    """{code: variant} implemented by <ADT as TryFrom<u32>>::try_from, or None if there is no such impl"""
    cn = adt_path.split("::")[0]
    cr = prog.crates.get(cn)
    if cr is None:
        return None, None
    f = None
    family = []
    base = "<" + adt_path + " as core::convert::TryFrom<u32>>::try_from"
    for g in cr.fn_list:
        if g.path == base:
            f = g
        if g.path.startswith(base):
            family.append(g)
    if f is None:
        return None, None
    out = table_map(cr, family, adt_path)
    if out is not None:
        return out, f
    out = {}
    for b, blk in enumerate(f.blocks):
        t = blk[1]
        if t[0] != "switch" or blk[2]:
            continue
        l = op_local(t[1])
        # the switch on the u32 argument (or a copy of it)
        if l is None or f.local_ty(l) != "u32":
            continue
        for v, tgt in t[2]:
            var = first_variant(f, tgt, adt_path)
            if var is not None:
                out[int(v)] = var
    return out, f


def table_map(cr, family, adt_path):
    """the conversion written as a lookup in a constant array of variants indexed by the code: {index: variant}, or None.
    Only accepted when the conversion does no arithmetic of its own (the index is the code, converted)."""
    tables = []
    arith = False
    for g in family:
        for blk in g.blocks:
            if blk[2]:
                continue
            for st in blk[0]:
                if st[0] != "=":
                    continue
                rv = st[2]
                if rv[0] == "bin" and rv[1].replace("WithOverflow", "").replace("Unchecked", "") in ("Add", "Sub", "Mul", "Div", "Rem", "Shl", "Shr", "BitAnd", "BitOr", "BitXor"):
                    arith = True
                ops = [rv[1]] if rv[0] == "use" else []
                for o in ops:
                    if o[0] == "k" and isinstance(o[1], dict) and o[1].get("item") in cr.consts:
                        k = cr.consts[o[1]["item"]]
                        if k["ty"].startswith("[" + adt_path + ";"):
                            tables.append(k)
    if len(tables) != 1 or arith:
        return None
    val = tables[0]["value"].strip()
    if not (val.startswith("[") and val.endswith("]")):
        return None
    names = [x.strip().split("::")[-1] for x in val[1:-1].split(",") if x.strip()]
    return dict(enumerate(names))


def first_variant(f, start, adt_path, limit=12):
    seen = set()
    work = [start]
    while work and len(seen) < limit:
        b = work.pop()
        if b in seen:
            continue
        seen.add(b)
        for st in f.stmts(b):
            if st[0] == "=" and st[2][0] == "agg" and st[2][1][0] == "adt" and st[2][1][1] == adt_path:
                return st[2][1][2]
        if f.term(b)[0] in ("goto",):
            work.extend(f.succs(b))
    return None


def run(ctx, pid):
    rid = "R-ENUMMAP"
    ctx.rule(rid, "the numeric codes of the format's enumerations denote the specified variants: the explicit discriminants of the enum and "
                  "the value -> variant map of its TryFrom<u32> (read from the switch in MIR) both equal the table transcribed from "
                  "ISO/IEC 18181-1")
    n = 0
    for adt_path, spec, props, cite in SPEC:
        if pid not in props:
            continue
        cn = adt_path.split("::")[0]
        cr = ctx.prog.crates.get(cn)
        adt = cr.adts.get(adt_path) if cr else None
        short = adt_path.split("::")[-1]
        if adt is None:
            ctx.anchor_missing(rid, adt_path)
            continue
        n += 1
        # (1) discriminants
        have = {}
        for v in adt["variants"]:
            if v["discr"] is not None:
                have[int(v["discr"])] = v["name"]
        want = dict(spec)
        extra = {k: v for k, v in have.items() if k not in want}
        if short == "TransferFunction":
            extra = {k: v for k, v in extra.items() if v != "Gamma"}
        wrong = {k: (have.get(k), v) for k, v in want.items() if have.get(k) != v}
        if wrong or extra:
            ctx.bad(rid, "discriminants:%s" % short, "enum %s (%s): code -> variant differs from the format: %s%s  [found, specified]"
                    % (short, cite, wrong or "", (" unexpected codes %s" % extra) if extra else ""))
        else:
            ctx.ok(rid, "discriminants:%s" % short, "%d codes (%s)" % (len(want), cite), nontrivial=True)
        # (2) TryFrom<u32>
        m, f = try_from_map(ctx.prog, adt_path)
        if m is None:
            continue
        ctx.seen(f)
        wrong = {k: (m.get(k), v) for k, v in want.items() if m.get(k) != v}
        extra = {k: v for k, v in m.items() if k not in want}
        if wrong or extra:
            ctx.bad(rid, "try_from:%s" % short, "<%s as TryFrom<u32>>::try_from maps codes to other variants than the format: %s%s  [found, specified]"
                    % (short, wrong or "", (" accepts unspecified codes %s" % extra) if extra else ""), fn=f)
        else:
            ctx.ok(rid, "try_from:%s" % short, "%d codes decoded to the specified variants" % len(want), nontrivial=True, fn=f)
    ctx.counts[rid + ".enums"] = n

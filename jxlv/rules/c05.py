"""C05 — frames are composed as the blend rules define (claimed narrowly: reference-slot bookkeeping):
R-SLOT (ordering/control dependence in preserve_current_frame), R-SLOTPRED (decision tables of the header predicates
that decide which slot a frame reads from / is saved to)."""
import itertools

from .. import absint
from ..engine import Ctx
from ..facts import callee, op_local, op_place, pos_line, place_fields
from ..mirutil import Defs, access_path, find_path_edges, switch_subject

PCF = "jxl_render::RenderContext::preserve_current_frame"
FT = "jxl_frame::header::FrameType"
CTX_ADT = "jxl_render::RenderContext"


def field_of_self(p, name):
    pf = place_fields(p)
    return bool(pf) and pf[0] == (name, CTX_ADT)


def bool_call_edges(f, names):
    """edges on which a bool-returning call to one of `names` is known true / false: returns dict name -> (true_edges, false_edges)"""
    out = {}
    defs = Defs(f)
    for b, t in f.calls():
        c = callee(t)
        if not c or c["fn"] not in names or len(t[3]) != 1 or t[4] is None:
            continue
        res = t[3][0]
        sb = t[4]
        tt = f.term(sb)
        if tt[0] != "switch" or op_local(tt[1]) != res:
            continue
        te, fe = set(), set()
        for v, x in tt[2]:
            if v == "0":
                fe.add((sb, x, v))
        if fe:
            te.add((sb, tt[3], "otherwise"))
        out.setdefault(c["fn"], (set(), set()))
        out[c["fn"]][0].update(te)
        out[c["fn"]][1].update(fe)
    return out


def only_via(f, target, edges):
    """target block is reachable from entry only through one of `edges`"""
    if not edges:
        return False
    return find_path_edges(f, [0], lambda x: x == target, avoid_edge=lambda x, s, lab: (x, s, lab) in edges) is None


def rule_slot(ctx):
    rid = "R-SLOT"
    ctx.rule(rid, "in preserve_current_frame: a frame's sources (FrameDependence.ref_slots / lf, refcount updates) are read from "
                  "self.reference / self.lf_frame BEFORE, and not reachable from, the store of the frame's own index; the store to "
                  "reference[save_as_reference] is control-dependent on can_reference(); the store to lf_frame[lf_level-1] on "
                  "lf_level != 0; keyframes.push on is_keyframe(); the parallel vectors frames/frame_deps/refcounts/renders_* are "
                  "each pushed exactly once on every path past the loading_frame.take() Some edge")
    f = ctx.prog.fn(PCF)
    if f is None:
        ctx.anchor_missing(rid, PCF)
        return
    ctx.seen(f)
    defs = Defs(f)
    # stores and reads of the slot arrays
    stores = {"reference": [], "lf_frame": []}
    reads = {"reference": [], "lf_frame": []}
    for b, blk in enumerate(f.blocks):
        if f.is_cleanup(b):
            continue
        for st in blk[0]:
            if st[0] != "=":
                continue
            for nm in ("reference", "lf_frame"):
                if field_of_self(st[1], nm):
                    stores[nm].append((b, st))
                rv = st[2]
                ps = []
                if rv[0] == "use":
                    p = op_place(rv[1])
                    if p is not None:
                        ps.append(p)
                elif rv[0] == "ref":
                    ps.append(rv[2])
                for p in ps:
                    if field_of_self(p, nm):
                        reads[nm].append((b, st))
    for nm, minreads in (("reference", 1), ("lf_frame", 1)):      # one read suffices: a local copy may feed both the record and the loop
        if len(stores[nm]) != 1:
            ctx.bad(rid, "slot-store-count:" + nm, "expected exactly one store into self.%s[..], found %d" % (nm, len(stores[nm])), fn=f)
            continue
        sb, sst = stores[nm][0]
        if len(reads[nm]) < minreads:
            ctx.bad(rid, "slot-read-count:" + nm, "expected >= %d reads of self.%s feeding the dependence record, found %d" % (minreads, nm, len(reads[nm])), fn=f)
        for rb, rst in reads[nm]:
            after = (rb == sb and f.stmts(sb).index(rst) > f.stmts(sb).index(sst)) or (rb != sb and rb in f.reachable(sb))
            if after:
                ctx.bad(rid, "read-after-own-save:" + nm,
                        "self.%s is read (line %d) after the frame's own index was stored into it (line %d): the frame would depend on / blend over itself"
                        % (nm, pos_line(rst[3]), pos_line(sst[3])), fn=f, pos=rst[3])
            else:
                ctx.ok(rid, "read-before-save:%s@%s" % (nm, "deps" if rst[2][0] == "use" else "ref"), "line %d precedes the store at line %d" % (pos_line(rst[3]), pos_line(sst[3])),
                       nontrivial=True, fn=f)
    # FrameDependence snapshot uses self.reference
    dep_ok = False
    for b, blk in enumerate(f.blocks):
        for st in blk[0]:
            if st[0] == "=" and st[2][0] == "agg" and st[2][1][0] == "adt" and st[2][1][1] == "jxl_render::FrameDependence":
                ops = st[2][2]
                if len(ops) == 2:
                    l = op_local(ops[1])
                    ap = access_path(f, defs, l) if l is not None else None
                    if ap and ap[1] and ap[1][-1] == "reference":
                        dep_ok = True
    if dep_ok:
        ctx.ok(rid, "deps-snapshot", "FrameDependence.ref_slots is a copy of self.reference", fn=f)
    else:
        ctx.bad(rid, "deps-snapshot", "FrameDependence.ref_slots is not taken from self.reference", fn=f)
    # control dependence
    edges = bool_call_edges(f, ("jxl_frame::header::FrameHeader::can_reference", "jxl_frame::header::FrameHeader::is_keyframe"))
    if stores["reference"]:
        sb, sst = stores["reference"][0]
        te = edges.get("jxl_frame::header::FrameHeader::can_reference", (set(), set()))[0]
        if only_via(f, sb, te):
            ctx.ok(rid, "save-only-if-can_reference", "store reachable only through can_reference()==true", nontrivial=True, fn=f)
        else:
            ctx.bad(rid, "save-only-if-can_reference", "self.reference[..] is overwritten on a path where can_reference() is false or not consulted", fn=f, pos=sst[3])
        # index derives from save_as_reference
        idx = [e for e in sst[1] if isinstance(e, list) and e[0] == "[]"]
        nm = None
        if idx:
            from ..validation import subject_name
            nm = subject_name(f, defs, ["c", [idx[0][1]]], use_names=False)
        if nm and "save_as_reference" in str(nm):
            ctx.ok(rid, "save-slot-index", "index = %s" % nm, fn=f)
        else:
            ctx.bad(rid, "save-slot-index", "the slot index of the save is not header.save_as_reference (found %s)" % nm, fn=f, pos=sst[3])
    if stores["lf_frame"]:
        sb, sst = stores["lf_frame"][0]
        from ..validation import subject_name, checks
        idx = [e for e in sst[1] if isinstance(e, list) and e[0] == "[]"]
        nm = subject_name(f, defs, ["c", [idx[0][1]]], use_names=False) if idx else None
        if nm and "lf_level" in str(nm) and "-1" in str(nm).replace(" ", ""):
            ctx.ok(rid, "lf-slot-index", "index = %s" % nm, fn=f)
        else:
            ctx.bad(rid, "lf-slot-index", "the LF slot index is not lf_level - 1 (found %s)" % nm, fn=f, pos=sst[3])
        # guarded by lf_level != 0
        guard = set()
        for b in range(len(f.blocks)):
            t = f.term(b)
            if t[0] != "switch":
                continue
            l = op_local(t[1])
            for st in f.stmts(b):
                if st[0] == "=" and st[1] == [l] and st[2][0] == "bin" and st[2][1] in ("Ne", "Eq"):
                    a = subject_name(f, defs, st[2][2])
                    c2 = subject_name(f, defs, st[2][3])
                    if "lf_level" in str(a) and c2 == 0:
                        for v, x in t[2]:
                            if v == "0" and st[2][1] == "Eq":
                                guard.add((b, x, v))
                        if st[2][1] == "Ne" and any(v == "0" for v, _ in t[2]):
                            guard.add((b, t[3], "otherwise"))
        if only_via(f, sb, guard):
            ctx.ok(rid, "lf-save-only-if-lf_level", "store reachable only through lf_level != 0", nontrivial=True, fn=f)
        else:
            ctx.bad(rid, "lf-save-only-if-lf_level", "self.lf_frame[..] is stored on a path where lf_level may be 0 (index underflow / wrong slot)", fn=f, pos=sst[3])
    # keyframes.push under is_keyframe
    pushes = {}
    for b, t in f.calls():
        c = callee(t)
        if c and c["fn"] == "alloc::vec::Vec::<T, A>::push" and t[2]:
            l = op_local(t[2][0])
            ap = access_path(f, defs, l) if l is not None else None
            if ap and ap[1]:
                pushes.setdefault(ap[1][-1], []).append(b)
    te = edges.get("jxl_frame::header::FrameHeader::is_keyframe", (set(), set()))[0]
    kp = pushes.get("keyframes", [])
    if len(kp) == 1 and only_via(f, kp[0], te):
        ctx.ok(rid, "keyframes-push-only-if-is_keyframe", "reachable only through is_keyframe()==true", nontrivial=True, fn=f)
    else:
        ctx.bad(rid, "keyframes-push-only-if-is_keyframe", "keyframes.push is not (only) under is_keyframe() (%d pushes)" % len(kp), fn=f)
    # parallel vectors: exactly once on every path after the Some edge
    take = [b for b, t in f.calls() if callee(t) and callee(t)["fn"] == "core::option::Option::<T>::take"]
    rets = [b for b in range(len(f.blocks)) if f.term(b)[0] == "ret"]
    for vec in ("frames", "frame_deps", "refcounts"):
        bs = pushes.get(vec, [])
        if len(bs) != 1:
            ctx.bad(rid, "parallel-push-count:" + vec, "self.%s.push occurs %d times (expected 1): the per-frame vectors lose index alignment" % (vec, len(bs)), fn=f)
            continue
        # every path from entry to ret that passes the first push of any vector passes this one: check: no path from another vector's push to ret avoiding this push, and vice versa
        ctx.ok(rid, "parallel-push-once:" + vec, "single push site", fn=f)
    allp = [pushes.get(v, [None])[0] for v in ("frames", "frame_deps", "refcounts")]
    rn, rw = pushes.get("renders_narrow", []), pushes.get("renders_wide", [])
    if len(rn) == 1 and len(rw) == 1 and None not in allp:
        anchor = allp[2]  # refcounts.push is first
        ok = True
        for other in (allp[0], allp[1]):
            p = find_path_edges(f, [f.term(anchor)[4]], lambda x: f.term(x)[0] == "ret", avoid_block=lambda x: x == other)
            if p is not None:
                ok = False
                ctx.bad(rid, "parallel-push-skipped", "a path pushes refcounts but returns without pushing frames/frame_deps", fn=f, path=p)
        p = find_path_edges(f, [f.term(anchor)[4]], lambda x: f.term(x)[0] == "ret", avoid_block=lambda x: x in (rn[0], rw[0]))
        if p is not None:
            ok = False
            ctx.bad(rid, "render-handle-push-skipped", "a path pushes refcounts but returns without pushing a render handle", fn=f, path=p)
        if ok:
            ctx.ok(rid, "parallel-vectors-aligned", "every return after refcounts.push passes frames.push, frame_deps.push and one renders_*.push", nontrivial=True, fn=f)
    else:
        ctx.bad(rid, "render-handle-push-count", "renders_narrow/renders_wide push sites: %d/%d (expected 1/1)" % (len(rn), len(rw)), fn=f)


# reference decision tables (ISO/IEC 18181-1 frame header semantics)
def ref_can_reference(is_last, duration, save_as_reference, ft):
    return (not is_last) and (duration == 0 or save_as_reference != 0) and ft != "LfFrame"


def ref_is_keyframe(is_last, duration, save_as_reference, ft):
    return ft in ("RegularFrame", "SkipProgressive") and (bool(is_last) or duration != 0)


PREDICATES = [
    ("jxl_frame::header::FrameHeader::can_reference", ref_can_reference,
     "a frame is saved to its reference slot iff !is_last && (duration == 0 || save_as_reference != 0) && frame_type != LfFrame"),
    ("jxl_frame::header::FrameHeader::is_keyframe", ref_is_keyframe,
     "a frame is shown (keyframe) iff it is Regular/SkipProgressive and (is_last || duration != 0)"),
]


def rule_slotpred(ctx):
    rid = "R-SLOTPRED"
    ctx.rule(rid, "the decision table of each slot predicate is extracted by abstract evaluation of its MIR (and of the helpers it "
                  "calls) over the finite abstraction {is_last} x {duration = 0 / != 0} x {save_as_reference = 0..3} x {4 frame types} "
                  "and must equal the reference table of the format; the abstraction is exhaustive (duration only through ==0 / !=0, the 2-bit slot "
                  "number and the four frame types enumerated), so equality of the tables is equality of the predicates for all headers")
    prog = ctx.prog
    fr = prog.crate("jxl_frame")
    adt = fr.adts.get(FT)
    if adt is None:
        ctx.anchor_missing(rid, FT)
        return
    vs = [v["name"] for v in adt["variants"]]
    for path, ref, text in PREDICATES:
        f = fr.fn(path)
        if f is None:
            ctx.anchor_missing(rid, path)
            continue
        ctx.seen(f)
        diffs = []
        n = 0
        try:
            for is_last, dur, sar, ft in itertools.product([0, 1], [0, absint.NonZero()], [0, 1, 2, 3], range(len(vs))):
                env = {("self", "is_last"): is_last, ("self", "duration"): dur, ("self", "save_as_reference"): sar,
                       ("self", "frame_type"): absint.Enum(FT, ft, vs[ft])}
                ev = absint.Evaluator(prog, ext=lambda p, env=env: env.get(p, absint.UNKNOWN))
                got = ev.call_fn(f, [absint.Ref(("ext", "self"))])
                want = ref(is_last, 0 if dur == 0 and not isinstance(dur, absint.NonZero) else 1, sar, vs[ft])
                n += 1
                if bool(got) != bool(want):
                    diffs.append((is_last, dur, sar, vs[ft], bool(got), bool(want)))
        except absint.Unsupported as e:
            ctx.bad(rid, "%s|not-evaluable" % path, "cannot extract the decision table of %s (%s): the predicate reads something outside the "
                    "reviewed inputs" % (path, e), fn=f)
            continue
        ctx.count(rid + ".rows", n)
        if diffs:
            d = diffs[0]
            ctx.bad(rid, "%s|table-differs" % path,
                    "%s differs from the format's rule (%s) in %d of %d rows, e.g. is_last=%s duration=%s save_as_reference=%s frame_type=%s -> %s, required %s"
                    % (path, text, len(diffs), n, d[0], d[1], d[2], d[3], d[4], d[5]), fn=f)
        else:
            ctx.ok(rid, "%s|table" % path, "%d rows equal the reference (%s)" % (n, text), nontrivial=True, fn=f)
    # FrameType helper predicates
    helpers = {
        "jxl_frame::header::FrameType::is_normal_frame": {"RegularFrame", "SkipProgressive"},
        "jxl_frame::header::FrameType::is_progressive_frame": {"RegularFrame", "LfFrame"},
    }
    for path, true_set in helpers.items():
        f = fr.fn(path)
        if f is None:
            ctx.anchor_missing(rid, path)
            continue
        ctx.seen(f)
        got = set()
        try:
            for i, vn in enumerate(vs):
                env = {("self",): absint.Enum(FT, i, vn)}
                ev = absint.Evaluator(prog, ext=lambda p, env=env: env.get(p, absint.UNKNOWN))
                a0 = absint.Ref(("ext", "self")) if f.local_ty(1).startswith("&") else absint.Enum(FT, i, vn)
                if ev.call_fn(f, [a0]):
                    got.add(vn)
        except absint.Unsupported as e:
            ctx.bad(rid, "%s|not-evaluable" % path, str(e), fn=f)
            continue
        if got == true_set:
            ctx.ok(rid, "%s|table" % path, "true for %s" % sorted(got), fn=f)
        else:
            ctx.bad(rid, "%s|table-differs" % path, "%s is true for %s, required %s" % (path, sorted(got), sorted(true_set)), fn=f)


BLEND = "jxl_render::blend::blend"


def rule_blendsrc(ctx):
    """inside the per-channel loop of blend(), the reference slot and blend parameters come from the channel's own blending info"""
    from ..facts import callee, op_local, op_place
    from ..mirutil import Defs, strip_generics
    rid = "R-BLENDSRC"
    ctx.rule(rid, "blend(): in the loop over the per-channel blending infos (colour channels share the frame's info, every extra channel "
                  "has its own), each use of a blending info - the lookup of the source slot and alpha channel, and the construction of "
                  "the blend parameters - is data-dependent on the loop's current item; in particular the index into the reference "
                  "grids inside the loop derives from the item, not from the frame-level info hoisted out of the loop")
    f = ctx.prog.fn(BLEND)
    if f is None:
        ctx.anchor_missing(rid, BLEND)
        return
    ctx.seen(f)
    defs = Defs(f)
    # the loop: `next()` on an iterator whose item type mentions BlendingInfo and that was built with enumerate/chain over ec_blending_info
    def next_over_infos(t):
        c = callee(t)
        if not c or not c["fn"].endswith("::next"):
            return False
        sig = " ".join([c["fn"]] + list(c.get("args", [])) + [c.get("res", "")])
        return "BlendingInfo" in sig and ("RepeatN" in sig or "repeat_n" in sig)
    nexts = [(b, t) for b, t in f.calls() if next_over_infos(t)]
    if not nexts:
        ctx.anchor_missing(rid, "the per-channel loop over blending infos in blend()")
        return
    nb, nt = nexts[-1]
    item = nt[3][0]
    loop_blocks = {x for x in f.reachable(nt[4]) if nb in f.reachable(x)}

    def from_item(l, depth=0):
        seen = set()
        while l is not None and l not in seen and depth < 30:
            depth += 1
            seen.add(l)
            if l == item:
                return True
            d = defs.single(l)
            if not d:
                # several definitions: any of them from the item?
                ds = [x for x in defs.of(l) if not f.is_cleanup(x[0])]
                return any(x[2] == "assign" and x[3][2][0] in ("use", "ref") and
                           from_item((op_place(x[3][2][1]) if x[3][2][0] == "use" else x[3][2][2])[0], depth + 1)
                           for x in ds if (op_place(x[3][2][1]) if x[3][2][0] == "use" else x[3][2][2]) is not None)
            if d[2] == "assign":
                rv = d[3][2]
                pl = rv[2] if rv[0] == "ref" else (op_place(rv[1]) if rv[0] == "use" else (op_place(rv[2]) if rv[0] == "cast" else None))
                l = pl[0] if pl is not None else None
            elif d[2] == "call":
                c = callee(d[3])
                # the result of a lookup is "from the item" if its first argument is
                l = op_local(d[3][2][0]) if d[3][2] else None
            else:
                return False
        return False

    n = 0
    bad = []
    for b, t in f.calls():
        c = callee(t)
        if not c or b not in loop_blocks and not any(b in f.reachable(x) for x in ()):
            pass
        if not c:
            continue
        nm = strip_generics(c["fn"])
        if nm.endswith("source_and_alpha_from_blending_info") or nm.endswith("BlendParams::from_blending_info"):
            n += 1
            if not (t[2] and from_item(op_local(t[2][0]))):
                bad.append((t, "%s is given a blending info that is not the loop's current item" % nm.split("::")[-1]))
    # indexing of the reference grids inside the loop
    for b in sorted(loop_blocks):
        for st in f.stmts(b):
            if st[0] == "=" and st[2][0] == "ref":
                pl = st[2][2]
                if f.local_name(pl[0]) == "reference_grids" or "Reference<" in f.local_ty(pl[0]) and f.local_ty(pl[0]).startswith("["):
                    idx = [e for e in pl[1:] if isinstance(e, list) and e[0] == "[]"]
                    if idx:
                        n += 1
                        if not from_item(idx[0][1]):
                            bad.append((None, "the reference slot used inside the per-channel loop does not depend on the channel's own blending info"))
    ctx.counts[rid + ".uses"] = n
    if bad:
        t, msg = bad[0]
        ctx.bad(rid, "blending-info-not-per-channel", "%s: an extra channel is blended over the slot (or with the parameters) the colour channels "
                "name, not its own" % msg, fn=f, pos=(t[-2] if t else f.term_pos(nb)))
    else:
        ctx.ok(rid, "blending-info-per-channel", "%d uses inside the loop all derive from the current item" % n, nontrivial=True, fn=f)
    ctx.floor(rid + ".uses", 2)


def scalar_taint(f, seeds):
    """forward closure over assignments (operands, indices) and call results; whole locals"""
    T = set(seeds)

    def tainted(p):
        return p is not None and (p[0] in T or any(isinstance(e, list) and e[0] == "[]" and e[1] in T for e in p[1:]))

    def rv_places(rv):
        k = rv[0]
        if k in ("ref", "rawptr"):
            return [rv[2]]
        if k == "discr":
            return []
        ops = [rv[1]] if k in ("use", "repeat") else ([rv[2]] if k in ("cast", "un") else ([rv[2], rv[3]] if k == "bin" else (rv[2] if k == "agg" else [])))
        return [op_place(o) for o in ops if op_place(o) is not None]

    changed = True
    while changed:
        changed = False
        for blk in f.blocks:
            if blk[2]:
                continue
            for st in blk[0]:
                if st[0] == "=" and st[1][0] not in T and any(tainted(p) for p in rv_places(st[2])):
                    T.add(st[1][0])
                    changed = True
            t = blk[1]
            if t[0] == "call" and t[3] and t[3][0] not in T and any(tainted(op_place(a)) for a in t[2]):
                T.add(t[3][0])
                changed = True
    return T


def region_lists_indexed_by(f, T, grid_of_recv):
    """names of the grids whose regions_and_shifts() list is indexed, in f, by a local in T; grid_of_recv(f, defs, local) names the grid"""
    from ..mirutil import Defs, alias_closure
    defs = Defs(f)
    out = set()
    n = 0
    for b, t in f.calls():
        c = callee(t)
        if not (c and c["fn"].endswith("ImageWithRegion::regions_and_shifts") and t[3] and len(t[3]) == 1 and t[2]):
            continue
        recv = op_local(t[2][0])
        grid = grid_of_recv(f, defs, recv) if recv is not None else None
        res = set(alias_closure(f, {t[3][0]}, through_fields=False))
        for blk in f.blocks:
            if blk[2]:
                continue
            for st in blk[0]:
                if st[0] != "=":
                    continue
                pls = []
                rv = st[2]
                if rv[0] == "use" and rv[1][0] in ("c", "m"):
                    pls.append(rv[1][1])
                elif rv[0] == "ref":
                    pls.append(rv[2])
                for pl in pls:
                    if pl[0] in res:
                        for e in pl[1:]:
                            if isinstance(e, list) and e[0] == "[]":
                                n += 1
                                if e[1] in T and grid is not None:
                                    out.add(grid)
    return out, n


def rule_alpha_region(ctx):
    """when planes are alpha-blended, the regions of the alpha planes are looked at"""
    from ..mirutil import access_path
    rid = "R-ALPHA-REGION"
    ctx.rule(rid, "blend() and patch() position the planes with offsets computed from the region of the channel being blended.  The alpha "
                  "plane used by the Blend / MulAdd modes is another channel with its own region (Gaborish / EPF swap the colour channels "
                  "to their padded region; chroma and extra-channel upsampling and VarDCT group alignment give other origins), so the "
                  "region list of every grid an alpha plane is taken from has to be read at the alpha index: the new frame's in "
                  "blend() (the base frame's always was), the patched frame's and the patch source's in patch().  Decided by data "
                  "flow: an index derived from the alpha-channel index reaches an indexing of that grid's regions_and_shifts(), in the "
                  "function itself or in a closure applied to an alpha-derived value (Option::map / zip / filter ..)")
    cr = ctx.prog.crate("jxl_render")
    total = 0
    for name, wanted in ((BLEND, ("new_grid",)), ("jxl_render::blend::patch", ("base_grid", "patch_ref_grid"))):
        f = cr.fn(name)
        if f is None:
            ctx.anchor_missing(rid, name)
            return
        ctx.seen(f)
        short = name.split("::")[-1]
        seeds = alpha_index_seeds(ctx, f)
        if not seeds:
            ctx.anchor_missing(rid, "the alpha-channel index in %s()" % short)
            return
        A = scalar_taint(f, seeds)
        argnames = {i: f.local_name(i) for i in range(1, f.argc + 1)}
        for w in wanted:
            if w not in argnames.values():
                ctx.anchor_missing(rid, "%s(): parameter %s" % (short, w))
                return

        def grid_in_fn(g, defs, l):
            ap = access_path(g, defs, l)
            return argnames.get(ap[0]) if ap is not None and not ap[1] else None

        found, n = region_lists_indexed_by(f, A, grid_in_fn)
        # closures applied to an alpha-derived value: their parameters carry the alpha index
        for blk in f.blocks:
            if blk[2] or blk[1][0] != "call":
                continue
            t = blk[1]
            args = [op_local(a) for a in t[2]]
            if not any(a in A for a in args if a is not None):
                continue
            for a in args:
                if a is None:
                    continue
                for d in Defs(f).of(a):
                    if d[2] == "assign" and d[3][2][0] == "agg" and d[3][2][1][0] == "closure":
                        g = cr.fns.get(d[3][2][1][1])
                        if g is None:
                            continue
                        ctx.seen(g)
                        Ag = scalar_taint(g, set(range(2, g.argc + 1)))
                        upv = {}
                        for nm, pl in (g.upvar_names or []):
                            fl = [e for e in pl[1:] if isinstance(e, list) and e[0] == "."]
                            if fl:
                                upv[fl[0][1]] = nm

                        def grid_in_closure(h, defs, l, upv=upv):
                            ap = access_path(h, defs, l)
                            if ap is None or ap[0] != 1 or not ap[1]:
                                return None
                            first = ap[1][0]
                            for k, nm in upv.items():
                                if first == nm or first == "*" + nm or first == str(k):
                                    return nm
                            return None

                        fg, ng = region_lists_indexed_by(g, Ag, grid_in_closure)
                        found |= fg
                        n += ng
        total += n
        for w in wanted:
            key = "alpha-region-ignored" if (short, w) == ("blend", "new_grid") else "%s|alpha-region-ignored:%s" % (short, w)
            if w in found:
                ctx.ok(rid, key.replace("ignored", "consulted"), "%s(): the region of %s's alpha plane is read" % (short, w), nontrivial=True, fn=f)
            else:
                ctx.bad(rid, key, "%s() never reads the region of the alpha plane it takes from %s: the plane is indexed with the offsets of "
                        "the channel being blended, which is wrong whenever the two regions differ (a Gaborish frame blended with alpha at "
                        "a negative offset renders opaque rows as transparent; a subsampled alpha runs out of range)" % (short, w), fn=f)
    ctx.count(rid + ".region-list-indexings", total)
    ctx.floor(rid + ".region-list-indexings", 6)


FRAME_SPACE_ROOTS = ["jxl_render::image::composite", "jxl_render::image::composite_preprocess", "jxl_render::blend::blend",
                     "jxl_render::blend::patch", "jxl_render::render::render_frame",
                     "jxl_render::util::pad_upsampling", "jxl_render::util::pad_color_region", "jxl_render::util::pad_lf_region"]
ORIENTED = ("ImageHeader::width_with_orientation", "ImageHeader::height_with_orientation", "ImageMetadata::apply_orientation")
# the converters: they take a region in oriented image coordinates and hand back codestream coordinates
ORIENT_BOUNDARY = ("jxl_render::region::Region::apply_orientation", "jxl_render::util::apply_orientation_to_image_region",
                   "jxl_render::util::image_region_to_frame")


def rule_orient_scope(ctx):
    """code that works in codestream (frame / canvas) coordinates never asks for oriented dimensions"""
    rid = "R-ORIENT-SCOPE"
    ctx.rule(rid, "frames are decoded, padded, composited and patched in codestream coordinates; the orientation is applied once, at the "
                  "API boundary (Region::apply_orientation on the requested region, the frame-buffer writers of jxl-oxide).  Layering: "
                  "from the functions that compute in frame / canvas coordinates (composite, blend, patch, render_frame, "
                  "the pad_* functions) no chain of resolved calls inside jxl_render reaches ImageHeader::width_with_orientation / "
                  "height_with_orientation / ImageMetadata::apply_orientation, except through the three converters that take an "
                  "oriented region and return codestream coordinates (Region::apply_orientation, apply_orientation_to_image_region, "
                  "image_region_to_frame) - a canvas clipped to the "
                  "oriented size composites only the top-left min(W, H) square of a transposed image")
    cr = ctx.prog.crate("jxl_render")
    edges = {}
    for f in cr.fn_list:
        if f.kind == "Promoted":
            continue
        outs = set()
        for b, t in f.calls():
            c = callee(t)
            if c:
                outs.add(c.get("res") or c["fn"])
                outs.add(c["fn"])
        # closures are part of the function that creates them
        for blk in f.blocks:
            for st in blk[0]:
                if st[0] == "=" and st[2][0] == "agg" and st[2][1][0] == "closure":
                    outs.add(st[2][1][1])
        edges[f.path] = outs
    n = 0
    for root in FRAME_SPACE_ROOTS:
        f = cr.fn(root)
        if f is None:
            ctx.anchor_missing(rid, root)
            continue
        ctx.seen(f)
        n += 1
        seen, todo, par = set(), [f.path], {}
        hit = None
        while todo and hit is None:
            x = todo.pop()
            if x in seen:
                continue
            seen.add(x)
            for y in edges.get(x, ()):
                if any(y.endswith(o) for o in ORIENTED):
                    par[y] = x
                    hit = y
                    break
                if y in edges and y not in seen and y not in ORIENT_BOUNDARY:
                    par.setdefault(y, x)
                    todo.append(y)
        if hit is None:
            ctx.ok(rid, "frame-space:" + root.split("::")[-1], "%d functions reachable, none asks for oriented dimensions" % len(seen), nontrivial=True, fn=f)
        else:
            chain = [hit]
            while chain[-1] in par:
                chain.append(par[chain[-1]])
            ctx.bad(rid, "frame-space:" + root.split("::")[-1], "oriented dimensions reach code that works in codestream coordinates: %s"
                    % " <- ".join(x.split("::")[-1] if not x.startswith("<") else x for x in chain), fn=f)
    # the positive example: the converters do use them
    conv = cr.fn(ORIENT_BOUNDARY[0])
    if conv is None or not any(callee(t) and any(callee(t)["fn"].endswith(o) for o in ORIENTED) for _, t in conv.calls()):
        ctx.anchor_missing(rid, "Region::apply_orientation calling the oriented accessors (the use that must keep matching)")
    ctx.count(rid + ".roots", n)
    ctx.floor(rid + ".roots", 8)


def rule_alpha_depth(ctx):
    """the plane picked by the alpha index is converted to float with the bit depth looked up by the alpha index"""
    rid = "R-ALPHA-DEPTH"
    ctx.rule(rid, "blend() converts integer planes to float with `convert_to_float_modular(bit_depth)`; every channel has its own bit "
                  "depth (metadata.bit_depth for colour, ec_info[i].bit_depth for extra channel i).  Pairing, decided by forward data "
                  "flow from the alpha-channel index: when the plane being converted is selected through a value derived from the "
                  "alpha index, the bit-depth argument is derived from the alpha index too (today: ec_info[alpha].bit_depth for "
                  "both the base frame's and the new frame's alpha plane).  A conversion of the alpha plane with the depth of the "
                  "channel being blended scales alpha wrongly whenever the two depths differ")
    total = 0
    for name in (BLEND, "jxl_render::blend::patch"):
        f = ctx.prog.crate("jxl_render").fn(name)
        if f is None:
            ctx.anchor_missing(rid, name)
            return
        ctx.seen(f)
        r = alpha_depth_in(ctx, rid, f)
        if r is None:
            return
        total += r
    ctx.floor(rid + ".conversions", 6)


def alpha_index_seeds(ctx, f):
    """locals of f that hold the alpha-channel index: loads of `.alpha_channel`, and what same-crate helpers that load it hand out"""
    T = set()
    # helpers that hand out the alpha index: same-crate functions that load `.alpha_channel` themselves (or carry "alpha" in their name)
    cr = ctx.prog.crate("jxl_render")

    def loads_alpha_channel(g):
        for blk in g.blocks:
            for st in blk[0]:
                if st[0] == "=" and st[2][0] in ("use", "cast"):
                    q = op_place(st[2][1] if st[2][0] == "use" else st[2][2])
                    if q is not None and any(isinstance(e, list) and e[0] == "." and e[2] == "alpha_channel" for e in q[1:]):
                        return True
        return False

    helper_res = set()
    for b, t in f.calls():
        c = callee(t)
        if not (c and t[3] and len(t[3]) == 1):
            continue
        g = cr.fns.get(c.get("res") or c["fn"]) or cr.fns.get(c["fn"])
        if "alpha" in c["fn"].split("::")[-1] or (g is not None and g.path.startswith("jxl_render::blend::") and loads_alpha_channel(g)):
            helper_res.add(t[3][0])
            ty = f.local_ty(t[3][0])
            if not ty.startswith("(") and ("Option<usize>" in ty or ty == "usize"):
                T.add(t[3][0])
    for blk in f.blocks:
        if blk[2]:
            continue
        for st in blk[0]:
            if st[0] == "=" and len(st[1]) == 1 and st[2][0] in ("use", "cast"):
                p = op_place(st[2][1] if st[2][0] == "use" else st[2][2])
                if p is None:
                    continue
                fl = [e for e in p[1:] if isinstance(e, list) and e[0] == "."]
                # the alpha index: BlendingInfo / PatchBlendingInfo .alpha_channel, or the Option<usize> half of the helper's result
                if fl and (fl[-1][2] == "alpha_channel" or
                           (len(p) == 2 and p[0] in helper_res and "Option<usize>" in f.local_ty(st[1][0]))):
                    T.add(st[1][0])
    return T


def alpha_depth_in(ctx, rid, f):
    short = f.path.split("::")[-1]
    T = alpha_index_seeds(ctx, f)
    if not T:
        ctx.anchor_missing(rid, "the alpha-channel index in %s()" % short)
        return None

    def place_tainted(p):
        return p is not None and (p[0] in T or any(isinstance(e, list) and e[0] == "[]" and e[1] in T for e in p[1:]))

    def rv_places(rv):
        k = rv[0]
        if k in ("ref", "rawptr"):
            return [rv[2]]
        if k == "discr":
            return []
        ops = [rv[1]] if k in ("use", "repeat") else ([rv[2]] if k in ("cast", "un") else ([rv[2], rv[3]] if k == "bin" else (rv[2] if k == "agg" else [])))
        return [op_place(o) for o in ops if op_place(o) is not None]

    changed = True
    while changed:
        changed = False
        for blk in f.blocks:
            if blk[2]:
                continue
            for st in blk[0]:
                if st[0] == "=" and st[1][0] not in T and any(place_tainted(p) for p in rv_places(st[2])):
                    T.add(st[1][0])
                    changed = True
            t = blk[1]
            if t[0] == "call" and t[3] and t[3][0] not in T and any(place_tainted(op_place(a)) for a in t[2]):
                T.add(t[3][0])
                changed = True
    conv = [(b, t) for b, t in f.calls() if callee(t) and strip_generics_name(callee(t)["fn"]).endswith("::convert_to_float_modular")]
    ctx.count(rid + ".conversions", len(conv))
    if not conv:
        ctx.anchor_missing(rid, "calls of convert_to_float_modular in %s()" % short)
        return None
    defs = Defs(f)

    def sel_place(P, seen):
        """is the plane this place denotes picked by the alpha index?  The last indexing decides: a variable index derived from the
        alpha index, or a constant index into a slice that a call cut at an alpha-derived position (split_at_mut(alpha + cc).1[0]);
        a variable index that does not derive from it picks another plane even when the slice was cut at the alpha position."""
        idx = [e for e in P[1:] if isinstance(e, list) and e[0] in ("[]", "[c]", "[..]")]
        if idx:
            e = idx[-1]
            if e[0] == "[]":
                if e[1] in T:
                    return True
                d = defs.single(e[1])
                if not (d and d[2] == "assign" and d[3][2][0] == "use" and d[3][2][1][0] == "k"):
                    return False
            return P[0] in T
        fl = [e for e in P[1:] if isinstance(e, list) and e[0] == "."]
        if fl:
            # a tuple built from references: follow the component
            out = False
            for d in defs.of(P[0]):
                if f.is_cleanup(d[0]):
                    continue
                if d[2] == "assign" and d[3][2][0] == "agg" and fl[0][1] < len(d[3][2][2]):
                    q = op_place(d[3][2][2][fl[0][1]])
                    out = out or (q is not None and sel_local(q[0], seen))
                elif d[2] == "assign" and d[3][2][0] in ("use", "ref"):
                    q = op_place(d[3][2][1]) if d[3][2][0] == "use" else d[3][2][2]
                    out = out or (q is not None and sel_place(list(q) + fl, seen))
                elif d[2] == "call":
                    out = out or P[0] in T
            return out
        return sel_local(P[0], seen)

    def sel_local(l, seen):
        if l in seen:
            return False
        seen = seen | {l}
        out = False
        for d in defs.of(l):
            if f.is_cleanup(d[0]) or d[2] == "partial":
                continue
            if d[2] == "call":
                out = out or l in T
            else:
                rv = d[3][2]
                q = rv[2] if rv[0] in ("ref", "rawptr") else (op_place(rv[1]) if rv[0] == "use" else (op_place(rv[2]) if rv[0] == "cast" else None))
                out = out or (q is not None and sel_place(q, seen))
        return out

    n = 0
    for b, t in conv:
        if len(t[2]) < 2:
            continue
        rp = op_place(t[2][0])
        if rp is not None and sel_place(rp, frozenset()):
            n += 1
            if not place_tainted(op_place(t[2][1])):
                ctx.bad(rid, "%s|alpha-plane-depth" % short, "a plane selected through the alpha-channel index is converted to float with a bit "
                        "depth that does not derive from the alpha channel's own ec_info entry", fn=f, pos=t[-2])
                return None
    ctx.count(rid + ".alpha-conversions", n)
    ctx.ok(rid, "%s|alpha-plane-depth" % short, "%d conversions, %d of a plane selected by the alpha index, each with a depth derived from "
           "that index" % (len(conv), n), nontrivial=n > 0, fn=f)
    return len(conv)


def strip_generics_name(s):
    from ..mirutil import strip_generics
    return strip_generics(s)


def rule_clamp_first(ctx):
    """in the blend kernels a value that is conditionally clamped is not used unclamped"""
    from ..mirutil import Defs, find_path_edges
    rid = "R-CLAMP-FIRST"
    ctx.rule(rid, "blend_single (and the helpers / closures of jxl_render::blend): where a sample or alpha value v is clamped to [0, 1] under "
                  "the frame's clamp flag, nothing else reads the unclamped v in the same pixel iteration.  Two shapes are recognised: "
                  "(a) in place, `v = v.clamp(0.0, 1.0)` inside `if clamp`: there is no path from a block that reads v to the clamp that "
                  "avoids the blocks (re)defining v; (b) into a new value, `let c = if clamp { v.clamp(0.0, 1.0) } else { v }`: the only "
                  "reads of v are the clamp's argument and the copy into c.  A term computed from v above the `if clamp` - a hoisted "
                  "`1.0 - alpha` - keeps the unclamped value, so the frame is blended with weights outside [0, 1] exactly when "
                  "clamping was asked for")
    cr = ctx.prog.crate("jxl_render")
    fs = [g for g in cr.fn_list if g.path.startswith("jxl_render::blend::") and g.kind in ("Fn", "AssocFn", "Closure")]
    sites = 0
    for f in fs:
        defs = None
        for cb, ct in f.calls():
            c = callee(ct)
            if not c or not c["fn"].endswith("f32>::clamp") or not ct[3] or len(ct[3]) != 1 or not ct[2]:
                continue
            if defs is None:
                defs = Defs(f)
            src = op_local(ct[2][0])
            d = defs.single(src) if src is not None else None
            v = None
            if d and d[2] == "assign" and d[3][2][0] == "use" and op_place(d[3][2][1]) is not None and len(op_place(d[3][2][1])) == 1:
                v = op_local(d[3][2][1])
            if v is None or v <= f.argc and f.kind != "Closure":
                continue
            dst = ct[3][0]
            in_place = dst == v or any(st[0] == "=" and st[1] == [v] and st[2][0] == "use" and op_local(st[2][1]) == dst
                                       for blk in f.blocks for st in blk[0])
            sites += 1
            ctx.seen(f)
            defblocks = {x[0] for x in defs.of(v) if not f.is_cleanup(x[0])} - {cb}
            readers = []
            for b, blk in enumerate(f.blocks):
                if blk[2]:
                    continue
                for st in blk[0]:
                    if st[0] != "=":
                        continue
                    rv = st[2]
                    if rv[0] == "ref" and rv[2] == [v] and rv[1] == "mut":
                        defblocks.add(b)        # handed out mutably (mem::swap): a redefinition, not a read
                        continue
                    ops = [rv[1]] if rv[0] == "use" else ([rv[2]] if rv[0] in ("cast", "un") else ([rv[2], rv[3]] if rv[0] == "bin" else (list(rv[2]) if rv[0] == "agg" else [])))
                    if any(op_local(o) == v and op_place(o) == [v] for o in ops) or (rv[0] == "ref" and rv[2] == [v]):
                        if st[1] == [src]:
                            continue            # the copy that feeds the clamp
                        if not in_place and st[1] == [dst] and rv[0] == "use":
                            continue            # shape (b): the unclamped arm of the same value
                        readers.append((b, st[3]))
                t = blk[1]
                if t[0] == "call" and b != cb and any(op_local(a) == v and op_place(a) == [v] for a in t[2]):
                    readers.append((b, t[-2]))
            early = None
            if in_place:
                for b, pos in sorted(readers):
                    if b in defblocks or b == cb:
                        continue
                    if find_path_edges(f, [b], lambda x: x == cb, avoid_block=lambda x: x in defblocks and x != b) is not None:
                        early = pos
                        break
            elif readers:
                early = sorted(readers)[0][1]
            name = f.local_name(v) or "_%d" % v
            key = "%s|%s" % (f.path, f.local_name(v) or "_")
            if early is None:
                ctx.ok(rid, key + "#%d" % sites, "the unclamped value is read nowhere else within an iteration (%s)" % ("in place" if in_place else "new value"),
                       nontrivial=True, fn=f)
            else:
                ctx.bad(rid, key + "|read-before-clamp", "`%s` is also read unclamped (line %d) although it is clamped to [0, 1] under the clamp flag "
                        "(line %d): what is computed there keeps the unclamped value" % (name, pos_line(early), pos_line(ct[-2])), fn=f, pos=ct[-2])
    ctx.count(rid + ".clamp-sites", sites)
    ctx.floor(rid + ".clamp-sites", 4)


def main(pid, tier, repo=None):
    ctx = Ctx(pid, tier, configs=("workspace",), repo=repo)
    rule_slot(ctx)
    rule_slotpred(ctx)
    rule_blendsrc(ctx)
    rule_alpha_region(ctx)
    rule_alpha_depth(ctx)
    rule_orient_scope(ctx)
    rule_clamp_first(ctx)
    from . import enummap
    enummap.run(ctx, pid)
    from . import fixguards
    fixguards.run(ctx, pid)
    ctx.not_decided("the blend arithmetic, clamping, alpha handling, crop intersection, resets_canvas / save_before_ct, patches (value-level)")
    return ctx.finish(
        "Reference-slot bookkeeping only: which slot a frame reads and which it is saved to. Ordering and control dependence of the "
        "slot reads/stores in RenderContext::preserve_current_frame are checked on MIR; the boolean predicates that gate them "
        "(can_reference, is_keyframe and the frame-type helpers) are compared with the format's rules by extracting their complete "
        "decision tables from MIR over a finite abstraction of the header fields.")

"""R-KERNEL-SUB (C02, class h, partial): guard / offset agreement in SIMD kernels.

Contradiction-style rule (Engler): when a kernel states a belief about a size (an early-out `if width <= T { return scalar(..) }`)
and later subtracts a constant from a value derived from that size to form a pointer offset (`rows[i].add(avg_width - 8)`),
the belief must be strong enough for the subtraction not to wrap: LB(value | guards) >= constant.  Lower bounds are computed by
abstract interpretation (constants, +, *, /, >>, div_ceil, min/max, casts) with guard relations read from ordering comparisons
and the switch edge on which they hold; closures inherit the lower bounds of what they capture at their creation site.
Only sites whose bound rests on at least one guard are judged; everything else is inventory (not decided)."""
from ..facts import callee, op_local, op_place, op_const_int, pos_line, place_fields
from ..mirutil import Defs, alias_closure, find_path_edges, strip_generics

ORDER = {"Lt", "Le", "Gt", "Ge"}
UNSIGNED = {"usize", "u8", "u16", "u32", "u64"}
PTR_OFFSET = ("::add", "::sub", "::offset", "::get_unchecked", "::get_unchecked_mut", "::byte_add")


class LowerBounds:
    def __init__(self, prog, f, upvar_lb=None):
        self.prog = prog
        self.f = f
        self.defs = Defs(f)
        self.upvar_lb = upvar_lb or {}   # capture name -> (lb, used_guard)
        self.rel = []                    # (small_operand, big_operand, edge, strict)
        self._hold = {}
        self._scan()

    def root(self, l):
        seen = set()
        while l not in seen:
            seen.add(l)
            d = self.defs.single(l)
            if not d or d[2] != "assign":
                return l
            rv = d[3][2]
            p = None
            if rv[0] == "use":
                p = op_place(rv[1])
            elif rv[0] == "cast" and rv[1] == "IntToInt":
                p = op_place(rv[2])
            if p is not None and len(p) == 1:
                l = p[0]
                continue
            return l
        return l

    def _scan(self):
        f = self.f
        for b, blk in enumerate(f.blocks):
            t = blk[1]
            if t[0] != "switch":
                continue
            cur = op_local(t[1])
            neg = False
            cmp_rv = None
            for _ in range(4):
                if cur is None:
                    break
                st = None
                for s2 in reversed(blk[0]):
                    if s2[0] == "=" and s2[1] == [cur]:
                        st = s2
                        break
                if st is None:
                    break
                rv = st[2]
                if rv[0] == "bin" and rv[1] in ORDER:
                    cmp_rv = rv
                    break
                if rv[0] == "un" and rv[1] == "Not":
                    neg = not neg
                    cur = op_local(rv[2])
                    continue
                if rv[0] == "use":
                    cur = op_local(rv[1])
                    continue
                break
            if cmp_rv is None:
                continue
            zero = [x for v, x in t[2] if v == "0"]
            if not zero:
                continue
            fe = (b, zero[0], "0")
            te = (b, t[3], "otherwise")
            if neg:
                fe, te = te, fe
            a, c, op = cmp_rv[2], cmp_rv[3], cmp_rv[1]
            # relation (small, big, strict) on true edge and on false edge
            if op == "Lt":
                self.rel += [(a, c, te, True), (c, a, fe, False)]
            elif op == "Le":
                self.rel += [(a, c, te, False), (c, a, fe, True)]
            elif op == "Gt":
                self.rel += [(c, a, te, True), (a, c, fe, False)]
            else:
                self.rel += [(c, a, te, False), (a, c, fe, True)]

    def holds(self, edge, at):
        k = (edge, at)
        if k not in self._hold:
            self._hold[k] = at != 0 and find_path_edges(self.f, [0], lambda x: x == at, avoid_edge=lambda x, s, lab: (x, s, lab) == edge) is None
        return self._hold[k]

    def lb(self, o, at, depth=0, visiting=None):
        """(lower bound or None, used_guard)"""
        k = op_const_int(o)
        if k is not None:
            return k, False
        p = op_place(o)
        if p is None or depth > 18:
            return None, False
        f = self.f
        if len(p) > 1:
            # closure upvar: (*(_1.k)) / (_1.k)
            for e in p[1:]:
                if isinstance(e, list) and e[0] == "." and e[3] == "{closure}" and e[2]:
                    nm = e[2].lstrip("*")
                    if nm in self.upvar_lb:
                        return self.upvar_lb[nm]
            # deref of a local that holds a reference to an upvar: _r = (*_1).name ; _v = (*_r)
            if p[1:] == ["*"]:
                d = self.defs.single(p[0])
                if d and d[2] == "assign" and d[3][2][0] == "use":
                    pp = op_place(d[3][2][1])
                    if pp is not None and len(pp) > 1:
                        for e in pp[1:]:
                            if isinstance(e, list) and e[0] == "." and e[3] == "{closure}" and e[2] and e[2].lstrip("*") in self.upvar_lb:
                                return self.upvar_lb[e[2].lstrip("*")]
            # tuple element of a checked op
            if all(isinstance(e, list) and e[0] == "." for e in p[1:]) and p[1][1] == 0:
                return self.lb(["c", [p[0]]], at, depth + 1, visiting)
            return (0, False) if False else (None, False)
        l = p[0]
        r = self.root(l)
        visiting = visiting or set()
        if r in visiting:
            return (0, False) if f.local_ty(r) in UNSIGNED else (None, False)
        visiting = visiting | {r}
        best, guard = (0, False) if f.local_ty(r) in UNSIGNED else (None, False)
        # guard relations: small (<|<=) r
        for small, big, edge, strict in self.rel:
            bl = op_local(big)
            if bl is None or self.root(bl) != r:
                continue
            if not self.holds(edge, at):
                continue
            v, _ = self.lb(small, at, depth + 1, visiting)
            if v is None:
                continue
            v = v + (1 if strict else 0)
            if best is None or v > best:
                best, guard = v, True
        # definitions
        ds = [d for d in self.defs.of(r) if not f.is_cleanup(d[0])]
        dv, dg = None, False
        if ds:
            vals = []
            for d in ds:
                vals.append(self._def_lb(d, at, depth, visiting))
            if all(v[0] is not None for v in vals):
                dv = min(v[0] for v in vals)
                dg = any(v[1] for v in vals)
        if dv is not None and (best is None or dv > best):
            best, guard = dv, dg
        elif dv is not None and dv == best:
            guard = guard or dg
        return best, guard

    def _def_lb(self, d, at, depth, visiting):
        f = self.f
        if d[2] == "assign":
            rv = d[3][2]
            k = rv[0]
            if k == "use":
                return self.lb(rv[1], at, depth + 1, visiting)
            if k == "cast":
                if rv[1] == "IntToInt":
                    return self.lb(rv[2], at, depth + 1, visiting)
                return None, False
            if k == "bin":
                op = rv[1].replace("WithOverflow", "").replace("Unchecked", "")
                a, ga = self.lb(rv[2], at, depth + 1, visiting)
                b, gb = self.lb(rv[3], at, depth + 1, visiting)
                cb = op_const_int(rv[3])
                if op == "Add" and a is not None and b is not None:
                    return a + b, ga or gb
                if op == "Mul" and a is not None and b is not None:
                    return a * b, ga or gb
                if op == "Div" and a is not None and cb:
                    return a // cb, ga
                if op == "Shr" and a is not None and cb is not None:
                    return a >> cb, ga
                if op == "Shl" and a is not None and cb is not None and cb < 40:
                    return a << cb, ga
                if op == "Sub" and a is not None and cb is not None and a - cb >= 0:
                    return a - cb, ga
                return (0, False) if len(d[3][1]) == 1 and f.local_ty(d[3][1][0]) in UNSIGNED else (None, False)
            if k == "agg":
                return None, False
            return None, False
        if d[2] == "call":
            c = callee(d[3])
            nm = c["fn"] if c else ""
            short = nm.split("::")[-1]
            args = d[3][2]
            if short == "div_ceil" and len(args) == 2:
                a, ga = self.lb(args[0], at, depth + 1, visiting)
                cb = op_const_int(args[1])
                if a is not None and cb:
                    return -(-a // cb), ga
            if short in ("min",) and len(args) == 2:
                a, ga = self.lb(args[0], at, depth + 1, visiting)
                b, gb = self.lb(args[1], at, depth + 1, visiting)
                if a is not None and b is not None:
                    return min(a, b), ga or gb
            if short in ("max",) and len(args) == 2:
                a, ga = self.lb(args[0], at, depth + 1, visiting)
                b, gb = self.lb(args[1], at, depth + 1, visiting)
                vs = [x for x in (a, b) if x is not None]
                if vs:
                    return max(vs), ga or gb
            if short in ("unwrap", "branch", "clone", "from", "into") and args:
                return self.lb(args[0], at, depth + 1, visiting)
            dst = d[3][3][0]
            return (0, False) if f.local_ty(dst) in UNSIGNED else (None, False)
        return (0, False)


def offset_sinks(f):
    """locals that are used as the offset argument of a raw pointer add/sub/offset or get_unchecked"""
    out = {}
    for b, t in f.calls():
        c = callee(t)
        if not c or not c.get("unsafe"):
            continue
        if not c["fn"].endswith(PTR_OFFSET) or len(t[2]) < 2:
            continue
        l = op_local(t[2][1])
        if l is not None:
            out.setdefault(l, []).append((b, c["fn"].split("::")[-1]))
    return out


def analyse_fn(prog, f, upvar_lb, results, depth=0):
    lbs = LowerBounds(prog, f, upvar_lb)
    sinks = offset_sinks(f)
    # checked subtractions whose result flows into an offset
    for b, blk in enumerate(f.blocks):
        if f.is_cleanup(b):
            continue
        for st in blk[0]:
            if st[0] != "=" or st[2][0] != "bin" or st[2][1] not in ("SubWithOverflow", "Sub", "SubUnchecked"):
                continue
            c = op_const_int(st[2][3])
            if c is None or c <= 0 or len(st[1]) != 1:
                continue
            flows = alias_closure(f, {st[1][0]}, through_try=False)
            hit = [s for l, ss in sinks.items() if l in flows for s in ss]
            # also offsets computed from the difference by further + / * (e.g. avg_width - 1 + x)
            if not hit:
                derived = set(flows)
                for _ in range(3):
                    for blk2 in f.blocks:
                        for s2 in blk2[0]:
                            if s2[0] == "=" and s2[2][0] == "bin" and len(s2[1]) == 1 and s2[2][1].replace("WithOverflow", "") in ("Add", "Mul"):
                                for o in (s2[2][2], s2[2][3]):
                                    p = op_place(o)
                                    if p is not None and p[0] in derived:
                                        derived.add(s2[1][0])
                        for s2 in blk2[0]:
                            if s2[0] == "=" and s2[2][0] in ("use", "cast") and len(s2[1]) == 1:
                                p = op_place(s2[2][1] if s2[2][0] == "use" else s2[2][2])
                                if p is not None and p[0] in derived:
                                    derived.add(s2[1][0])
                hit = [s for l, ss in sinks.items() if l in derived for s in ss]
            if not hit:
                continue
            lo, guard = lbs.lb(st[2][2], b)
            results.append(dict(fn=f, pos=st[3], const=c, lb=lo, guard=guard, sink=hit[0][1], bb=b))
    # closures created here inherit lower bounds of what they capture
    if depth < 3:
        for b, blk in enumerate(f.blocks):
            for st in blk[0]:
                if st[0] == "=" and st[2][0] == "agg" and st[2][1][0] == "closure":
                    cf = prog.fn(st[2][1][1])
                    if cf is None:
                        continue
                    up = {}
                    for cap, o in zip(cf.captures, st[2][2]):
                        nm = cap[0].lstrip("*")
                        # by-ref captures pass `&local`: resolve to the local
                        l = op_local(o)
                        d = lbs.defs.single(l) if l is not None else None
                        src = o
                        if d and d[2] == "assign" and d[3][2][0] == "ref" and len(d[3][2][2]) == 1:
                            src = ["c", d[3][2][2]]
                        elif d and d[2] == "assign" and d[3][2][0] == "ref":
                            # reference to an upvar of this closure (nested closures)
                            pl = d[3][2][2]
                            for e in pl[1:]:
                                if isinstance(e, list) and e[0] == "." and e[3] == "{closure}" and e[2] and e[2].lstrip("*") in lbs.upvar_lb:
                                    up[nm] = lbs.upvar_lb[e[2].lstrip("*")]
                            continue
                        v = lbs.lb(src, b)
                        if v[0] is not None:
                            up[nm] = v
                    analyse_fn(prog, cf, up, results, depth + 1)


def run(ctx, files):
    rid = "R-KERNEL-SUB"
    ctx.rule(rid, "guard/offset agreement in SIMD kernels: for every `value - C` (C a positive constant) whose result is used as a raw pointer "
                  "offset, the lower bound of `value` implied by the kernel's own guards (early-outs comparing a size with a constant; "
                  "propagated through + * / >> div_ceil min max casts and into closures through their captures) must be >= C; only sites whose "
                  "bound rests on at least one guard are judged, the others are inventory")
    prog = ctx.prog
    results = []
    seen = set()
    for f in prog.all_fns():
        if f.kind == "Closure" or f.kind == "Promoted":
            continue
        if not any(f.file.endswith(x) for x in files):
            continue
        analyse_fn(prog, f, {}, results)
    judged = 0
    for r in results:
        f = r["fn"]
        k = (f.path, pos_line(r["pos"]), r["const"])
        if k in seen:
            continue
        seen.add(k)
        ctx.seen(f)
        ctx.count(rid + ".offset-subtractions")
        if r["lb"] is None or not r["guard"]:
            ctx.count(rid + ".not-judged")
            continue
        judged += 1
        from ..validation import subject_name
        nm = subject_name(f, Defs(f), f.stmts(r["bb"])[0][2][2]) if False else None
        if r["lb"] >= r["const"]:
            ctx.ok(rid, "%s|-%d@lb%d" % (f.path, r["const"], r["lb"]), "line %d: guards give >= %d, subtracts %d before %s" % (pos_line(r["pos"]), r["lb"], r["const"], r["sink"]),
                   nontrivial=True, fn=f)
        else:
            ctx.bad(rid, "%s|offset-underflow:-%d" % (f.path, r["const"]),
                    "kernel %s subtracts %d from a size that its own guards only bound below by %d (line %d) and uses the result as a pointer offset "
                    "(%s): for sizes in between the offset wraps and the access is out of bounds" % (f.path, r["const"], r["lb"], pos_line(r["pos"]), r["sink"]),
                    fn=f, pos=r["pos"])
    ctx.counts[rid + ".judged"] = judged


def run_var_sub(ctx):
    """a guarded unsigned `a - b` between two run-time values in an unsafe / target-feature kernel stays guarded"""
    rid = "R-KERNEL-VARSUB"
    ctx.rule(rid, "in the unsafe and #[target_feature] kernels a wrapped loop bound turns raw loads and stores into out-of-bounds accesses.  "
                  "An unsigned subtraction `a - b` of two run-time values counts as guarded when it is dominated by the surviving edge "
                  "of an ordering comparison whose larger side is `a` and whose smaller side is computed from `b` (e.g. `if width < "
                  "padding * 2 { return }` before `width - padding`).  For the kernels listed with the number of guarded subtractions "
                  "confirmed by reading, that number must not drop: a kernel that loses the early-out keeps the subtraction and wraps "
                  "for narrow inputs.  Subtractions whose safety rests on loop ranges or derived bounds are inventory (counted, not "
                  "judged) - judging them by name proved brittle under harmless renames (benign R03 / R04)")
    prog = ctx.prog
    n = 0
    guarded_in = {}
    for f in prog.all_fns():
        if f.kind == "Promoted" or ":" in f.crate or not f.crate.startswith("jxl_") or not (f.tf or f.unsafe):
            continue
        lbs = None
        for b, blk in enumerate(f.blocks):
            if f.is_cleanup(b):
                continue
            for st in blk[0]:
                if st[0] != "=" or st[2][0] != "bin" or st[2][1] not in ("SubWithOverflow", "Sub", "SubUnchecked"):
                    continue
                if op_const_int(st[2][3]) is not None or op_const_int(st[2][2]) is not None:
                    continue
                a, bb = op_local(st[2][2]), op_local(st[2][3])
                if a is None or bb is None or f.local_ty(a) not in UNSIGNED:
                    continue
                if lbs is None:
                    lbs = LowerBounds(prog, f)
                ra, rb = lbs.root(a), lbs.root(bb)

                def deps(o, depth=0, seen=None):
                    seen = seen if seen is not None else set()
                    p = op_place(o)
                    if p is None or depth > 8:
                        return seen
                    r = lbs.root(p[0])
                    if r in seen:
                        return seen
                    seen.add(r)
                    for dd in lbs.defs.of(r):
                        if dd[2] != "assign":
                            continue
                        rv = dd[3][2]
                        for o2 in ([rv[2], rv[3]] if rv[0] == "bin" else ([rv[1]] if rv[0] == "use" else ([rv[2]] if rv[0] == "cast" else []))):
                            deps(o2, depth + 1, seen)
                    return seen
                guarded = False
                for small, big, edge, strict in lbs.rel:
                    bl = op_local(big)
                    if bl is None or lbs.root(bl) != ra or not lbs.holds(edge, b):
                        continue
                    if rb in deps(small):
                        guarded = True
                n += 1
                if guarded:
                    guarded_in[f.path] = guarded_in.get(f.path, 0) + 1
    ctx.count(rid + ".sites", n)
    for suffix, (want, why) in sorted(VARSUB_GUARDED.items()):
        fs = [f for f in prog.all_fns() if f.path.endswith(suffix) and f.kind != "Promoted"]
        if not fs:
            ctx.anchor_missing(rid, suffix)
            continue
        for f in fs:
            ctx.seen(f)
            got = guarded_in.get(f.path, 0)
            key = strip_generics(f.path)
            if got >= want:
                ctx.ok(rid, key, "%d guarded subtraction(s): %s" % (got, why), nontrivial=True, fn=f)
            else:
                ctx.bad(rid, key + "|guard-lost", "%d of the %d subtractions that were guarded by a comparison of their operands are still guarded (%s): "
                        "if one wraps, the loop bounds computed from it make the kernel's raw accesses run out of bounds" % (got, want, why), fn=f)


VARSUB_GUARDED = {
    "filter::impls::x86_64::epf_sse41::epf_row_x86_64_sse41": (1, "`width - padding` after the early-out `width < padding * 2`"),
}

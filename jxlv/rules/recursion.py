"""R-RECURSION: no recursion whose depth the input chooses (C01: "never aborts the process" - a stack overflow is an abort).
The call graph of the library crates is built from resolved callees (trait calls resolved by rustc, closure bodies attached to the
function that creates them); every strongly connected component is a recursion.  Each must be in the reviewed table with the bound
on its depth and, where the bound is a fact about the code, a structural check of that fact.  A cycle that is not listed, or whose
check fails, is reported.  (Calls through `dyn Fn` values - the render operation stored in a frame's render handle - are not edges
of this graph; the cycle they take part in is the same reference-frame chain as the `blend` cycle below.)"""
from ..facts import callee, op_const_int, op_local as op_local_
from .. import validation


def short(p):
    return p.split("::")[-1] if not p.endswith(">") else p


def sccs(nodes, edges):
    """Tarjan, iterative"""
    index = {}
    low = {}
    on = set()
    stack = []
    out = []
    n = [0]
    for root in nodes:
        if root in index:
            continue
        work = [(root, iter(edges.get(root, ())))]
        index[root] = low[root] = n[0]
        n[0] += 1
        stack.append(root)
        on.add(root)
        while work:
            v, it = work[-1]
            adv = False
            for w in it:
                if w not in index:
                    index[w] = low[w] = n[0]
                    n[0] += 1
                    stack.append(w)
                    on.add(w)
                    work.append((w, iter(edges.get(w, ()))))
                    adv = True
                    break
                elif w in on:
                    low[v] = min(low[v], index[w])
            if adv:
                continue
            work.pop()
            if work:
                u = work[-1][0]
                low[u] = min(low[u], low[v])
            if low[v] == index[v]:
                comp = []
                while True:
                    w = stack.pop()
                    on.discard(w)
                    comp.append(w)
                    if w == v:
                        break
                out.append(comp)
    return out


def check_clusters(ctx, fns, comp):
    """the cluster map's own decoder is created for a single distribution, for which read_clusters does not recurse"""
    rc = fns.get("jxl_coding::read_clusters")
    if rc is None:
        return "read_clusters not found"
    nested = []
    for b, t in rc.calls():
        c = callee(t)
        if c and c["fn"] in comp and c["fn"] != rc.path:
            nested.append((b, t))
    if not nested:
        return "read_clusters no longer calls back into the decoder parser"
    for b, t in nested:
        if not any(op_const_int(a) == 1 for a in t[2]):
            return "the nested decoder of read_clusters is not created with the constant distribution count 1"
    # num_dist == 1 returns before the nested parse
    cs = [c for c in validation.checks(rc, errs={b for b in range(len(rc.blocks)) if rc.term(b)[0] == "ret"} - {x for x, _ in nested})]
    ok = False
    for blk_i, blk in enumerate(rc.blocks):
        if blk[2] or blk[1][0] != "switch":
            continue
        for st in blk[0]:
            if st[0] == "=" and st[2][0] == "bin" and st[2][1] in ("Eq", "Ne") and 1 in (op_const_int(st[2][2]), op_const_int(st[2][3])):
                t = blk[1]
                for v, x in list(t[2]) + [("o", t[3])]:
                    if not any(nb in rc.reachable(x) for nb, _ in nested):
                        ok = True
    if not ok:
        return "read_clusters has no `num_dist == 1` exit that avoids the nested decoder"
    # a nested decoder with LZ77 has one more distribution than it was asked for: it must be impossible for maps of <= 2 distributions,
    # or each level of nesting can start another one.  Every call of the LZ77-capable Decoder::parse in read_clusters sits on the
    # `num_dist > 2` side of a comparison of num_dist with 2 (the other side uses the no-LZ77 parser / rejects the LZ77 bit).
    full = [(b, t) for b, t in rc.calls() if callee(t) and callee(t)["fn"] == "jxl_coding::Decoder::parse"]
    for b, t in full:
        guarded = False
        for sb, blk in enumerate(rc.blocks):
            if blk[2] or blk[1][0] != "switch" or not rc.dominates(sb, b) or sb == b:
                continue
            for st in blk[0]:
                if st[0] == "=" and st[2][0] == "bin" and st[2][1] in ("Le", "Lt", "Gt", "Ge") and st[1] == [op_local_(blk[1][1])]:
                    k = op_const_int(st[2][3]) if op_const_int(st[2][3]) is not None else op_const_int(st[2][2])
                    if k in (2, 3):
                        # which edge reaches the call?
                        for v, succ in [(x[0], x[1]) for x in blk[1][2]] + [("otherwise", blk[1][3])]:
                            if succ == b or rc.dominates(succ, b):
                                truth = (v != "0")
                                small = (st[2][1], k) in (("Le", 2), ("Lt", 3))
                                # the call must be on the "not small" side
                                if (small and not truth) or ((st[2][1], k) in (("Gt", 2), ("Ge", 3)) and truth):
                                    guarded = True
        if not guarded:
            return ("read_clusters builds its nested decoder with the LZ77-capable Decoder::parse also for maps of at most two "
                    "distributions: every nesting level can enable LZ77 and start another one (input-controlled depth)")
    return None


def check_ma_depth(ctx, fns, comp):
    """the tree walked by next_decision_node was rejected at parse time when deeper than depth_limit"""
    for p, f in fns.items():
        if p.startswith("jxl_modular::ma::") or p.startswith("<jxl_modular::ma::"):
            for c in validation.checks(f):
                txt = validation.norm(c["subject"], c["op"], c["other"])
                if "depth" in txt and "depth_limit" in txt and c["op"] in (">", ">="):
                    return None
    return "no `depth > depth_limit -> Err` check found in the MA tree parser"


def check_halving(ctx, fns, comp):
    """each recursive call works on a slice obtained by splitting at half the length"""
    for p in comp:
        f = fns[p]
        halves = False
        for blk in f.blocks:
            if blk[2]:
                continue
            for st in blk[0]:
                if st[0] == "=" and st[2][0] == "bin" and ((st[2][1] in ("Div", "DivUnchecked") and op_const_int(st[2][3]) == 2)
                                                           or (st[2][1] in ("Shr", "ShrUnchecked") and op_const_int(st[2][3]) == 1)):
                    halves = True
        if not halves:
            return "%s recurses without halving its length" % p
    return None


# frozenset of function paths -> (bound, structural check or None, finding)
REVIEWED = [
    ({"jxl_coding::Decoder::parse", "jxl_coding::Decoder::parse_assume_no_lz77", "jxl_coding::DecoderInner::parse", "jxl_coding::read_clusters"},
     "depth <= 3: the cluster map is coded with a decoder for one distribution; that decoder may enable LZ77 (one more distribution) only "
     "when the map has more than two distributions, and read_clusters returns at once for one distribution", check_clusters, False),
    # the same cycle with the no-LZ77 variant of the parser written out in read_clusters
    ({"jxl_coding::Decoder::parse", "jxl_coding::DecoderInner::parse", "jxl_coding::read_clusters"},
     "depth <= 3: as above, the LZ77 prohibition for small maps written inline", check_clusters, False),
    ({"jxl_modular::ma::MaTreeNode::next_decision_node"},
     "depth <= depth of the MA tree, which the parser limits (depth_limit, named in R-LIMIT)", check_ma_depth, False),
    ({"jxl_render::vardct::generic::dct::dct"}, "depth log2(n), n <= 256: the slice is halved at every level", check_halving, False),
    ({"jxl_render::vardct::x86_64::dct::dct"}, "depth log2(n), n <= 256: the slice is halved at every level", check_halving, False),
    ({"jxl_render::blend::blend", "jxl_render::image::RenderedImage::<S>::blend", "jxl_render::image::composite"},
     "UNBOUNDED: one level per not-yet-blended reference frame; the file chooses the length of the chain", None, True),
]


def run(ctx, crates):
    rid = "R-RECURSION"
    ctx.rule(rid, "every cycle of the resolved call graph of the library crates (a recursion) is listed with the bound on its depth, and "
                  "the structural fact the bound rests on is checked (constant argument and early exit; the parser's depth limit; halving "
                  "of the slice).  An unlisted cycle, a failed check, or a cycle whose depth is chosen by the input is a violation: the "
                  "decoder can be made to overflow its stack, which aborts the process")
    fns = {f.path: f for f in ctx.prog.all_fns(crates) if f.kind != "Promoted"}
    edges = {}
    for f in fns.values():
        es = set()
        for b, t in f.calls():
            c = callee(t)
            if not c:
                continue
            for nm in (c["fn"], c.get("res")):
                if nm in fns:
                    es.add(nm)
        for blk in f.blocks:
            for st in blk[0]:
                if st[0] == "=" and st[2][0] == "agg" and st[2][1][0] == "closure" and st[2][1][1] in fns:
                    es.add(st[2][1][1])
        edges[f.path] = es
    comps = [c for c in sccs(list(fns), edges) if len(c) > 1 or c[0] in edges.get(c[0], ())]
    ctx.count(rid + ".functions", len(fns))
    ctx.count(rid + ".cycles", len(comps))
    ctx.floor(rid + ".functions", 2000)
    for comp in comps:
        cs = set(comp)
        key = "cycle:" + "+".join(sorted(cs))
        f0 = fns[sorted(cs)[0]]
        ctx.seen(f0)
        ent = next((e for e in REVIEWED if e[0] == cs), None)
        if ent is None:
            ctx.bad(rid, key, "recursion %s is not reviewed: if its depth follows a structure decoded from the input, a hostile file overflows "
                              "the stack (process abort)" % sorted(cs), fn=f0)
            continue
        _, bound, chk, finding = ent
        if finding:
            ctx.bad(rid, key, "recursion %s: %s - a file with a few thousand chained frames overflows the stack and aborts the process"
                    % (sorted(short(x) for x in cs), bound), fn=f0)
            continue
        why = chk(ctx, fns, cs) if chk else None
        if why is None:
            ctx.ok(rid, key, bound, nontrivial=True, fn=f0)
        else:
            ctx.bad(rid, key + "|bound-lost", "recursion %s was bounded (%s) but: %s" % (sorted(short(x) for x in cs), bound, why), fn=f0)
    ctx.floor(rid + ".cycles", 4)

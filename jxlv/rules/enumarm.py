"""R-ENUM-PANIC-ARM: a `match` over an enumeration decoded from the stream has no arm that is an explicit panic for a variant the parsers
accept.  The format's enumerations are decoded with `read_enum` / `TryFrom<u32>`; every code that names a variant is accepted unless a
parser rejects it (a switch on the discriminant, or `== Variant`, whose edge leads to an error return).  A later
`Variant => panic!() / unreachable!() / todo!()` is then reachable from a hostile header unless something outside the type's own
validation excludes it - such sites are listed with the reason."""
from ..facts import callee, op_local, op_place, pos_line
from ..mirutil import Defs
from .. import validation

# (function path suffix, enum short name, variant) -> why the arm cannot be reached
REVIEWED = {
    ("jxl_color::convert::ColorTransform::with_builder", "ColourSpace", "Xyb"):
        "`current_encoding` comes out of the match on the source encoding above, which turns an XYB source into linear sRGB and returns "
        "UnsupportedColorEncoding for every enum colour space other than Rgb / Grey",
    ("jxl_color::convert::ColorTransform::with_builder", "ColourSpace", "Unknown"):
        "as for Xyb: an Unknown source colour space has been answered with UnsupportedColorEncoding before this match",
}


def header_enums(prog, crates):
    """ADT path -> [variant names] for fieldless enums that have a TryFrom<u32> impl (decoded from the stream)"""
    out = {}
    for cn in crates:
        cr = prog.crates.get(cn)
        if cr is None:
            continue
        for path, a in cr.adts.items():
            vs = a["variants"]
            if len(vs) < 2:
                continue
            if any(g.path.startswith("<" + path + " as core::convert::TryFrom<u32>>::try_from") for g in cr.fn_list):
                out[path] = [v["name"] for v in vs]
    return out


def panic_block(f, b, depth=3):
    """does block b (through empty gotos) end in an explicit panic call?"""
    for _ in range(depth):
        t = f.term(b)
        if t[0] == "goto" and not [s for s in f.stmts(b) if s[0] == "="]:
            b = t[1]
            continue
        break
    t = f.term(b)
    if t[0] == "call" and t[4] is None:
        c = callee(t)
        if c and c["fn"].startswith("core::panicking::"):
            return (b, c["fn"].split("::")[-1])
    return None


def enum_of_place(f, p, enums):
    """enum ADT path if place p (a local, or a projection ending in a field) has one of the header enum types"""
    fl = [e for e in p[1:] if isinstance(e, list) and e[0] == "."]
    if not fl and len(p) <= 2:
        ty = f.local_ty(p[0]).lstrip("&").replace("mut ", "").strip()
        return ty if ty in enums else None
    return None


def promoted_variant(prog, f, defs, l, enums):
    """(enum path, variant index) when local l is a reference to a promoted constant enum value"""
    d = None
    for _ in range(4):
        d = defs.single(l) if l is not None else None
        if d and d[2] == "assign" and d[3][2][0] == "ref":
            l = d[3][2][2][0]
            continue
        break
    if not d or d[2] != "assign":
        return None
    rv = d[3][2]
    o = rv[1] if rv[0] == "use" else None
    if o is None or o[0] != "k" or not isinstance(o[1], dict) or not o[1].get("item"):
        return None
    g = prog.fn(o[1]["item"])
    if g is None:
        return None
    for blk in g.blocks:
        for st in blk[0]:
            if st[0] == "=" and st[2][0] == "agg" and st[2][1][0] == "adt" and st[2][1][1] in enums:
                return (st[2][1][1], st[2][1][3])
    return None


def scan(prog, f, enums):
    """[(block, enum path, variant index, target block)] decisions of f on a header enum: discriminant switches and `== Variant`"""
    out = []
    defs = None
    for b, blk in enumerate(f.blocks):
        if blk[2] or blk[1][0] != "switch":
            continue
        t = blk[1]
        l = op_local(t[1])
        if l is None:
            continue
        if defs is None:
            defs = Defs(f)
        d = defs.single(l)
        if not d:
            continue
        if d[2] == "assign" and d[3][2][0] == "discr":
            p = d[3][2][1]
            # the scrutinee: a local of enum type, a deref of a reference to one, or a field of enum type
            ty = None
            fl = [e for e in p[1:] if isinstance(e, list) and e[0] == "."]
            if fl:
                ty = None
                # type of a projected field: look the field up in the ADT table
                adt, name = fl[-1][3], fl[-1][2]
                cn = str(adt).split("::")[0] if adt else None
                a = prog.crates[cn].adts.get(adt) if cn in prog.crates else None
                if a:
                    for v in a["variants"]:
                        for x in v["fields"]:
                            if x[0] == name and x[1] in enums:
                                ty = x[1]
            else:
                ty = enum_of_place(f, p, enums)
            if ty is None:
                continue
            listed = {int(v) for v, _ in t[2]}
            for v, tgt in t[2]:
                out.append((b, ty, int(v), tgt))
            for i in range(len(enums[ty])):
                if i not in listed:
                    out.append((b, ty, i, t[3]))
        elif d[2] == "call":
            c = callee(d[3])
            if c and c["fn"].endswith("PartialEq::eq") and len(d[3][2]) == 2:
                for x, y in ((d[3][2][0], d[3][2][1]), (d[3][2][1], d[3][2][0])):
                    pv = promoted_variant(prog, f, defs, op_local(y), enums)
                    if pv:
                        true_t = t[3]
                        out.append((b, pv[0], pv[1], true_t))
                        break
    return out


def only_errors_from(f, start, errs):
    """with constants propagated (a `matches!` result kept in a bool and tested later), does every path from `start` end in an error
    return?"""
    from ..mirutil import const_walk
    bad = []
    found = []

    def on_term(bb, t, e, val_of):
        if bb in errs:
            found.append(bb)
            return False
        if t[0] == "ret":
            bad.append(bb)
            return False

    try:
        const_walk(f, start, {}, on_term, limit=400)
    except RuntimeError:
        return False
    return bool(found) and not bad


def run(ctx, crates):
    rid = "R-ENUM-PANIC-ARM"
    ctx.rule(rid, "for every enumeration of the format that is decoded from the stream (fieldless enum with TryFrom<u32>): no decision on its "
                  "value (discriminant switch, or `== Variant`) sends a variant to an explicit panic (panic!/unreachable!/todo!) unless some "
                  "parser rejects that variant (the same kinds of decision leading to an error return) or the site is reviewed")
    prog = ctx.prog
    enums = header_enums(prog, crates)
    ctx.count(rid + ".enums", len(enums))
    ctx.floor(rid + ".enums", 8)
    rejected = set()
    decisions = []
    for f in prog.all_fns(crates):
        if f.kind == "Promoted":
            continue
        ds = scan(prog, f, enums)
        if not ds:
            continue
        # only a parser (a function handed the bit reader) can reject a code for everybody downstream
        is_parser = any("Bitstream" in f.local_ty(i) for i in range(1, f.argc + 1))
        errs = validation.err_return_blocks(f) if is_parser else set()
        for b, ty, vi, tgt in ds:
            if errs and (validation.leads_to_error(f, tgt, errs) or only_errors_from(f, tgt, errs)):
                rejected.add((ty, vi))
            decisions.append((f, b, ty, vi, tgt))
    ctx.count(rid + ".decisions", len(decisions))
    n = 0
    seen = set()
    for f, b, ty, vi, tgt in decisions:
        pb = panic_block(f, tgt)
        if pb is None:
            continue
        if f.path.startswith("<" + ty) and "TryFrom" in f.path:
            continue
        vname = enums[ty][vi]
        short = ty.split("::")[-1]
        key = "panic-arm:%s|%s::%s" % (f.path, short, vname)
        if key in seen:
            continue
        seen.add(key)
        n += 1
        ctx.seen(f)
        rev = next((w for (suf, e, v), w in REVIEWED.items() if f.path.endswith(suf) and e == short and v == vname), None)
        if (ty, vi) in rejected:
            ctx.ok(rid, key, "%s::%s is rejected by a parser before it can get here" % (short, vname), nontrivial=True, fn=f)
        elif rev:
            ctx.ok(rid, key, "reviewed: " + rev, nontrivial=True, fn=f)
        else:
            ctx.bad(rid, key, "%s sends %s::%s to an explicit %s (line %d), and no parser rejects that variant: a header that carries this code "
                              "makes the call panic" % (f.path, short, vname, pb[1], pos_line(f.term_pos(pb[0]))), fn=f, pos=f.term_pos(pb[0]))
    ctx.count(rid + ".panic-arms", n)

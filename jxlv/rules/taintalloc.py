"""R-LIMIT layer 1: a size that comes straight from the bitstream with no useful static bound (width-implied maximum >= 2^28)
must be compared (ordering comparison, dominating) or clamped by min() before it sizes an allocation or a take()/loop bound in the
same function.  Intraprocedural value-class taint on MIR; complements the table of named limits."""
from ..facts import callee, op_local, op_place, op_const_int, pos_line
from ..mirutil import Defs, TRY_BRANCH
from .rawint import UF, ORDER_OPS, ORDER_CALLS, SOURCE_FNS, UNPACK_FNS
from ..bitspec import u32_arg

BS = "jxl_bitstream::bitstream::Bitstream::<'_>::"
SINKS = {
    "alloc::vec::Vec::<T>::with_capacity": 0, "alloc::vec::Vec::<T, A>::with_capacity_in": 0,
    "alloc::vec::from_elem": 1, "alloc::vec::Vec::<T, A>::resize": 1, "alloc::vec::Vec::<T, A>::resize_with": 1,
    "alloc::vec::Vec::<T, A>::reserve": 1, "alloc::vec::Vec::<T, A>::try_reserve": 1, "alloc::vec::Vec::<T, A>::reserve_exact": 1,
    "alloc::collections::vec_deque::VecDeque::<T>::with_capacity": 0, "alloc::string::String::with_capacity": 0,
    "core::iter::traits::iterator::Iterator::take": 1, "jxl_grid::alloc_tracker::AllocTracker::alloc": 1,
    "core::iter::repeat_n": 1, "core::iter::sources::repeat_n::repeat_n": 1,
}
BIG = 28


def source_of(fn, defs, t, prog):
    c = callee(t)
    if not c:
        return None
    n = c["fn"]
    if n in SOURCE_FNS or n == "jxl_color::icc::decode::varint":
        return n.split("::")[-1]
    if n == BS + "read_u64":
        return "read_u64"
    if n == BS + "read_bits" and len(t[2]) > 1:
        k = op_const_int(t[2][1])
        if k is None or k >= BIG:
            return "read_bits(%s)" % ("n" if k is None else k)
    if n == BS + "read_u32":
        for a in t[2][1:]:
            d = u32_arg(fn, defs, a, prog)
            if "u(" in d:
                try:
                    bits = int(d.split("u(")[1].split(")")[0])
                except ValueError:
                    bits = 64
                if bits >= BIG:
                    return "read_u32(..%s..)" % d
    return None


def analyse(prog, fn):
    defs = Defs(fn)
    roots = {}
    for b, t in fn.calls():
        if len(t[3]) != 1:
            continue
        s = source_of(fn, defs, t, prog)
        if s:
            roots[t[3][0]] = s
    if not roots:
        return [], 0
    uf = UF()
    for b, blk in enumerate(fn.blocks):
        if fn.is_cleanup(b):
            continue
        for st in blk[0]:
            if st[0] != "=" or len(st[1]) != 1:
                continue
            dst = st[1][0]
            rv = st[2]
            if rv[0] == "use":
                p = op_place(rv[1])
                if p is not None:
                    uf.union(dst, p[0])
            elif rv[0] == "cast" and rv[1] == "IntToInt":
                p = op_place(rv[2])
                if p is not None and len(p) == 1:
                    uf.union(dst, p[0])
        t = blk[1]
        if t[0] == "call" and len(t[3]) == 1:
            c = callee(t)
            if c and (c["fn"] == TRY_BRANCH or c["fn"] in UNPACK_FNS) and t[2]:
                p = op_place(t[2][0])
                if p is not None:
                    uf.union(t[3][0], p[0])
    origin = {uf.find(l): o for l, o in roots.items()}
    guards = {}

    def mono_slice(l, depth=0, acc=None):
        """classes the (non-negative) value l is a monotone function of: through + and * and casts/moves"""
        if acc is None:
            acc = set()
        r = uf.find(l)
        if r in acc or depth > 8:
            return acc
        acc.add(r)
        for i in range(len(fn.locals)):
            if uf.find(i) != r:
                continue
            for d in defs.of(i):
                if d[2] != "assign":
                    continue
                rv = d[3][2]
                if rv[0] == "bin" and rv[1].replace("WithOverflow", "").replace("Unchecked", "") in ("Add", "Mul"):
                    for o in (rv[2], rv[3]):
                        p = op_place(o)
                        if p is not None:
                            mono_slice(p[0], depth + 1, acc)
        return acc

    def scan_guards():
        guards.clear()
        for b, blk in enumerate(fn.blocks):
            for st in blk[0]:
                if st[0] == "=" and st[2][0] == "bin" and st[2][1] in ORDER_OPS:
                    for o in (st[2][2], st[2][3]):
                        l = op_local(o)
                        if l is not None:
                            for r in mono_slice(l):
                                guards.setdefault(r, set()).add(b)
            t = blk[1]
            if t[0] == "call":
                c = callee(t)
                if c and (c["fn"] in ORDER_CALLS or c["fn"].split("::")[-1] in ("min", "clamp", "checked_sub")):
                    for a in t[2]:
                        l = op_local(a)
                        if l is not None:
                            guards.setdefault(uf.find(l), set()).add(b)
                            d = defs.single(l)
                            if d and d[2] == "assign" and d[3][2][0] == "ref" and len(d[3][2][2]) == 1:
                                guards.setdefault(uf.find(d[3][2][2][0]), set()).add(b)

    def guarded(l, b):
        return any(fn.dominates(g, b) for g in guards.get(uf.find(l), ()))

    # derived taint through arithmetic (result unbounded if an unguarded tainted operand)
    changed = True
    rounds = 0
    while changed and rounds < 8:
        rounds += 1
        changed = False
        scan_guards()
        for b, blk in enumerate(fn.blocks):
            if fn.is_cleanup(b):
                continue
            for st in blk[0]:
                if st[0] == "=" and st[2][0] == "bin" and len(st[1]) == 1 and st[2][1].replace("WithOverflow", "").replace("Unchecked", "") in ("Add", "Sub", "Mul", "Shl"):
                    for o in (st[2][2], st[2][3]):
                        l = op_local(o)
                        if l is not None and uf.find(l) in origin and not guarded(l, b):
                            r = uf.find(st[1][0])
                            if r not in origin:
                                origin[r] = origin[uf.find(l)]
                                changed = True
            t = blk[1]
            if t[0] == "call" and len(t[3]) == 1:
                c = callee(t)
                if c and c["fn"].split("::")[-1] in ("min",) and len(t[2]) == 2:
                    continue
    findings = []
    for b, t in fn.calls():
        c = callee(t)
        if not c:
            continue
        idx = SINKS.get(c["fn"])
        if idx is None or len(t[2]) <= idx:
            continue
        l = op_local(t[2][idx])
        if l is None or uf.find(l) not in origin:
            continue
        if guarded(l, b):
            continue
        nm = None
        for i in range(len(fn.locals)):
            if fn.local_name(i) and uf.find(i) == uf.find(l):
                nm = fn.local_name(i)
                break
        findings.append(dict(pos=t[-2], sink=c["fn"].split("::")[-1], origin=origin[uf.find(l)], name=nm or origin[uf.find(l)]))
    return findings, len(roots)


def run(ctx, crates):
    rid = "R-LIMIT-TAINT"
    ctx.rule(rid, "a value read with no useful static bound (read_u64, read_bits(n >= 28 or variable), read_u32 with a u(n >= 28) branch, "
                  "hybrid-uint reads, ICC varints; through moves, casts, `?`, + - * <<) does not size Vec::with_capacity / vec![_; n] / "
                  "resize / reserve / take / repeat_n / AllocTracker::alloc in the same function unless an ordering comparison or min()/"
                  "clamp() on it dominates the sink")
    tot = 0
    for f in ctx.prog.all_fns(crates):
        if f.kind == "Promoted":
            continue
        findings, n = analyse(ctx.prog, f)
        if not n:
            continue
        tot += n
        ctx.count(rid + ".sources", n)
        ctx.seen(f)
        if not findings:
            ctx.ok(rid, "fn:" + f.path, "%d unbounded reads; none sizes an allocation unguarded" % n, fn=f)
        for x in findings:
            ctx.bad(rid, "%s|%s<-%s" % (f.path, x["sink"], x["name"]),
                    "`%s` (from %s) sizes %s at line %d with no dominating bound check: a few bytes of input can request an arbitrarily large "
                    "allocation / loop" % (x["name"], x["origin"], x["sink"], pos_line(x["pos"])), fn=f, pos=x["pos"])
    ctx.floor(rid + ".sources", 60)

"""C01 — decoding untrusted bytes is total (claimed in part): R-LIMIT, R-RAWINT, R-EOF, R-BLOCK."""
from ..engine import Ctx, LIB_CRATES
from . import rawint, limit, block


def main(pid, tier, repo=None):
    configs = ("workspace",) if tier == "quick" else ("workspace", "norayon")
    ctx = Ctx(pid, tier, configs=configs, repo=repo)
    for cfg in configs:
        ctx.use_config(cfg)
        rawint.run(ctx, LIB_CRATES)
        limit.run(ctx, LIB_CRATES)
        block.run_block(ctx, LIB_CRATES)
        block.run_eof_bitstream(ctx)
    return ctx.finish("R-LIMIT/R-RAWINT/R-EOF/R-BLOCK on MIR")

"""C01 — decoding untrusted bytes is total (claimed in part): R-LIMIT, R-RAWINT, R-EOF, R-BLOCK."""
from ..engine import Ctx, LIB_CRATES
from . import rawint, limit, block, taintalloc, fieldrange, signidx, searchunwrap, recursion, enumarm, fixguards


def main(pid, tier, repo=None):
    configs = ("workspace",) if tier == "quick" else ("workspace", "norayon")
    ctx = Ctx(pid, tier, configs=configs, repo=repo)
    for cfg in configs:
        ctx.use_config(cfg)
        rawint.run(ctx, LIB_CRATES)
        fieldrange.run(ctx, LIB_CRATES)
        signidx.run(ctx, LIB_CRATES)
        searchunwrap.run(ctx, LIB_CRATES)
        searchunwrap.rule_pass_chain(ctx)
        recursion.run(ctx, LIB_CRATES)
        enumarm.run(ctx, LIB_CRATES)
        fixguards.run(ctx, pid)
        from . import apiunwrap
        apiunwrap.run(ctx)
        from . import c05 as _c05, c06 as _c06
        _c05.rule_alpha_region(ctx)      # D43 / D48 panicked (row index out of range) as well as mis-blending
        _c06.rule_base_region(ctx)       # D41 / D47: out-of-range subgrid of the base planes
        limit.run(ctx, LIB_CRATES)
        from . import c04 as _c04
        _c04.rule_hybrid_config(ctx)      # the hybrid-uint limits (shift amounts), decided by evaluation instead of by spelling
        taintalloc.run(ctx, LIB_CRATES)
        block.run_block(ctx, LIB_CRATES)
        block.run_eof_bitstream(ctx)
        from . import c09
        c09.rule_init_offsets(ctx)
        # the one place a decode call can block: the render-handle wait (shared with C08/C20)
        from . import proto
        infos = proto.scan_all(ctx)
        proto.rule_rendering(ctx, infos)
        proto.rule_done_render(ctx, infos)
        proto.rule_wait(ctx, infos)
        proto.rule_nolock(ctx, infos)     # a guard held across a call that locks the same handle never returns
        proto.rule_pool_wait(ctx)
    ctx.not_decided("absence of panics in general (thousands of overflow/bounds asserts depend on invariants established elsewhere)")
    ctx.not_decided("termination of loops whose trip count is validated in another function; Brotli output size")
    return ctx.finish(
        "The mechanisms the property names, decided on MIR for every input: (R-FIELDRANGE) header fields with a width-implied range never "
        "reach an overflow-checked operation, shift, division or fixed-size array index they can break (interval abstract interpretation; "
        "found the `length-minus-header` panics D9-D11); (R-SEARCH-UNWRAP, R-PASS-CHAIN) no predicate search over decoded data is "
        "unwrapped, and the one reviewed exception's invariant - the pass table is a complete chain - is kept by construction (found "
        "D13-D15); (R-RAWINT) raw entropy-decoded integers never reach "
        "panicking 32-bit arithmetic, shift amounts, divisors, negation or abs() without a dominating ordering comparison - every "
        "report is a reachable panic because the stream chooses the integer configuration; (R-LIMIT) the named input limits exist as "
        "compare->error checks with the reviewed bound; (R-EOF) the bit counter is only decreased through checked_sub and end of data "
        "is an error value; (R-BLOCK) no blocking primitive besides the render-handle wait, no lock re-acquired while held, and the "
        "wait itself cannot be stranded (R-RENDERING / R-PROTO-* of C08/C20).")

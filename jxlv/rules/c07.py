"""C07 — output does not depend on threads, scheduling or repetition (claimed in part):
R-NONDET (bans + census), R-PARSTATE (what parallel closures share), R-ERRSLOT (monotone error slots), R-LAZY."""
from ..engine import Ctx, LIB_CRATES
from ..facts import callee, op_local, op_place, pos_line
from ..mirutil import Defs, access_path, alias_closure, find_path_edges, switch_subject, name_match

DECODER_CRATES = [c for c in LIB_CRATES if c != "jxl_threadpool"]

BANNED = [
    ("rayon_core::current_num_threads", "pool size"),
    ("rayon_core::current_thread_index", "worker identity"),
    ("rayon_core::max_num_threads", "pool size"),
    ("rayon_core::thread_pool::ThreadPool::current_num_threads", "pool size"),
    ("rayon_core::thread_pool::ThreadPool::current_thread_index", "worker identity"),
    ("rayon::current_num_threads", "pool size"),
    ("std::thread::current", "thread identity"),
    ("std::thread::available_parallelism", "machine parallelism"),
    ("std::thread::Thread::id", "thread identity"),
    ("std::time::Instant::now", "wall clock"),
    ("std::time::SystemTime::now", "wall clock"),
    ("std::env::*", "process environment"),
    ("std::hash::random::RandomState::new", "per-process random hash seed"),
    ("std::process::id", "process identity"),
    ("jxl_threadpool::JxlThreadPool::is_multithreaded", "pool kind"),
    ("jxl_threadpool::JxlThreadPool::as_rayon_pool", "pool kind"),
]
BANNED_ALLOWED = {
    # (function, callee) -> reason the value cannot reach output
    ("jxl_render::RenderContext::spawn_renderer", "jxl_threadpool::JxlThreadPool::is_multithreaded"):
        "only decides whether a background render task is spawned at all (returns early otherwise); no value derived from it",
}

HASH_ITER = [
    "std::collections::hash::map::HashMap::<K, V, S>::iter", "std::collections::hash::map::HashMap::<K, V, S>::iter_mut",
    "std::collections::hash::map::HashMap::<K, V, S>::keys", "std::collections::hash::map::HashMap::<K, V, S>::values",
    "std::collections::hash::map::HashMap::<K, V, S>::values_mut", "std::collections::hash::map::HashMap::<K, V, S>::drain",
    "std::collections::hash::map::HashMap::<K, V, S>::retain", "std::collections::hash::map::HashMap::<K, V, S>::into_keys",
    "std::collections::hash::map::HashMap::<K, V, S>::into_values", "std::collections::hash::map::HashMap::<K, V, S>::extract_if",
    "std::collections::hash::set::HashSet::<T, S>::iter", "std::collections::hash::set::HashSet::<T, S>::drain",
    "std::collections::hash::set::HashSet::<T, S>::retain", "std::collections::hash::set::HashSet::<T, S>::union",
    "std::collections::hash::set::HashSet::<T, S>::intersection", "std::collections::hash::set::HashSet::<T, S>::difference",
]
HASH_ITER_METHODS = {"iter", "iter_mut", "keys", "values", "values_mut", "drain", "retain", "into_keys", "into_values", "extract_if",
                     "union", "intersection", "difference", "symmetric_difference"}
HASH_ITER_ALLOWED = {
    # function -> reason the iteration order cannot reach the output
    "jxl_render::filter::epf::apply_epf": "scatter by key: each (idx, group) writes sigma_grid_map[idx]; distinct keys, order-insensitive",
}

EXPECTED_STATICS_INTERIOR = {
    "jxl_render::vardct::dct_common::sec_half::SEC_HALF_LARGE": "Mutex<BTreeMap>: insert-once per key, value a pure function of the key (R-LAZY)",
    "jxl_vardct::hf_pass::natural_order_lazy::INITIALIZER": "Once array guarding LARGE_NATURAL_ORDER (R-LAZY)",
    "jxl_vardct::hf_pass::natural_order_lazy::LARGE_NATURAL_ORDER": "static mut written once under Once::call_once (R-LAZY)",
}
EXPECTED_ATOMIC_FIELDS = {
    ("jxl_frame::AllGroupOffsets", "lf_group"), ("jxl_frame::AllGroupOffsets", "hf_global"),
    ("jxl_frame::AllGroupOffsets", "pass_group"), ("jxl_frame::AllGroupOffsets", "has_error"),
    ("jxl_grid::alloc_tracker::AllocTrackerInner", "bytes_left"),
}
EXPECTED_THREAD_LOCALS = {"jxl_oxide::lcms2::LCMS2_CTX"}

POOL_FNS = ("spawn", "scope", "for_each_vec", "for_each_vec_with", "for_each_mut_slice", "for_each_mut_slice_with")
POOL_PREFIX = ("jxl_threadpool::JxlThreadPool::", "jxl_threadpool::JxlScope::")

SYNC_MARKERS = ("std::sync::poison::mutex::Mutex<", "std::sync::poison::rwlock::RwLock<", "core::sync::atomic::Atomic",
                "core::cell::Cell<", "core::cell::RefCell<", "core::cell::UnsafeCell<", "*mut ", "*const ",
                "std::sync::mpsc", "std::sync::poison::condvar::Condvar", "std::sync::once_lock::OnceLock<")

# shared mutable captures of parallel closures that were reviewed: (enclosing fn prefix, capture name) -> reason
PARSTATE_ALLOWED = {
    ("jxl_color::convert::ColorTransform::run_with_threads", "ret"): "error slot (R-ERRSLOT)",
    ("jxl_jbr::reconstruct::JpegBitstreamReconstructor::<'jbrd, 'frame, 'meta>::new", "result"): "error slot (R-ERRSLOT)",
    ("jxl_jbr::reconstruct::JpegBitstreamReconstructor::<'jbrd, 'frame, 'meta>::new", "hf_global_out"):
        "written by exactly one task (the HfGlobal parser), read after the scope joins",
    ("jxl_render::features::noise::init_noise", "result"): "error slot (R-ERRSLOT)",
    ("jxl_render::modular::render_modular", "result"): "error slot (R-ERRSLOT)",
    ("jxl_render::util::load_lf_groups", "result"): "error slot (R-ERRSLOT)",
    ("jxl_render::vardct::render_vardct", "result"): "error slot (R-ERRSLOT)",
}


def rule_nondet(ctx):
    rid = "R-NONDET"
    ctx.rule(rid, "who-may-call: no decoder crate (everything except jxl-threadpool) calls a pool-size, thread-identity, clock, "
                  "environment or random-seed API; hash containers are never iterated; exact census of thread_locals, "
                  "interior-mutable statics and atomic fields")
    prog = ctx.prog
    for f in prog.all_fns(DECODER_CRATES):
        for b, t in f.calls():
            c = callee(t)
            if not c:
                continue
            names = [c["fn"]] + ([c["res"]] if "res" in c else [])
            for pat, why in BANNED:
                if any(name_match(pat, n) for n in names):
                    ctx.count(rid + ".banned-sites")
                    k = (f.path, c["fn"])
                    if k in BANNED_ALLOWED:
                        ctx.ok(rid, "banned-allowed:%s->%s" % k, BANNED_ALLOWED[k], fn=f)
                    else:
                        ctx.bad(rid, "banned-call:%s->%s" % k,
                                "%s calls %s (%s): a schedule- or environment-dependent value enters the decoder" % (f.path, c["fn"], why),
                                fn=f, pos=t[-2])
            # hash iteration
            hit = None
            for n in names:
                if n in HASH_ITER:
                    hit = n
                if n.startswith(("std::collections::hash::map::HashMap::<", "std::collections::hash::set::HashSet::<")) and \
                        n.split("::")[-1] in HASH_ITER_METHODS:
                    hit = n
                if n.startswith("<") and ("std::collections::hash::map::HashMap<" in n.split(" as ")[0] or "std::collections::hash::set::HashSet<" in n.split(" as ")[0]) \
                        and n.endswith("core::iter::traits::collect::IntoIterator>::into_iter"):
                    hit = n
            if hit:
                ctx.count(rid + ".hash-iteration-sites")
                if f.path in HASH_ITER_ALLOWED:
                    ctx.ok(rid, "hash-iter-allowed:" + f.path, HASH_ITER_ALLOWED[f.path], fn=f)
                else:
                    ctx.bad(rid, "hash-iteration:%s->%s" % (f.path, hit.split("::")[-1]),
                            "a HashMap/HashSet is iterated (%s): the order depends on the per-process random seed" % hit, fn=f, pos=t[-2])
        ctx.seen(f)
    ctx.ok(rid, "ban-census", "%d functions scanned for %d banned APIs" % (len(list(prog.all_fns(DECODER_CRATES))), len(BANNED)))
    # statics / thread locals / atomics census
    for cn in DECODER_CRATES:
        cr = prog.crate(cn)
        for s in cr.statics:
            if "tracing" in s["ty"] or "__CALLSITE" in s["path"] or s["path"].endswith("::META"):
                continue
            is_tl = s["thread_local"] or "std::thread::local::LocalKey<" in s["ty"] or "::__RUST_STD_INTERNAL_VAL" in s["path"] or "thread::local" in s["ty"]
            if is_tl:
                base = s["path"].split("::__")[0].split("::{")[0]
                if any(base.startswith(e) for e in EXPECTED_THREAD_LOCALS):
                    ctx.ok(rid, "thread-local:" + base, "reviewed: lcms2 context is per-thread scratch, not decoder state")
                else:
                    ctx.bad(rid, "thread-local:" + base, "new thread-local state %s: per-thread state makes results depend on which thread runs a task" % s["path"])
                continue
            if s["mut"] or not s["freeze"]:
                cls = static_class(s)
                if cls is not None:
                    ctx.ok(rid, "static:%s" % cls, "%s (usage obligations checked by R-LAZY)" % s["path"])
                    ctx.count(rid + ".shared-statics")
                else:
                    ctx.bad(rid, "static:" + s["path"], "new mutable / interior-mutable static %s: %s - shared state across renders and threads "
                            "of a kind that has no reviewed discipline (Once, static mut under Once, Mutex-guarded memo table)" % (s["path"], s["ty"]))
        for ap, adt in cr.adts.items():
            for v in adt["variants"]:
                for fl in v["fields"]:
                    if "core::sync::atomic::Atomic" in fl[1]:
                        k = (ap, fl[0])
                        if k in EXPECTED_ATOMIC_FIELDS:
                            ctx.ok(rid, "atomic-field:%s.%s" % k, "reviewed")
                        else:
                            ctx.bad(rid, "atomic-field:%s.%s" % k, "new atomic field: cross-thread shared state that needs its own argument")


def static_class(s):
    """kind of a mutable / interior-mutable static by its type (names are not relied upon)"""
    ty = s["ty"]
    if ty.replace(" ", "").startswith("[std::sync::once::Once;") or ty == "std::sync::once::Once":
        return "once:" + s["path"].split("::")[0]
    if s["mut"]:
        return "static-mut-under-once:" + s["path"].split("::")[0]
    if ty.startswith("std::sync::poison::mutex::Mutex<") and ("BTreeMap<" in ty or "HashMap<" in ty):
        return "mutex-memo:" + s["path"].split("::")[0]
    return None


def closure_of_arg(f, defs, o):
    l = op_local(o)
    seen = set()
    while l is not None and l not in seen:
        seen.add(l)
        d = defs.single(l)
        if not d or d[2] != "assign":
            return None
        rv = d[3][2]
        if rv[0] == "agg" and rv[1][0] == "closure":
            return rv[1][1]
        if rv[0] == "use":
            l = op_local(rv[1])
        else:
            return None
    return None


def rule_parstate(ctx):
    rid = "R-PARSTATE"
    ctx.rule(rid, "every closure handed to JxlThreadPool/JxlScope captures only by-value disjoint views, shared references to "
                  "data without interior mutability, or a reviewed lock-protected slot; any other Mutex/RwLock/Atomic/Cell/raw "
                  "pointer capture is reported")
    prog = ctx.prog
    for f in prog.all_fns(DECODER_CRATES):
        defs = None
        for b, t in f.calls():
            c = callee(t)
            if not c or not c["fn"].startswith(POOL_PREFIX) or c["fn"].split("::")[-1] not in POOL_FNS:
                continue
            ctx.count(rid + ".pool-calls")
            if defs is None:
                defs = Defs(f)
            cp = closure_of_arg(f, defs, t[2][-1])
            if cp is None:
                ctx.bad(rid, "opaque-task:%s->%s" % (f.path, c["fn"].split("::")[-1]), "the task given to the pool is not a closure literal; cannot enumerate what it shares", fn=f, pos=t[-2])
                continue
            cf = prog.fn(cp)
            if cf is None:
                ctx.anchor_missing(rid, cp)
                continue
            ctx.seen(cf)
            root = f.path.split("::{closure")[0]
            for cap in cf.captures:
                name, ty, mode, freeze = cap
                ctx.count(rid + ".captures")
                suspicious = any(m in ty for m in SYNC_MARKERS)
                # a by-ref capture of a non-Freeze concrete type (interior mutability somewhere inside)
                generic = False
                if not suspicious and freeze is False and mode.startswith("ref"):
                    suspicious = not is_known_benign_nonfreeze(ty)
                if not suspicious:
                    ctx.ok(rid, "capture:%s:%s" % (cp, name), None, fn=cf)
                    continue
                base = name.split(".")[0].lstrip("*")
                key = (root, base)
                if key in PARSTATE_ALLOWED:
                    ctx.ok(rid, "shared-slot:%s:%s" % (root, base), PARSTATE_ALLOWED[key], nontrivial=True, fn=cf)
                else:
                    ctx.bad(rid, "shared-capture:%s:%s" % (root, base),
                            "parallel task %s captures `%s: %s` (%s), which has interior mutability / is a raw pointer: tasks can "
                            "communicate through it in schedule order" % (cp, name, ty, mode), fn=cf, pos=t[-2])
    ctx.floor(rid + ".pool-calls", 20)
    ctx.floor(rid + ".captures", 60)


BENIGN_NONFREEZE = (
    # types that are not Freeze only because of a generic parameter or because they contain reviewed atomics
    "jxl_threadpool::JxlThreadPool", "jxl_grid::alloc_tracker::AllocTracker", "jxl_frame::Frame", "jxl_render::IndexedFrame",
    "jxl_image::ImageHeader", "jxl_frame::data::lf_global::LfGlobal", "jxl_frame::data::hf_global::HfGlobal",
    "jxl_frame::data::lf_group::LfGroup", "jxl_frame::FrameContext", "jxl_render::state::RenderCache",
)


def is_known_benign_nonfreeze(ty):
    t = ty
    while t.startswith("&"):
        t = t[1:].lstrip()
        if t.startswith("mut "):
            t = t[4:]
        if t.startswith("'"):
            t = t.split(" ", 1)[1] if " " in t else t
    for b in BENIGN_NONFREEZE:
        if t.startswith(b) or t.startswith("core::option::Option<&" + b) or t.startswith("core::option::Option<" + b):
            return True
    # generic parameters (S, T, F ...) are not known to be Freeze; they carry samples / closures, not shared cells
    return True if ("<" not in t and "::" not in t) else generic_only(t)


def generic_only(t):
    # slices / arrays / tuples / std containers of plain data: the non-Freeze verdict comes from a type parameter
    return True


# ---------------------------------------------------------------------------------------
GUARD_TYPES = ("std::sync::poison::rwlock::RwLockWriteGuard<", "std::sync::poison::mutex::MutexGuard<")


def slot_guard_ty(ty):
    for g in GUARD_TYPES:
        if ty.startswith(g):
            inner = ty[len(g):]
            # strip lifetime
            if inner.startswith("'"):
                inner = inner.split(", ", 1)[1] if ", " in inner else inner
            return inner.startswith("core::result::Result<")
    return False


def rule_errslot(ctx):
    rid = "R-ERRSLOT"
    ctx.rule(rid, "every store through a lock guard into a shared Result slot is monotone: an Err(..) aggregate, a value on the "
                  "Err edge of its own discriminant / is_err() test, or guarded by is_ok() of the slot under the same guard; a "
                  "store that can put Ok over Err makes success depend on which task finished last")
    prog = ctx.prog
    for f in prog.all_fns(DECODER_CRATES):
        if not any(slot_guard_ty(l[0]) for l in f.locals):
            continue
        defs = Defs(f)
        ctx.seen(f)
        for b, blk in enumerate(f.blocks):
            if f.is_cleanup(b):
                continue
            for i, st in enumerate(blk[0]):
                if st[0] != "=" or len(st[1]) != 2 or st[1][1] != "*":
                    continue
                ap = access_path(f, defs, st[1][0], stop=lambda x: slot_guard_ty(f.local_ty(x)))
                if not ap or ap[1] or not slot_guard_ty(f.local_ty(ap[0])):
                    continue
                guard = ap[0]
                ctx.count(rid + ".stores")
                verdict, how = classify_store(f, defs, b, st, guard)
                key = "%s" % f.path
                if verdict:
                    ctx.ok(rid, "store:%s@%s" % (key, how), how, nontrivial=True, fn=f)
                else:
                    ctx.bad(rid, "%s|store-Ok" % key,
                            "a parallel task stores a value that may be Ok into the shared result slot without checking that the slot "
                            "is still Ok (line %d): an Err written by another task is overwritten, so success depends on scheduling"
                            % pos_line(st[3]), fn=f, pos=st[3])
    ctx.floor(rid + ".stores", 12)


def classify_store(f, defs, b, st, guard):
    rv = st[2]
    if rv[0] == "agg" and rv[1][0] == "adt" and rv[1][1] == "core::result::Result":
        if rv[1][2] == "Err":
            return True, "Err-aggregate"
        src = None
    elif rv[0] == "use":
        src = op_local(rv[1])
        # chase to an aggregate
        l = src
        seen = set()
        while l is not None and l not in seen:
            seen.add(l)
            d = defs.single(l)
            if not d:
                break
            if d[2] == "assign":
                r2 = d[3][2]
                if r2[0] == "agg" and r2[1][0] == "adt" and r2[1][1] == "core::result::Result":
                    if r2[1][2] == "Err":
                        return True, "Err-aggregate"
                    break
                if r2[0] == "use":
                    l = op_local(r2[1])
                    continue
                break
            if d[2] == "call":
                c = callee(d[3])
                if c and c["fn"] in ("core::result::Result::<T, E>::map_err",) and d[3][2]:
                    l = op_local(d[3][2][0])
                    src = l
                    continue
                break
            break
    else:
        src = None
    # (b)/(c): the stored value (or what it was mapped from) is known to be Err on every path to the store
    if src is not None:
        srcs = backward_aliases(f, defs, src)
        edges = err_edges(f, defs, srcs)
        if edges:
            path = find_path_edges(f, [0], lambda x: x == b, avoid_edge=lambda x, s, lab: (x, s, lab) in edges)
            if path is None:
                return True, "on-Err-edge-of-stored-value"
    # (d) guarded by is_ok() of the slot under the same guard
    edges = slot_ok_edges(f, defs, guard)
    if edges:
        path = find_path_edges(f, [0], lambda x: x == b, avoid_edge=lambda x, s, lab: (x, s, lab) in edges)
        if path is None:
            return True, "guarded-by-slot-is_ok"
    return False, None


def backward_aliases(f, defs, l):
    """locals the value in l was moved/copied/mapped from (same Result value)"""
    out = {l}
    work = [l]
    while work:
        x = work.pop()
        for d in defs.of(x):
            if d[2] == "assign" and d[3][2][0] == "use":
                p = op_place(d[3][2][1])
                if p is not None and len(p) == 1 and p[0] not in out:
                    out.add(p[0])
                    work.append(p[0])
            elif d[2] == "call":
                c = callee(d[3])
                if c and c["fn"] == "core::result::Result::<T, E>::map_err" and d[3][2]:
                    y = op_local(d[3][2][0])
                    if y is not None and y not in out:
                        out.add(y)
                        work.append(y)
    return out


def err_edges(f, defs, srcs):
    """CFG edges on which one of `srcs` is known to be Err: discriminant switch value 1 (or otherwise when 0 is listed),
    or the true edge of Result::is_err(&src)"""
    edges = set()
    for b in range(len(f.blocks)):
        sub = switch_subject(f, defs, b)
        t = f.term(b)
        if sub and sub[0] == "discr" and len(sub[1]) == 1 and sub[1][0] in srcs:
            vals = {v: x for v, x in t[2]}
            if "1" in vals:
                edges.add((b, vals["1"], "1"))
            if "0" in vals and "1" not in vals:
                edges.add((b, t[3], "otherwise"))
        elif sub and sub[0] == "local":
            # bool from is_err(&src) / is_ok(&src)
            pol = bool_call_subject(f, defs, sub[1], ("core::result::Result::<T, E>::is_err", "core::result::Result::<T, E>::is_ok"))
            if pol is None:
                continue
            name, argroot, neg = pol
            if argroot not in srcs:
                continue
            is_err_true = (name.endswith("is_err")) != neg   # switch value != 0 means "is Err"
            for v, x in t[2]:
                if v == "0" and not is_err_true:
                    edges.add((b, x, v))
            if any(v == "0" for v, _ in t[2]) and is_err_true:
                edges.add((b, t[3], "otherwise"))
    return edges


def bool_call_subject(f, defs, l, names):
    """if bool local l is (possibly negated, possibly &&-combined via moves) the result of a call to one of `names`,
    return (callee, root local of first argument, negated)"""
    neg = False
    seen = set()
    while l is not None and l not in seen:
        seen.add(l)
        d = defs.single(l)
        if not d:
            return None
        if d[2] == "call":
            c = callee(d[3])
            if c and c["fn"] in names and d[3][2]:
                a = op_local(d[3][2][0])
                ap = access_path(f, defs, a) if a is not None else None
                if ap and not ap[1]:
                    return (c["fn"], ap[0], neg)
                if ap:
                    return (c["fn"], ap, neg)
            return None
        if d[2] == "assign":
            rv = d[3][2]
            if rv[0] == "use":
                l = op_local(rv[1])
                continue
            if rv[0] == "un" and rv[1] == "Not":
                neg = not neg
                l = op_local(rv[2])
                continue
        return None
    return None


def slot_ok_edges(f, defs, guard):
    edges = set()
    for b in range(len(f.blocks)):
        sub = switch_subject(f, defs, b)
        if not sub or sub[0] != "local":
            continue
        l = sub[1]
        neg = False
        d = defs.single(l)
        if not d or d[2] != "call":
            continue
        c = callee(d[3])
        if not c or c["fn"] not in ("core::result::Result::<T, E>::is_ok", "core::result::Result::<T, E>::is_err") or not d[3][2]:
            continue
        a = op_local(d[3][2][0])
        ap = access_path(f, defs, a, stop=lambda x: slot_guard_ty(f.local_ty(x))) if a is not None else None
        if not ap or ap[0] != guard or ap[1]:
            continue
        t = f.term(b)
        ok_true = c["fn"].endswith("is_ok")
        for v, x in t[2]:
            if v == "0" and not ok_true:
                edges.add((b, x, v))
        if any(v == "0" for v, _ in t[2]) and ok_true:
            edges.add((b, t[3], "otherwise"))
    return edges


# ---------------------------------------------------------------------------------------
def rule_lazy(ctx):
    rid = "R-LAZY"
    ctx.rule(rid, "lazily built shared tables are write-once, whatever they are called: every access to a `static mut` is either inside "
                  "the closure handed to Once::call_once or dominated by that call_once in the same function; a Mutex-guarded memo map is "
                  "touched only as lock() + entry().or_insert_with() (insert-once per key, value computed from the key); a Once static is "
                  "used only through call_once")
    prog = ctx.prog
    kinds = {}
    for cn in DECODER_CRATES:
        for st_ in prog.crate(cn).statics:
            if "tracing" in st_["ty"] or "__CALLSITE" in st_["path"] or st_["path"].endswith("::META") or st_["thread_local"] or "thread::local" in st_["ty"]:
                continue
            if st_["mut"] or not st_["freeze"]:
                cls = static_class(st_)
                if cls:
                    kinds[st_["path"]] = cls.split(":")[0]
    users = {}
    for f in prog.all_fns(DECODER_CRATES):
        for b, blk in enumerate(f.blocks):
            for st in blk[0]:
                if st[0] == "=" and st[2][0] in ("use",) and st[2][1][0] == "k":
                    sp = st[2][1][1].get("static", "")
                    if sp in kinds:
                        users.setdefault(sp, []).append((f, b, st))
    n_mut = n_memo = 0
    for sp, kind in sorted(kinds.items()):
        us = users.get(sp, [])
        short = sp.split("::")[-1]
        if kind == "static-mut-under-once":
            n_mut += 1
            if not us:
                ctx.ok(rid, "unused-static-mut:" + short, "never accessed")
            for f, b, st in us:
                ctx.seen(f)
                ctx.count(rid + ".static-mut-accesses")
                if f.kind == "Closure" and f.parent:
                    par = prog.fn(f.parent)
                    okc = False
                    if par is not None:
                        pd = Defs(par)
                        for bb, t in par.calls():
                            c = callee(t)
                            if c and c["fn"] == "std::sync::once::Once::call_once" and closure_of_arg(par, pd, t[2][-1]) == f.path:
                                okc = True
                    if okc:
                        ctx.ok(rid, "write-under-once:" + f.path, "static mut accessed in the Once::call_once closure", nontrivial=True, fn=f)
                    else:
                        ctx.bad(rid, "static-mut-outside-once:" + f.path, "%s is accessed in a closure that is not given to Once::call_once" % short, fn=f, pos=st[3])
                else:
                    once = [bb for bb, t in f.calls() if callee(t) and callee(t)["fn"] == "std::sync::once::Once::call_once"]
                    if once and any(f.dominates(o, b) and o != b for o in once):
                        ctx.ok(rid, "read-after-once:" + f.path, "the access is dominated by Once::call_once", nontrivial=True, fn=f)
                    else:
                        ctx.bad(rid, "read-before-once:" + f.path, "%s is accessed on a path that has not passed Once::call_once (data race with the "
                                "initialiser, and a result that depends on who initialised first)" % short, fn=f, pos=st[3])
        elif kind == "mutex-memo":
            n_memo += 1
            for f, b, st in us:
                ctx.seen(f)
                names = [callee(t)["fn"] for _, t in f.calls() if callee(t)]
                need = ["std::sync::poison::mutex::Mutex::<T>::lock"]
                has_entry = any(n.endswith("::entry") and ("BTreeMap" in n or "HashMap" in n) for n in names)
                has_ins = any(n.endswith("::or_insert_with") for n in names)
                other_ops = [n for n in names if ("BTreeMap::<" in n or "HashMap::<" in n) and not n.endswith("::entry")]
                if any(n not in names for n in need) or not has_entry or not has_ins or other_ops:
                    ctx.bad(rid, "memo-shape:" + f.path, "%s is not used as lock() + entry().or_insert_with() only (other map operations: %s): "
                            "entries could be replaced or removed, so the value seen depends on the history" % (short, other_ops or "-"), fn=f)
                else:
                    ctx.ok(rid, "memo-shape:" + f.path, "lock(); map.entry(key).or_insert_with(..)", nontrivial=True, fn=f)
        elif kind == "once":
            for f, b, st in us:
                ctx.seen(f)
    ctx.counts[rid + ".static-mut"] = n_mut
    ctx.counts[rid + ".memo-tables"] = n_memo
    ctx.floor(rid + ".static-mut-accesses", 1)


def rule_scratch(ctx):
    """per-worker scratch handed to the `*_with` pool calls carries nothing from one job to the next"""
    from ..mirutil import find_path_edges, strip_generics
    rid = "R-SCRATCH"
    ctx.rule(rid, "JxlThreadPool::for_each_vec_with / for_each_mut_slice_with give every job a scratch value that is cloned once per worker "
                  "(once in total without a pool) and reused by whatever jobs that worker happens to run: a job must therefore overwrite "
                  "every scratch element it later reads. For a Vec/slice scratch the closure must contain a loop over "
                  "scratch.iter_mut() in which every iteration stores through the element (no path from the element binding back to the "
                  "loop head avoids the store), and every other use of the scratch comes after that loop. Otherwise the value a job "
                  "sees depends on which jobs ran before it on the same worker, i.e. on the pool and the schedule")
    n = 0
    for f in ctx.prog.all_fns(LIB_CRATES):
        for b, t in f.calls():
            c = callee(t)
            if not c:
                continue
            nm = strip_generics(c["fn"])
            if not (nm.endswith("JxlThreadPool::for_each_vec_with") or nm.endswith("JxlThreadPool::for_each_mut_slice_with")):
                continue
            if f.crate == "jxl_threadpool":
                continue
            n += 1
            ctx.seen(f)
            defs = Defs(f)
            cl = op_local(t[2][3]) if len(t[2]) > 3 else None
            d = defs.single(cl) if cl is not None else None
            g = None
            if d and d[2] == "assign" and d[3][2][0] == "agg" and d[3][2][1][0] == "closure":
                g = ctx.prog.fn(d[3][2][1][1])
            key = "scratch:%s" % f.path
            if g is None:
                ctx.bad(rid, key + "|closure-not-found", "cannot find the job closure of a *_with pool call", fn=f, pos=t[-2])
                continue
            ctx.seen(g)
            verdict = scratch_overwritten(g, 2, ctx.prog)
            if verdict is None:
                ctx.ok(rid, key, "every iteration of the scratch.iter_mut() loop stores the element; other uses follow the loop", nontrivial=True, fn=g)
            else:
                ctx.bad(rid, key + "|stale-scratch", "the per-worker scratch of this parallel loop is not fully rewritten by each job (%s): a job "
                        "can read what the previous job on the same worker left, so the output depends on the pool and the schedule" % verdict,
                        fn=g, pos=t[-2])
    ctx.counts[rid + ".sites"] = n
    ctx.floor(rid + ".sites", 1)


def scratch_overwritten(g, SCR=2, prog=None, depth=0):
    """None if the closure g (params: env, scratch, item) rewrites its Vec/slice scratch before use, else a description.
    With `prog`, a scratch handed whole to a helper of the same crate is followed into the helper (SCR = the helper's parameter)."""
    from ..mirutil import find_path_edges, alias_closure, strip_generics
    gd = Defs(g)

    def derives_from_scratch(l, depth=0):
        seen = set()
        while l is not None and l not in seen and depth < 20:
            depth += 1
            seen.add(l)
            if l == SCR:
                return True
            d = gd.single(l)
            if not d:
                return False
            if d[2] == "assign":
                rv = d[3][2]
                pl = rv[2] if rv[0] == "ref" else (op_place(rv[1]) if rv[0] == "use" else None)
                l = pl[0] if pl is not None else None
            elif d[2] == "call":
                c = callee(d[3])
                if c and strip_generics(c["fn"]).split("::")[-1] in ("deref_mut", "deref", "as_mut", "as_mut_slice", "iter_mut", "enumerate", "into_iter", "zip", "skip", "take") and d[3][2]:
                    l = op_local(d[3][2][0])
                else:
                    return False
            else:
                return False
        return False

    # `next()` on an iterator derived from scratch.iter_mut()
    loops = []
    for b, t in g.calls():
        c = callee(t)
        if not c or not c["fn"].endswith("::next") or not t[2]:
            continue
        it = op_local(t[2][0])
        # &mut iter -> iter -> into_iter(enumerate(iter_mut(deref_mut(&mut *scratch))))
        if not derives_from_scratch(it):
            continue
        chain_has_iter_mut = False
        l = it
        seen = set()
        while l is not None and l not in seen:
            seen.add(l)
            d = gd.single(l)
            if not d:
                break
            if d[2] == "call":
                cc = callee(d[3])
                if cc and "iter_mut" in cc["fn"]:
                    chain_has_iter_mut = True
                l = op_local(d[3][2][0]) if d[3][2] else None
            elif d[2] == "assign":
                rv = d[3][2]
                pl = rv[2] if rv[0] == "ref" else (op_place(rv[1]) if rv[0] == "use" else None)
                l = pl[0] if pl is not None else None
            else:
                break
        if chain_has_iter_mut:
            loops.append((b, t))
    if not loops and prog is not None and depth < 2:
        rets = [b for b in range(len(g.blocks)) if not g.is_cleanup(b) and g.term(b)[0] == "ret"]
        for b, t in g.calls():
            c = callee(t)
            h = (prog.fn(c.get("res") or c["fn"]) or prog.fn(c["fn"])) if c else None
            if h is None or h.crate != g.crate or h.path == g.path:
                continue
            for i, a in enumerate(t[2]):
                al = op_local(a)
                if al is not None and derives_from_scratch(al) and all(g.dominates(b, r) for r in rets):
                    v = scratch_overwritten(h, i + 1, prog, depth + 1)
                    if v is None:
                        return None
    if not loops:
        uses = any(SCR in [st[1][0]] or any(op_place(o) is not None and op_place(o)[0] == SCR for o in ([st[2][1]] if st[2][0] == "use" else []))
                   for blk in g.blocks if not blk[2] for st in blk[0] if st[0] == "=")
        return "no loop over scratch.iter_mut() rewrites it" if True else None
    for b, t in loops:
        res = t[3][0]
        nxt = t[4]
        tt = g.term(nxt)
        if tt[0] != "switch":
            return "unrecognised loop shape"
        some = [x for v, x in tt[2] if v == "1"]
        if not some:
            return "unrecognised loop shape"
        some = some[0]
        # element references: locals of type &mut T assigned from the Some payload
        elems = set()
        for st in g.stmts(some):
            if st[0] == "=" and len(st[1]) == 1 and st[2][0] == "use":
                pl = op_place(st[2][1])
                if pl is not None and pl[0] == res and g.local_ty(st[1][0]).startswith("&mut "):
                    elems |= alias_closure(g, {st[1][0]}, through_try=False)
        if not elems:
            return "the loop does not bind the scratch element mutably"
        stores = set()
        for bb, blk in enumerate(g.blocks):
            if blk[2]:
                continue
            for st in blk[0]:
                if st[0] == "=" and len(st[1]) == 2 and st[1][1] == "*" and st[1][0] in elems:
                    stores.add(bb)
        if not stores:
            return "no store through the scratch element"
        if some in stores:
            continue
        p = find_path_edges(g, [some], lambda x: x == b, avoid_block=lambda x: x in stores)
        if p is not None:
            return "an iteration of the rewrite loop can skip the store (line %d)" % pos_line(g.term_pos(some))
    return None


def main(pid, tier, repo=None):
    configs = ("workspace",) if tier == "quick" else ("workspace", "norayon")
    ctx = Ctx(pid, tier, configs=configs, repo=repo)
    for cfg in configs:
        ctx.use_config(cfg)
        rule_nondet(ctx)
        rule_parstate(ctx)
        rule_errslot(ctx)
        rule_lazy(ctx)
        rule_scratch(ctx)
        # concurrent callers of one image: the wake-up half of the handle protocol (shared with C20)
        from . import proto
        infos = proto.scan_all(ctx)
        proto.rule_done_render(ctx, infos)
        from . import c13
        c13.rule_tracker(ctx)       # the budget is one atomic read-modify-write: whether a render fits does not depend on scheduling
        proto.rule_wait(ctx, infos)
        proto.rule_placeholder(ctx, infos)
    ctx.not_decided("bit-identity of samples across pool sizes (needs the disjointness arithmetic of into_groups*, value-level)")
    ctx.not_decided("idempotence of the relaxed-atomic group-offset cache (argued: every store is a function of the frame bytes)")
    return ctx.finish(
        "Structural necessary conditions for schedule-independence, decided on MIR for all schedules: no decoder crate can "
        "observe pool size/thread identity/clock/env/hash seed (resolved-callee bans); what each of the pool closures captures "
        "(capture list from rustc with Freeze verdicts); every store into a shared Result slot is monotone towards Err; lazily "
        "built statics are write-once under Once/Mutex.")

"""C16 — inverse block transforms match their definition (claimed narrowly: dispatch agreement): R-DISPATCH."""
import re

from ..engine import Ctx
from . import specconst
from ..facts import callee, op_local, pos_line
from ..mirutil import Defs, switch_subject

TT = "jxl_vardct::dct_select::TransformType"
DISPATCHERS = [
    "jxl_render::vardct::generic::transform::transform",
    "jxl_render::vardct::x86_64::transform::transform_x86_64_sse2",
    "jxl_render::vardct::x86_64::transform::transform_x86_64_sse41",
]
# what the format defines for each transform type: (kernel family, const generic arguments)
SPECIAL = {
    "Dct2": ("dct2", ()), "Hornuss": ("hornuss", ()), "Dct4": ("dct4", ()),
    "Dct4x8": ("dct4x8", ("false",)), "Dct8x4": ("dct4x8", ("true",)),
    "Afv0": ("afv", ("0",)), "Afv1": ("afv", ("1",)), "Afv2": ("afv", ("2",)), "Afv3": ("afv", ("3",)),
}


def family(path):
    nm = path.split("::")[-1]
    nm = re.sub(r"_(x86_64|aarch64|wasm32)_[a-z0-9]+$", "", nm)
    nm = re.sub(r"^transform_", "", nm)
    return nm


def arm_target(f, b):
    """first call reachable from block b through gotos: (family, const args, full callee)"""
    seen = set()
    while b not in seen:
        seen.add(b)
        t = f.term(b)
        if t[0] == "call":
            c = callee(t)
            if c:
                return (family(c["fn"]), tuple(c["args"]), c["fn"])
            return ("<indirect>", (), "?")
        if t[0] == "goto":
            b = t[1]
            continue
        break
    return ("<none>", (), "?")


def rule_dispatch(ctx):
    rid = "R-DISPATCH"
    ctx.rule(rid, "the sibling dispatchers generic::transform, transform_x86_64_sse2 and transform_x86_64_sse41 switch on the TransformType "
                  "discriminant; for every variant of the enum the kernel family and const generic argument are read from the resolved "
                  "callee of the arm and must equal the format's table (Dct4x8 -> dct4x8<false>, Dct8x4 -> dct4x8<true>, Afv{n} -> afv<n>, "
                  "Dct2/Dct4/Hornuss their own kernels, everything else the 2-D DCT) in all three")
    prog = ctx.prog
    adt = prog.crate("jxl_vardct").adts.get(TT)
    if adt is None:
        ctx.anchor_missing(rid, TT)
        return
    variants = [v["name"] for v in adt["variants"]]
    tables = {}
    encodings = {}
    for dp in DISPATCHERS:
        f = prog.fn(dp)
        if f is None:
            ctx.anchor_missing(rid, dp)
            continue
        ctx.seen(f)
        defs = Defs(f)
        sub = switch_subject(f, defs, 0)
        sw = 0
        if not sub or sub[0] != "discr":
            # find the first switch on a discriminant of the TransformType argument
            sw = None
            for b in range(len(f.blocks)):
                s2 = switch_subject(f, defs, b)
                if s2 and s2[0] == "discr" and f.local_ty(s2[1][0]).endswith("TransformType"):
                    sw = b
                    break
        if sw is None:
            ctx.bad(rid, "%s|no-switch" % dp, "dispatcher does not switch on the TransformType discriminant", fn=f)
            continue
        t = f.term(sw)
        listed = {int(v): x for v, x in t[2]}
        table = {}
        for i, vn in enumerate(variants):
            table[vn] = arm_target(f, listed.get(i, t[3]))
        tables[dp] = table
        # is the parameter encoding the one the reference was transcribed for (afv::<N>, dct4x8::<bool>)?  If a refactor changed how
        # the parameters are passed, the arguments are compared between the sibling dispatchers instead (below)
        same_encoding = all(len(table[vn][1]) == len(SPECIAL[vn][1]) and all(re.fullmatch(r"\d+|true|false", a) for a in table[vn][1])
                            and (not SPECIAL[vn][1] or (SPECIAL[vn][1][0].isdigit() == table[vn][1][0].isdigit()))
                            for vn in SPECIAL if vn in table)
        encodings[dp] = same_encoding
        for vn in variants:
            want = SPECIAL.get(vn, ("dct", ()))
            got = table[vn]
            key = "%s|%s" % (dp.split("::")[-1], vn)
            if not same_encoding and got[0] == want[0]:
                ctx.ok(rid, key, "%s -> %s (family; parameters are compared between the dispatchers)" % (vn, got[2].split("::")[-1]), fn=f)
                continue
            if (got[0], got[1]) == want:
                ctx.ok(rid, key, "%s -> %s%s" % (vn, got[2].split("::")[-1], ("::<%s>" % ",".join(got[1])) if got[1] else ""),
                       nontrivial=vn in SPECIAL, fn=f)
            else:
                ctx.bad(rid, key, "%s routes transform type %s to %s%s; the format requires %s%s" % (
                    dp.split("::")[-1], vn, got[2].split("::")[-1], ("::<%s>" % ",".join(got[1])) if got[1] else "",
                    want[0], ("<%s>" % ",".join(want[1])) if want[1] else ""), fn=f, pos=f.term_pos(sw))
    # sibling agreement on the parameters (always; the only parameter check when the encoding is not the reference's)
    ref_dp = DISPATCHERS[0]
    if ref_dp in tables:
        rt = tables[ref_dp]
        for dp, table in tables.items():
            if dp == ref_dp:
                continue
            for vn in variants:
                if table[vn][0] == rt[vn][0] and table[vn][1] != rt[vn][1]:
                    ctx.bad(rid, "%s|%s|siblings-differ" % (dp.split("::")[-1], vn),
                            "%s calls the %s kernel for %s with parameters <%s>, the generic dispatcher with <%s>: the vector and the scalar "
                            "path decode this transform type differently" % (dp.split("::")[-1], table[vn][0], vn, ",".join(table[vn][1]),
                                                                          ",".join(rt[vn][1])), fn=prog.fn(dp))
        if not all(encodings.values()):
            # distinctness inside the reference dispatcher: four AFV corners, two 4x8 orientations
            for group in (("Afv0", "Afv1", "Afv2", "Afv3"), ("Dct4x8", "Dct8x4")):
                args = [rt[v][1] for v in group if v in rt]
                if len(set(args)) != len(args):
                    ctx.bad(rid, "generic|%s|parameters-not-distinct" % group[0], "the generic dispatcher passes the same parameters for two of %s" % (group,),
                            fn=prog.fn(ref_dp))
                else:
                    ctx.ok(rid, "generic|%s|parameters-distinct" % group[0], "distinct parameters for %s" % (group,), fn=prog.fn(ref_dp))
    # the u8 -> TransformType conversion covers exactly the variants (C02 class d cross-reference)
    ctx.counts[rid + ".variants"] = len(variants)
    ctx.floor(rid, 3 * 27)


def main(pid, tier, repo=None):
    ctx = Ctx(pid, tier, configs=("workspace",), repo=repo)
    rule_dispatch(ctx)
    specconst.run(ctx, pid)
    from . import enummap
    enummap.run(ctx, pid)
    ctx.not_decided("numerical agreement of any kernel with the mathematical definition, or between the generic and vector kernels")
    return ctx.finish(
        "Dispatch agreement only: every transform type the format defines has a handler and the generic, SSE2 and SSE4.1 dispatchers "
        "route each of the 27 types to the corresponding kernel family with the same const generic argument. Extracted from the "
        "resolved callees of the discriminant switch in MIR, compared with the format's table.")

"""C16 — inverse block transforms match their definition (claimed narrowly: dispatch agreement): R-DISPATCH."""
import re

from ..engine import Ctx
from . import specconst
from ..facts import callee, op_local, pos_line
from ..mirutil import Defs, switch_subject

TT = "jxl_vardct::dct_select::TransformType"
DISPATCHERS = [
    "jxl_render::vardct::generic::transform::transform",
    "jxl_render::vardct::x86_64::transform::transform_x86_64_sse2",
    "jxl_render::vardct::x86_64::transform::transform_x86_64_sse41",
]
# what the format defines for each transform type: (kernel family, const generic arguments)
SPECIAL = {
    "Dct2": ("dct2", ()), "Hornuss": ("hornuss", ()), "Dct4": ("dct4", ()),
    "Dct4x8": ("dct4x8", ("false",)), "Dct8x4": ("dct4x8", ("true",)),
    "Afv0": ("afv", ("0",)), "Afv1": ("afv", ("1",)), "Afv2": ("afv", ("2",)), "Afv3": ("afv", ("3",)),
}


def family(path):
    nm = path.split("::")[-1]
    nm = re.sub(r"_(x86_64|aarch64|wasm32)_[a-z0-9]+$", "", nm)
    nm = re.sub(r"^transform_", "", nm)
    return nm


def arm_target(f, b):
    """first call reachable from block b through gotos: (family, const args, full callee)"""
    seen = set()
    while b not in seen:
        seen.add(b)
        t = f.term(b)
        if t[0] == "call":
            c = callee(t)
            if c:
                return (family(c["fn"]), tuple(c["args"]), c["fn"])
            return ("<indirect>", (), "?")
        if t[0] == "goto":
            b = t[1]
            continue
        break
    return ("<none>", (), "?")


def rule_dispatch(ctx):
    rid = "R-DISPATCH"
    ctx.rule(rid, "the sibling dispatchers generic::transform, transform_x86_64_sse2 and transform_x86_64_sse41 switch on the TransformType "
                  "discriminant; for every variant of the enum the kernel family and const generic argument are read from the resolved "
                  "callee of the arm and must equal the format's table (Dct4x8 -> dct4x8<false>, Dct8x4 -> dct4x8<true>, Afv{n} -> afv<n>, "
                  "Dct2/Dct4/Hornuss their own kernels, everything else the 2-D DCT) in all three")
    prog = ctx.prog
    adt = prog.crate("jxl_vardct").adts.get(TT)
    if adt is None:
        ctx.anchor_missing(rid, TT)
        return
    variants = [v["name"] for v in adt["variants"]]
    tables = {}
    encodings = {}
    for dp in DISPATCHERS:
        f = prog.fn(dp)
        if f is None:
            ctx.anchor_missing(rid, dp)
            continue
        ctx.seen(f)
        defs = Defs(f)
        sub = switch_subject(f, defs, 0)
        sw = 0
        if not sub or sub[0] != "discr":
            # find the first switch on a discriminant of the TransformType argument
            sw = None
            for b in range(len(f.blocks)):
                s2 = switch_subject(f, defs, b)
                if s2 and s2[0] == "discr" and f.local_ty(s2[1][0]).endswith("TransformType"):
                    sw = b
                    break
        if sw is None:
            ctx.bad(rid, "%s|no-switch" % dp, "dispatcher does not switch on the TransformType discriminant", fn=f)
            continue
        t = f.term(sw)
        listed = {int(v): x for v, x in t[2]}
        table = {}
        for i, vn in enumerate(variants):
            table[vn] = arm_target(f, listed.get(i, t[3]))
        tables[dp] = table
        # is the parameter encoding the one the reference was transcribed for (afv::<N>, dct4x8::<bool>)?  If a refactor changed how
        # the parameters are passed, the arguments are compared between the sibling dispatchers instead (below)
        same_encoding = all(len(table[vn][1]) == len(SPECIAL[vn][1]) and all(re.fullmatch(r"\d+|true|false", a) for a in table[vn][1])
                            and (not SPECIAL[vn][1] or (SPECIAL[vn][1][0].isdigit() == table[vn][1][0].isdigit()))
                            for vn in SPECIAL if vn in table)
        encodings[dp] = same_encoding
        for vn in variants:
            want = SPECIAL.get(vn, ("dct", ()))
            got = table[vn]
            key = "%s|%s" % (dp.split("::")[-1], vn)
            if not same_encoding and got[0] == want[0]:
                ctx.ok(rid, key, "%s -> %s (family; parameters are compared between the dispatchers)" % (vn, got[2].split("::")[-1]), fn=f)
                continue
            if (got[0], got[1]) == want:
                ctx.ok(rid, key, "%s -> %s%s" % (vn, got[2].split("::")[-1], ("::<%s>" % ",".join(got[1])) if got[1] else ""),
                       nontrivial=vn in SPECIAL, fn=f)
            else:
                ctx.bad(rid, key, "%s routes transform type %s to %s%s; the format requires %s%s" % (
                    dp.split("::")[-1], vn, got[2].split("::")[-1], ("::<%s>" % ",".join(got[1])) if got[1] else "",
                    want[0], ("<%s>" % ",".join(want[1])) if want[1] else ""), fn=f, pos=f.term_pos(sw))
    # sibling agreement on the parameters (always; the only parameter check when the encoding is not the reference's)
    ref_dp = DISPATCHERS[0]
    if ref_dp in tables:
        rt = tables[ref_dp]
        for dp, table in tables.items():
            if dp == ref_dp:
                continue
            for vn in variants:
                if table[vn][0] == rt[vn][0] and table[vn][1] != rt[vn][1]:
                    ctx.bad(rid, "%s|%s|siblings-differ" % (dp.split("::")[-1], vn),
                            "%s calls the %s kernel for %s with parameters <%s>, the generic dispatcher with <%s>: the vector and the scalar "
                            "path decode this transform type differently" % (dp.split("::")[-1], table[vn][0], vn, ",".join(table[vn][1]),
                                                                          ",".join(rt[vn][1])), fn=prog.fn(dp))
        if not all(encodings.values()):
            # distinctness inside the reference dispatcher: four AFV corners, two 4x8 orientations
            for group in (("Afv0", "Afv1", "Afv2", "Afv3"), ("Dct4x8", "Dct8x4")):
                args = [rt[v][1] for v in group if v in rt]
                if len(set(args)) != len(args):
                    ctx.bad(rid, "generic|%s|parameters-not-distinct" % group[0], "the generic dispatcher passes the same parameters for two of %s" % (group,),
                            fn=prog.fn(ref_dp))
                else:
                    ctx.ok(rid, "generic|%s|parameters-distinct" % group[0], "distinct parameters for %s" % (group,), fn=prog.fn(ref_dp))
    # the u8 -> TransformType conversion covers exactly the variants (C02 class d cross-reference)
    ctx.counts[rid + ".variants"] = len(variants)
    ctx.floor(rid, 3 * 27)


def rule_vec_secants(ctx):
    """the in-register 4- and 8-point kernels carry the right secant tables"""
    import math
    rid = "R-VEC-SECANTS"
    ctx.rule(rid, "the SSE in-register kernels dct8_vec_forward / dct8_vec_inverse multiply the odd half by a literal secant vector: the "
                  "inverse uses sec_k = 1 / (2 cos((2k+1) pi / 16)), the forward the halved table sec_k / 2 (its 1/2 normalisation is "
                  "folded in).  (a) where the vector is a literal array in MIR it is compared with the formula (1e-6 relative); (b) "
                  "contradiction: the two kernels cannot take their table from one and the same argument-less provider - whatever it "
                  "returns, one of them is off by a factor of two (doubled odd coefficients in the LF injection of 64x64 varblocks)")
    cr = ctx.prog.crate("jxl_render")
    sec = [1.0 / (2.0 * math.cos((2 * k + 1) * math.pi / 16.0)) for k in range(4)]
    want = {"dct8_vec_forward": [x / 2 for x in sec], "dct8_vec_inverse": sec}
    fns = {}
    for f in cr.fn_list:
        last = f.path.split("::")[-1]
        if last in want and "x86_64" in f.path and f.kind != "Promoted":
            fns[last] = f
    if len(fns) != 2:
        ctx.anchor_missing(rid, "dct8_vec_forward / dct8_vec_inverse in jxl_render::vardct::x86_64::dct")
        return

    def fval(o):
        if o[0] != "k":
            return None
        t = str(o[1].get("s", ""))
        m = re.match(r"^(-?[0-9.]+(?:e-?[0-9]+)?)f32$", t)
        return float(m.group(1)) if m else None

    providers = {}
    for name, f in fns.items():
        ctx.seen(f)
        arrays = []
        for blk in f.blocks:
            if blk[2]:
                continue
            for st in blk[0]:
                if st[0] == "=" and st[2][0] == "agg" and st[2][1][0] == "array" and len(st[2][2]) == 4:
                    vals = [fval(o) for o in st[2][2]]
                    if all(v is not None for v in vals):
                        arrays.append(vals)
        nullary = set()
        for b, t in f.calls():
            c = callee(t)
            if c and not t[2] and not c["fn"].startswith(("core::", "std::")):
                nullary.add(c.get("res") or c["fn"])
        providers[name] = nullary
        match = [a for a in arrays if all(abs(x - w) <= 1e-6 * abs(w) for x, w in zip(a, want[name]))]
        near = [a for a in arrays if all(0.2 < x < 3.0 for x in a) and a not in match and len(set(a)) == 4]
        if match:
            ctx.ok(rid, name + "|table", "literal secant vector equals the formula", nontrivial=True, fn=f)
        elif near:
            ctx.bad(rid, name + "|table-differs", "%s multiplies by %s, the definition requires %s" % (name, near[0], [round(x, 7) for x in want[name]]), fn=f)
        else:
            ctx.ok(rid, name + "|table-not-literal", "no literal secant vector in this body (taken from elsewhere): only the contradiction test applies", fn=f)
    shared = providers["dct8_vec_forward"] & providers["dct8_vec_inverse"]
    if shared:
        ctx.bad(rid, "shared-provider", "dct8_vec_forward and dct8_vec_inverse both take a table from %s(): the forward kernel needs the halved "
                "table, so one of the two is off by a factor of two" % sorted(shared)[0].split("::")[-1], fn=fns["dct8_vec_forward"])
    else:
        ctx.ok(rid, "no-shared-provider", "the two kernels do not share an argument-less table provider", fn=fns["dct8_vec_forward"])


def rule_dct_definition(ctx):
    """the generic scalar 1-D DCT, evaluated from MIR, is the DCT of the format"""
    import math
    from .. import absint
    rid = "R-DCT-DEF"
    ctx.rule(rid, "jxl_render::vardct::generic::dct::dct (the scalar kernel every block size and every non-SIMD target goes through, "
                  "recursive in n) is evaluated from MIR for n = 2, 4, 8, .. 256 in both directions on an impulse and on a dense input "
                  "and compared with the definition: forward c[k] = s(k) / n * sum x[i] cos(k (2i + 1) pi / 2n), inverse x[i] = sum "
                  "s(k) c[k] cos(k (2i + 1) pi / 2n), s(0) = 1, s(k) = sqrt 2 (the scaling of ISO/IEC 18181-1 I.2).  The secant tables "
                  "sec_half(n) are supplied from their formula (their stored values are a separate obligation).  The evaluator models "
                  "the two slices as shared buffers (split_at_mut, iterators, indexed stores, the recursion).  Tolerance 1e-4 of the "
                  "largest output.  A reordered butterfly, a fused loop that reads an overwritten neighbour, a wrong secant index or "
                  "scale differs for some n")
    cr = ctx.prog.crate("jxl_render")
    f = cr.fns.get("jxl_render::vardct::generic::dct::dct")
    adt = cr.adts.get("jxl_render::vardct::dct_common::DctDirection")
    names = [v["name"] for v in adt["variants"]] if adt else []
    if f is None or f.argc != 3 or sorted(names) != ["Forward", "Inverse"]:
        ctx.anchor_missing(rid, "jxl_render::vardct::generic::dct::dct(&mut [f32], &mut [f32], DctDirection)")
        return
    ctx.seen(f)

    def sec(args):
        n = args[0]
        return absint.BufView([1.0 / (2 * math.cos((2 * k + 1) * math.pi / (2 * n))) for k in range(n // 2)])

    def fwd(x):
        n = len(x)
        return [(math.sqrt(2) if k else 1) / n * sum(x[i] * math.cos(k * (2 * i + 1) * math.pi / (2 * n)) for i in range(n)) for k in range(n)]

    def inv(c):
        n = len(c)
        return [c[0] + sum(c[k] * math.sqrt(2) * math.cos(k * (2 * i + 1) * math.pi / (2 * n)) for k in range(1, n)) for i in range(n)]

    rows, bad, undec = 0, None, None
    for n in (2, 4, 8, 16, 32, 64, 128, 256):
        inputs = [[1.0 if i == 1 else 0.0 for i in range(n)], [float((i * 7 + 3) % 5 - 2) + 0.25 * (i % 3) for i in range(n)]]
        for dn, ref in (("Forward", fwd), ("Inverse", inv)):
            for x in inputs:
                io, sc = absint.BufView(list(x)), absint.BufView([0.0] * n)
                ev = absint.Evaluator(ctx.prog, max_steps=3000000)
                ev.intercept = {"dct_common::sec_half": sec, "dct_common::sec_half_small": sec}
                try:
                    ev.call_fn(f, [io, sc, absint.Enum("jxl_render::vardct::dct_common::DctDirection", names.index(dn), dn, [])])
                except absint.Unsupported as e:
                    undec = "n = %d, %s: %s" % (n, dn, e)
                    break
                rows += 1
                want = ref(x)
                got = io.items()
                scale = max(1e-9, max(abs(v) for v in want))
                err = max((abs(a - b) if isinstance(a, (int, float)) else float("inf")) for a, b in zip(got, want))
                if err > 1e-4 * scale and bad is None:
                    k = max(range(n), key=lambda i: abs(got[i] - want[i]) if isinstance(got[i], (int, float)) else float("inf"))
                    bad = (n, dn, k, got[k], want[k])
            if undec:
                break
        if undec:
            break
    ctx.count(rid + ".rows", rows)
    if undec:
        ctx.bad(rid, "dct|not-evaluable", "the generic scalar dct is no longer a function the evaluator can decide (%s)" % undec, fn=f)
        return
    ctx.floor(rid + ".rows", 8 * 2 * 2)
    if bad:
        n, dn, k, g, w = bad
        ctx.bad(rid, "dct|definition", "%s DCT of %d points: output %d is %r, the definition gives %.7f" % (dn.lower(), n, k, g, w), fn=f)
    else:
        ctx.ok(rid, "dct|definition", "%d transforms (n = 2 .. 256, both directions) equal the definition within 1e-4" % rows, nontrivial=True, fn=f)


def rule_hornuss(ctx):
    """the generic Hornuss transform, evaluated from MIR, equals its definition"""
    from .. import absint
    rid = "R-HORNUSS-DEF"
    ctx.rule(rid, "transform_hornuss (one routine for every target; the x86 dispatchers call it too) is evaluated from MIR on the 64 "
                  "unit impulses and a dense block - the coefficient grid supplied through modelled MutableSubgrid::get / get_mut, the "
                  "2x2 butterfly aux_idct2_in_place::<2> from its definition - and compared with the definition of the transform "
                  "(ISO/IEC 18181-1, transform `Hornuss`): after the 2x2 IDCT of the four lowest coefficients, each 4x4 quadrant q takes "
                  "its 16 coefficients c[y + 2 iy][x + 2 ix]; its mean m = c_q(0,0) - (sum of the other 15) / 16 goes to position (1,1) "
                  "of the quadrant, the coefficient of (1,1) to position (0,0), and every position p != (1,1) holds coefficient(p) + m "
                  "(position (0,0): coefficient(1,1) + m).  Exact equality up to 1e-6")
    cr = ctx.prog.crate("jxl_render")
    f = cr.fns.get("jxl_render::vardct::generic::transform::transform_hornuss")
    if f is None or f.argc != 1:
        ctx.anchor_missing(rid, "jxl_render::vardct::generic::transform::transform_hornuss(&mut MutableSubgrid)")
        return
    ctx.seen(f)

    def ref(c):
        c = list(c)
        c00, c01, c10, c11 = c[0], c[1], c[8], c[9]
        c[0], c[1], c[8], c[9] = c00 + c01 + c10 + c11, c00 + c01 - c10 - c11, c00 - c01 + c10 - c11, c00 - c01 - c10 + c11
        out = [0.0] * 64
        for y in range(2):
            for x in range(2):
                q = [[c[(y + iy * 2) * 8 + x + ix * 2] for ix in range(4)] for iy in range(4)]
                resid = sum(q[iy][ix] for iy in range(4) for ix in range(4)) - q[0][0]
                m = q[0][0] - resid / 16.0
                for iy in range(4):
                    for ix in range(4):
                        if (ix, iy) == (1, 1):
                            v = m
                        elif (ix, iy) == (0, 0):
                            v = q[1][1] + m
                        else:
                            v = q[iy][ix] + m
                        out[(y * 4 + iy) * 8 + x * 4 + ix] = v
        return out

    def run(coeffs):
        grid = list(coeffs)
        ev = absint.Evaluator(ctx.prog, max_steps=500000)

        def idct2(args):
            c00, c01, c10, c11 = grid[0], grid[1], grid[8], grid[9]
            grid[0], grid[1], grid[8], grid[9] = c00 + c01 + c10 + c11, c00 + c01 - c10 - c11, c00 - c01 + c10 - c11, c00 - c01 - c10 + c11
            return ()
        ev.intercept = {"MutableSubgrid::<'_, V>::get": lambda a: grid[a[2] * 8 + a[1]],
                        "MutableSubgrid::<'g, V>::get_mut": lambda a: absint.ElemRef(grid, a[2] * 8 + a[1]),
                        "MutableSubgrid::<'_, V>::get_mut": lambda a: absint.ElemRef(grid, a[2] * 8 + a[1]),
                        "transform::aux_idct2_in_place": idct2}
        ev.call_fn(f, [absint.Ref(("ext", "coeff"))])
        return grid

    inputs = [[1.0 if i == k else 0.0 for i in range(64)] for k in range(64)] + [[float((i * 7 + 3) % 11 - 5) * 0.25 for i in range(64)]]
    rows, bad, undec = 0, None, None
    for k, x in enumerate(inputs):
        try:
            got = run(x)
        except absint.Unsupported as e:
            undec = str(e)
            break
        rows += 1
        want = ref(x)
        d = [i for i in range(64) if not isinstance(got[i], (int, float)) or abs(got[i] - want[i]) > 1e-6]
        if d and bad is None:
            bad = (("impulse at coefficient (%d, %d)" % (k % 8, k // 8)) if k < 64 else "dense block", d[0] % 8, d[0] // 8, got[d[0]], want[d[0]], len(d))
    ctx.count(rid + ".rows", rows)
    if undec:
        ctx.bad(rid, "hornuss|not-evaluable", "transform_hornuss is no longer a function the evaluator can decide (%s)" % undec, fn=f)
        return
    ctx.floor(rid + ".rows", 65)
    if bad:
        ctx.bad(rid, "hornuss|definition", "%s: sample (%d, %d) is %r, the definition gives %.6f (%d samples of the block differ)" % bad, fn=f)
    else:
        ctx.ok(rid, "hornuss|definition", "65 blocks (every impulse, one dense) equal the definition", nontrivial=True, fn=f)


def main(pid, tier, repo=None):
    ctx = Ctx(pid, tier, configs=("workspace",), repo=repo)
    rule_dispatch(ctx)
    rule_vec_secants(ctx)
    rule_dct_definition(ctx)
    rule_hornuss(ctx)
    specconst.run(ctx, pid)
    from . import enummap
    enummap.run(ctx, pid)
    ctx.not_decided("numerical agreement of the vector (SSE2 / AVX2 / NEON) kernels, of the 2-D driver and of the AFV / DCT2 / DCT4x8 family with "
                    "their definition, or between the generic and vector kernels; only the generic scalar 1-D DCT is evaluated")
    return ctx.finish(
        "Dispatch agreement only: every transform type the format defines has a handler and the generic, SSE2 and SSE4.1 dispatchers "
        "route each of the 27 types to the corresponding kernel family with the same const generic argument. Extracted from the "
        "resolved callees of the discriminant switch in MIR, compared with the format's table.")

"""C06 — region-of-interest render equals the crop of the full render (claimed narrowly: cache invalidation):
R-REGION-RESET."""
from .. import absint
from ..engine import Ctx, LIB_CRATES
from ..facts import callee, op_local, op_place, op_const, pos_line, place_fields
from ..mirutil import Defs, access_path, find_path_edges

CTX_ADT = "jxl_render::RenderContext"
RESET = "jxl_render::RenderContext::reset_cache"
HANDLE_NEW = "jxl_render::state::FrameRenderHandle::<S>::new"
HANDLE_FROM_CACHE = "jxl_render::state::FrameRenderHandle::<S>::from_cache"


def rule_region_reset(ctx):
    rid = "R-REGION-RESET"
    ctx.rule(rid, "every store to RenderContext.requested_image_region is followed on all paths by reset_cache(); reset_cache clears the "
                  "three loading caches and, on every loop iteration that is not a ReferenceOnly frame, stores a handle freshly built "
                  "with FrameRenderHandle::new(.., requested_image_region, ..) into renders_narrow|wide[idx] (a kept handle keeps the "
                  "region and the cached Blended image of the previous request)")
    prog = ctx.prog
    # (a) writers of requested_image_region
    n_writers = 0
    for f in prog.all_fns(LIB_CRATES):
        for b, blk in enumerate(f.blocks):
            if f.is_cleanup(b):
                continue
            for st in blk[0]:
                if st[0] == "=" and place_fields(st[1]) and place_fields(st[1])[-1] == ("requested_image_region", CTX_ADT):
                    n_writers += 1
                    ctx.seen(f)
                    ctx.count(rid + ".region-stores")
                    resets = {bb for bb, t in f.calls() if callee(t) and callee(t)["fn"] == RESET}
                    p = find_path_edges(f, [b], lambda x: f.term(x)[0] == "ret", avoid_block=lambda x: x in resets) if b not in resets else None
                    if p is None and resets:
                        ctx.ok(rid, "store-then-reset:" + f.path, "reset_cache post-dominates the store", nontrivial=True, fn=f)
                    else:
                        ctx.bad(rid, "%s|region-changed-without-reset" % f.path,
                                "requested_image_region is changed but a path returns without reset_cache(): keyframe handles keep the image "
                                "cached for the previous region", fn=f, pos=st[3], path=p)
    ctx.floor(rid + ".region-stores", 1)
    f = prog.fn(RESET)
    if f is None:
        ctx.anchor_missing(rid, RESET)
        return
    ctx.seen(f)
    defs = Defs(f)
    # (b) the three caches are cleared
    cleared = set()
    for b, blk in enumerate(f.blocks):
        for st in blk[0]:
            if st[0] != "=":
                continue
            pf = place_fields(st[1])
            if pf and pf[-1][1] == CTX_ADT and pf[-1][0] in ("loading_region", "loading_render_cache_wide", "loading_render_cache_narrow"):
                rv = st[2]
                is_none = rv[0] == "agg" and rv[1][0] == "adt" and rv[1][1] == "core::option::Option" and rv[1][2] == "None"
                if not is_none and rv[0] == "use":
                    l = op_local(rv[1])
                    d = defs.single(l) if l is not None else None
                    is_none = bool(d and d[2] == "assign" and d[3][2][0] == "agg" and d[3][2][1][1] == "core::option::Option" and d[3][2][1][2] == "None")
                if is_none:
                    cleared.add(pf[-1][0])
    for nm in ("loading_region", "loading_render_cache_wide", "loading_render_cache_narrow"):
        if nm in cleared:
            ctx.ok(rid, "clears:" + nm, "stores None", fn=f)
        else:
            ctx.bad(rid, "reset_cache|does-not-clear:" + nm, "reset_cache no longer clears %s: the loading frame keeps data rendered for the previous region" % nm, fn=f)
    # (c) loop: every non-ReferenceOnly iteration stores a handle
    nexts = [b for b, t in f.calls() if callee(t) and callee(t)["fn"] == "core::iter::traits::iterator::Iterator::next"]
    if len(nexts) != 1:
        ctx.bad(rid, "reset_cache|loop-shape", "expected one frame loop in reset_cache (found %d iterator loops)" % len(nexts), fn=f)
        return
    nb = nexts[0]
    stores = {}
    for b, blk in enumerate(f.blocks):
        if f.is_cleanup(b):
            continue
        for st in blk[0]:
            if st[0] == "=" and place_fields(st[1]) and place_fields(st[1])[0][1] == CTX_ADT and place_fields(st[1])[0][0] in ("renders_narrow", "renders_wide"):
                stores.setdefault(place_fields(st[1])[0][0], []).append((b, st))
        t = blk[1]
        # IndexMut::index_mut(&mut self.renders_x, idx) followed by a store through the returned reference
        if t[0] == "call":
            c = callee(t)
            if c and c["fn"] == "core::ops::index::IndexMut::index_mut" and t[2]:
                l = op_local(t[2][0])
                ap = access_path(f, defs, l) if l is not None else None
                if ap and ap[1] and ap[1][-1] in ("renders_narrow", "renders_wide"):
                    # the store happens in a successor block: `(*_ret) = move arc`
                    dst = t[3][0]
                    for b2, blk2 in enumerate(f.blocks):
                        for st in blk2[0]:
                            if st[0] == "=" and st[1] == [dst, "*"]:
                                stores.setdefault(ap[1][-1], []).append((b2, st))
    store_blocks = {b for v in stores.values() for b, _ in v}
    # ReferenceOnly skip edge
    skip_edges = set()
    for b, t in f.calls():
        c = callee(t)
        if c and c["fn"] in ("core::cmp::PartialEq::eq", "core::cmp::PartialEq::ne") and c["args"] and c["args"][0].endswith("FrameType") and t[4] is not None:
            const_variant = promoted_enum(ctx.prog, f, defs, t[2][1])
            sb = t[4]
            tt = f.term(sb)
            if tt[0] == "switch" and op_local(tt[1]) == t[3][0] and const_variant == "ReferenceOnly":
                is_eq = c["fn"].endswith("eq")
                for v, x in tt[2]:
                    if v == "0" and not is_eq:
                        skip_edges.add((sb, x, v))
                if is_eq and any(v == "0" for v, _ in tt[2]):
                    skip_edges.add((sb, tt[3], "otherwise"))
    body = f.term(nb)[4]
    # can an iteration get back to the loop head without storing a handle and without taking the ReferenceOnly edge?
    p = find_path_edges(f, [body], lambda x: x == nb, avoid_block=lambda x: x in store_blocks,
                        avoid_edge=lambda x, s, lab: (x, s, lab) in skip_edges)
    if stores.get("renders_narrow") and stores.get("renders_wide") and p is None and skip_edges:
        ctx.ok(rid, "reset_cache|every-frame-gets-new-handle", "each iteration either takes the ReferenceOnly skip edge or stores into renders_narrow/renders_wide[idx] "
               "(%d store sites)" % len(store_blocks), nontrivial=True, fn=f)
    else:
        ctx.bad(rid, "reset_cache|frame-keeps-old-handle",
                "an iteration of reset_cache can finish without replacing the frame's render handle (other than for ReferenceOnly frames): the kept "
                "handle still carries the previous region and its cached image", fn=f, pos=f.term_pos(nb), path=p)
    # (d) handles are built with ::new and the requested region
    news = [(b, t) for b, t in f.calls() if callee(t) and callee(t)["fn"] in (HANDLE_NEW, HANDLE_FROM_CACHE)]
    if len(news) < 2:
        ctx.bad(rid, "reset_cache|handle-construction", "expected FrameRenderHandle::new for both sample widths (found %d)" % len(news), fn=f)
    for b, t in news:
        c = callee(t)
        if c["fn"] != HANDLE_NEW:
            ctx.bad(rid, "reset_cache|from_cache", "reset_cache rebuilds a handle from a render cache of the previous region", fn=f, pos=t[-2])
            continue
        l = op_local(t[2][1])
        ap = access_path(f, defs, l) if l is not None else None
        if ap and ap[1] and ap[1][-1] == "requested_image_region":
            ctx.ok(rid, "reset_cache|new-handle-region@%s" % c["args"][0] if c["args"] else "?", "FrameRenderHandle::new(.., self.requested_image_region, ..)", fn=f)
        else:
            ctx.bad(rid, "reset_cache|new-handle-region", "the region given to the new handle is not self.requested_image_region", fn=f, pos=t[-2])


def is_loop_body(f, nb, x):
    return nb in f.reachable(x)


def promoted_enum(prog, f, defs, o):
    """variant name of an enum constant passed by reference (usually a promoted)"""
    l = op_local(o)
    seen = set()
    while l is not None and l not in seen:
        seen.add(l)
        d = defs.single(l)
        if not d or d[2] != "assign":
            return None
        rv = d[3][2]
        if rv[0] == "use":
            c = op_const(rv[1])
            if c is not None and "item" in c:
                pf = prog.fn(c["item"])
                if pf is None:
                    return None
                try:
                    ev = absint.Evaluator(prog)
                    v = ev.call_fn(pf, [])
                    v = ev.deref_val(v)
                    return v.name if isinstance(v, absint.Enum) else None
                except absint.Unsupported:
                    return None
            l = op_local(rv[1])
            continue
        if rv[0] == "ref":
            p = rv[2]
            if p[1:] == ["*"]:
                l = p[0]
                continue
            if len(p) == 1:
                d2 = defs.single(p[0])
                if d2 and d2[2] == "assign" and d2[3][2][0] == "agg" and d2[3][2][1][0] == "adt":
                    return d2[3][2][1][2]
            return None
        return None
    return None


def rule_ecshift(ctx):
    """sibling agreement: the effective shift of an extra channel is log2(ec_upsampling) + dim_shift at every site"""
    from ..engine import LIB_CRATES
    from ..facts import place_fields, op_place, op_local
    from ..intervals import value_class
    rid = "R-ECSHIFT"
    ctx.rule(rid, "every function (with its closures) that reads FrameHeader.ec_upsampling combines it with ExtraChannelInfo.dim_shift in an "
                  "addition: the frame parser's validation, the modular channel layout and the region padding must agree on an extra "
                  "channel's effective upsampling shift, otherwise a requested region is padded for a smaller factor than the channel is "
                  "upsampled by")

    def reads(f, fld, adt_tail):
        for blk in f.blocks:
            if blk[2]:
                continue
            for st in blk[0]:
                if st[0] != "=":
                    continue
                rv = st[2]
                ps = []
                if rv[0] in ("use", "cast"):
                    p_ = op_place(rv[1] if rv[0] == "use" else rv[2])
                    if p_ is not None:
                        ps.append(p_)
                elif rv[0] == "ref":
                    ps.append(rv[2])
                for p_ in ps:
                    for n, a in place_fields(p_):
                        if n == fld and a and a.endswith(adt_tail):
                            return True
        return False

    def add_with_dim_shift(f):
        loads = set()
        for blk in f.blocks:
            if blk[2]:
                continue
            for st in blk[0]:
                if st[0] == "=" and len(st[1]) == 1 and st[2][0] in ("use", "cast"):
                    p_ = op_place(st[2][1] if st[2][0] == "use" else st[2][2])
                    if p_ is not None and any(n == "dim_shift" for n, a in place_fields(p_)):
                        loads |= value_class(f, st[1][0])
        for blk in f.blocks:
            if blk[2]:
                continue
            for st in blk[0]:
                if st[0] == "=" and st[2][0] == "bin" and st[2][1] in ("Add", "AddWithOverflow"):
                    for o in (st[2][2], st[2][3]):
                        l = op_local(o)
                        p_ = op_place(o)
                        if (l is not None and l in loads) or (p_ is not None and any(n == "dim_shift" for n, a in place_fields(p_))):
                            return True
        return False

    fams = {}
    for f in ctx.prog.all_fns(LIB_CRATES):
        root = f.path.split("::{closure")[0]
        fams.setdefault(root, []).append(f)
    n = 0
    for root, fs in sorted(fams.items()):
        if "core::fmt::Debug" in root or "core::clone::Clone" in root:
            continue
        if not any(reads(f, "ec_upsampling", "FrameHeader") for f in fs):
            continue
        n += 1
        for f in fs:
            ctx.seen(f)
        if any(add_with_dim_shift(f) for f in fs):
            ctx.ok(rid, "site:" + root, "ec_upsampling is combined with dim_shift", nontrivial=True, fn=fs[0])
        else:
            ctx.bad(rid, "site:%s|dim_shift-dropped" % root, "%s derives an extra channel's upsampling from FrameHeader.ec_upsampling without adding "
                    "ExtraChannelInfo.dim_shift, unlike the other sites: it works with a smaller factor than the channel really has"
                    % root.split("::")[-1], fn=fs[0])
    ctx.counts[rid + ".sites"] = n
    ctx.floor(rid + ".sites", 2)


def main(pid, tier, repo=None):
    ctx = Ctx(pid, tier, configs=("workspace",), repo=repo)
    rule_region_reset(ctx)
    rule_ecshift(ctx)
    ctx.not_decided("the padding amounts per filter/upsampling/LF level and the group selection (numeric)")
    return ctx.finish(
        "Cache invalidation only: a necessary condition for 'requesting regions in any sequence never changes what a later request "
        "returns'. Decided on MIR for every request history: changing the requested region always reaches reset_cache, which clears "
        "the loading caches and replaces the render handle of every non-ReferenceOnly frame by a fresh one built for the new region.")

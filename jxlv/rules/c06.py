"""C06 — region-of-interest render equals the crop of the full render (claimed narrowly: cache invalidation):
R-REGION-RESET."""
from .. import absint
from ..engine import Ctx, LIB_CRATES
from ..facts import callee, op_local, op_place, op_const, op_const_int, pos_line, place_fields
from ..mirutil import Defs, access_path, find_path_edges

CTX_ADT = "jxl_render::RenderContext"
RESET = "jxl_render::RenderContext::reset_cache"
HANDLE_NEW = "jxl_render::state::FrameRenderHandle::<S>::new"
HANDLE_FROM_CACHE = "jxl_render::state::FrameRenderHandle::<S>::from_cache"


def rule_region_reset(ctx):
    rid = "R-REGION-RESET"
    ctx.rule(rid, "every store to RenderContext.requested_image_region is followed on all paths by reset_cache(); reset_cache clears the "
                  "three loading caches and, on every loop iteration that is not a ReferenceOnly frame, stores a handle freshly built "
                  "with FrameRenderHandle::new(.., requested_image_region, ..) into renders_narrow|wide[idx] (a kept handle keeps the "
                  "region and the cached Blended image of the previous request)")
    prog = ctx.prog
    # (a) writers of requested_image_region
    n_writers = 0
    for f in prog.all_fns(LIB_CRATES):
        for b, blk in enumerate(f.blocks):
            if f.is_cleanup(b):
                continue
            for st in blk[0]:
                if st[0] == "=" and place_fields(st[1]) and place_fields(st[1])[-1] == ("requested_image_region", CTX_ADT):
                    n_writers += 1
                    ctx.seen(f)
                    ctx.count(rid + ".region-stores")
                    resets = {bb for bb, t in f.calls() if callee(t) and callee(t)["fn"] == RESET}
                    p = find_path_edges(f, [b], lambda x: f.term(x)[0] == "ret", avoid_block=lambda x: x in resets) if b not in resets else None
                    if p is None and resets:
                        ctx.ok(rid, "store-then-reset:" + f.path, "reset_cache post-dominates the store", nontrivial=True, fn=f)
                    else:
                        ctx.bad(rid, "%s|region-changed-without-reset" % f.path,
                                "requested_image_region is changed but a path returns without reset_cache(): keyframe handles keep the image "
                                "cached for the previous region", fn=f, pos=st[3], path=p)
    ctx.floor(rid + ".region-stores", 1)
    f = prog.fn(RESET)
    if f is None:
        ctx.anchor_missing(rid, RESET)
        return
    ctx.seen(f)
    defs = Defs(f)
    # (b) the three caches are cleared
    cleared = set()
    for b, blk in enumerate(f.blocks):
        for st in blk[0]:
            if st[0] != "=":
                continue
            pf = place_fields(st[1])
            if pf and pf[-1][1] == CTX_ADT and pf[-1][0] in ("loading_region", "loading_render_cache_wide", "loading_render_cache_narrow"):
                rv = st[2]
                is_none = rv[0] == "agg" and rv[1][0] == "adt" and rv[1][1] == "core::option::Option" and rv[1][2] == "None"
                if not is_none and rv[0] == "use":
                    l = op_local(rv[1])
                    d = defs.single(l) if l is not None else None
                    is_none = bool(d and d[2] == "assign" and d[3][2][0] == "agg" and d[3][2][1][1] == "core::option::Option" and d[3][2][1][2] == "None")
                if is_none:
                    cleared.add(pf[-1][0])
    for nm in ("loading_region", "loading_render_cache_wide", "loading_render_cache_narrow"):
        if nm in cleared:
            ctx.ok(rid, "clears:" + nm, "stores None", fn=f)
        else:
            ctx.bad(rid, "reset_cache|does-not-clear:" + nm, "reset_cache no longer clears %s: the loading frame keeps data rendered for the previous region" % nm, fn=f)
    # (c) loop: every non-ReferenceOnly iteration stores a handle
    nexts = [b for b, t in f.calls() if callee(t) and callee(t)["fn"] == "core::iter::traits::iterator::Iterator::next"]
    if len(nexts) != 1:
        ctx.bad(rid, "reset_cache|loop-shape", "expected one frame loop in reset_cache (found %d iterator loops)" % len(nexts), fn=f)
        return
    nb = nexts[0]
    stores = {}
    for b, blk in enumerate(f.blocks):
        if f.is_cleanup(b):
            continue
        for st in blk[0]:
            if st[0] == "=" and place_fields(st[1]) and place_fields(st[1])[0][1] == CTX_ADT and place_fields(st[1])[0][0] in ("renders_narrow", "renders_wide"):
                stores.setdefault(place_fields(st[1])[0][0], []).append((b, st))
        t = blk[1]
        # IndexMut::index_mut(&mut self.renders_x, idx) followed by a store through the returned reference
        if t[0] == "call":
            c = callee(t)
            if c and c["fn"] == "core::ops::index::IndexMut::index_mut" and t[2]:
                l = op_local(t[2][0])
                ap = access_path(f, defs, l) if l is not None else None
                if ap and ap[1] and ap[1][-1] in ("renders_narrow", "renders_wide"):
                    # the store happens in a successor block: `(*_ret) = move arc`
                    dst = t[3][0]
                    for b2, blk2 in enumerate(f.blocks):
                        for st in blk2[0]:
                            if st[0] == "=" and st[1] == [dst, "*"]:
                                stores.setdefault(ap[1][-1], []).append((b2, st))
    store_blocks = {b for v in stores.values() for b, _ in v}
    # ReferenceOnly skip edge
    skip_edges = set()
    for b, t in f.calls():
        c = callee(t)
        if c and c["fn"] in ("core::cmp::PartialEq::eq", "core::cmp::PartialEq::ne") and c["args"] and c["args"][0].endswith("FrameType") and t[4] is not None:
            const_variant = promoted_enum(ctx.prog, f, defs, t[2][1])
            sb = t[4]
            tt = f.term(sb)
            if tt[0] == "switch" and op_local(tt[1]) == t[3][0] and const_variant == "ReferenceOnly":
                is_eq = c["fn"].endswith("eq")
                for v, x in tt[2]:
                    if v == "0" and not is_eq:
                        skip_edges.add((sb, x, v))
                if is_eq and any(v == "0" for v, _ in tt[2]):
                    skip_edges.add((sb, tt[3], "otherwise"))
    body = f.term(nb)[4]
    # can an iteration get back to the loop head without storing a handle and without taking the ReferenceOnly edge?
    p = find_path_edges(f, [body], lambda x: x == nb, avoid_block=lambda x: x in store_blocks,
                        avoid_edge=lambda x, s, lab: (x, s, lab) in skip_edges)
    if stores.get("renders_narrow") and stores.get("renders_wide") and p is None and skip_edges:
        ctx.ok(rid, "reset_cache|every-frame-gets-new-handle", "each iteration either takes the ReferenceOnly skip edge or stores into renders_narrow/renders_wide[idx] "
               "(%d store sites)" % len(store_blocks), nontrivial=True, fn=f)
    else:
        ctx.bad(rid, "reset_cache|frame-keeps-old-handle",
                "an iteration of reset_cache can finish without replacing the frame's render handle (other than for ReferenceOnly frames): the kept "
                "handle still carries the previous region and its cached image", fn=f, pos=f.term_pos(nb), path=p)
    # (d) handles are built with ::new and the requested region
    news = [(b, t) for b, t in f.calls() if callee(t) and callee(t)["fn"] in (HANDLE_NEW, HANDLE_FROM_CACHE)]
    if len(news) < 2:
        ctx.bad(rid, "reset_cache|handle-construction", "expected FrameRenderHandle::new for both sample widths (found %d)" % len(news), fn=f)
    for b, t in news:
        c = callee(t)
        if c["fn"] != HANDLE_NEW:
            ctx.bad(rid, "reset_cache|from_cache", "reset_cache rebuilds a handle from a render cache of the previous region", fn=f, pos=t[-2])
            continue
        l = op_local(t[2][1])
        ap = access_path(f, defs, l) if l is not None else None
        if ap and ap[1] and ap[1][-1] == "requested_image_region":
            ctx.ok(rid, "reset_cache|new-handle-region@%s" % c["args"][0] if c["args"] else "?", "FrameRenderHandle::new(.., self.requested_image_region, ..)", fn=f)
        else:
            ctx.bad(rid, "reset_cache|new-handle-region", "the region given to the new handle is not self.requested_image_region", fn=f, pos=t[-2])


def is_loop_body(f, nb, x):
    return nb in f.reachable(x)


def promoted_enum(prog, f, defs, o):
    """variant name of an enum constant passed by reference (usually a promoted)"""
    l = op_local(o)
    seen = set()
    while l is not None and l not in seen:
        seen.add(l)
        d = defs.single(l)
        if not d or d[2] != "assign":
            return None
        rv = d[3][2]
        if rv[0] == "use":
            c = op_const(rv[1])
            if c is not None and "item" in c:
                pf = prog.fn(c["item"])
                if pf is None:
                    return None
                try:
                    ev = absint.Evaluator(prog)
                    v = ev.call_fn(pf, [])
                    v = ev.deref_val(v)
                    return v.name if isinstance(v, absint.Enum) else None
                except absint.Unsupported:
                    return None
            l = op_local(rv[1])
            continue
        if rv[0] == "ref":
            p = rv[2]
            if p[1:] == ["*"]:
                l = p[0]
                continue
            if len(p) == 1:
                d2 = defs.single(p[0])
                if d2 and d2[2] == "assign" and d2[3][2][0] == "agg" and d2[3][2][1][0] == "adt":
                    return d2[3][2][1][2]
            return None
        return None
    return None


def rule_ecshift(ctx):
    """sibling agreement: the effective shift of an extra channel is log2(ec_upsampling) + dim_shift at every site"""
    from ..engine import LIB_CRATES
    from ..facts import place_fields, op_place, op_local
    from ..intervals import value_class
    rid = "R-ECSHIFT"
    ctx.rule(rid, "every function (with its closures) that reads FrameHeader.ec_upsampling combines it with ExtraChannelInfo.dim_shift in an "
                  "addition: the frame parser's validation, the modular channel layout and the region padding must agree on an extra "
                  "channel's effective upsampling shift, otherwise a requested region is padded for a smaller factor than the channel is "
                  "upsampled by")

    def reads(f, fld, adt_tail):
        for blk in f.blocks:
            if blk[2]:
                continue
            for st in blk[0]:
                if st[0] != "=":
                    continue
                rv = st[2]
                ps = []
                if rv[0] in ("use", "cast"):
                    p_ = op_place(rv[1] if rv[0] == "use" else rv[2])
                    if p_ is not None:
                        ps.append(p_)
                elif rv[0] == "ref":
                    ps.append(rv[2])
                for p_ in ps:
                    for n, a in place_fields(p_):
                        if n == fld and a and a.endswith(adt_tail):
                            return True
        return False

    def add_with_dim_shift(f):
        loads = set()
        for blk in f.blocks:
            if blk[2]:
                continue
            for st in blk[0]:
                if st[0] == "=" and len(st[1]) == 1 and st[2][0] in ("use", "cast"):
                    p_ = op_place(st[2][1] if st[2][0] == "use" else st[2][2])
                    if p_ is not None and any(n == "dim_shift" for n, a in place_fields(p_)):
                        loads |= value_class(f, st[1][0])
        for blk in f.blocks:
            if blk[2]:
                continue
            for st in blk[0]:
                if st[0] == "=" and st[2][0] == "bin" and st[2][1] in ("Add", "AddWithOverflow"):
                    for o in (st[2][2], st[2][3]):
                        l = op_local(o)
                        p_ = op_place(o)
                        if (l is not None and l in loads) or (p_ is not None and any(n == "dim_shift" for n, a in place_fields(p_))):
                            return True
        return False

    fams = {}
    for f in ctx.prog.all_fns(LIB_CRATES):
        root = f.path.split("::{closure")[0]
        fams.setdefault(root, []).append(f)
    n = 0
    for root, fs in sorted(fams.items()):
        if "core::fmt::Debug" in root or "core::clone::Clone" in root:
            continue
        if not any(reads(f, "ec_upsampling", "FrameHeader") for f in fs):
            continue
        n += 1
        for f in fs:
            ctx.seen(f)
        if any(add_with_dim_shift(f) for f in fs):
            ctx.ok(rid, "site:" + root, "ec_upsampling is combined with dim_shift", nontrivial=True, fn=fs[0])
        else:
            ctx.bad(rid, "site:%s|dim_shift-dropped" % root, "%s derives an extra channel's upsampling from FrameHeader.ec_upsampling without adding "
                    "ExtraChannelInfo.dim_shift, unlike the other sites: it works with a smaller factor than the channel really has"
                    % root.split("::")[-1], fn=fs[0])
    ctx.counts[rid + ".sites"] = n
    ctx.floor(rid + ".sites", 2)


def rule_region_arith(ctx):
    """the rectangle arithmetic of jxl_render::Region, evaluated from MIR, equals its set-theoretic meaning"""
    from .. import absint
    rid = "R-REGION-ARITH"
    ctx.rule(rid, "every render region is computed with Region's methods; a result that is too small leaves requested pixels unrendered "
                  "(they show up as differences between a cropped and a full render), one that is misplaced renders other pixels.  "
                  "downsample / downsample_separate (the image of the pixel set under x -> x >> f, for unaligned and negative left / "
                  "top), upsample, intersection, merge, contains, pad, translate and container_aligned are evaluated from MIR over "
                  "concrete rectangles (aligned and unaligned, negative offsets, empty, one pixel) and compared with the definition "
                  "computed on pixel sets.  downsample_with_shift is not covered (it does not widen for unaligned edges by design; its "
                  "call sites are guarded, R-GUARD D28 / D48)")
    cr = ctx.prog.crate("jxl_render")
    adt = cr.adts.get("jxl_render::region::Region")
    names = [x[0] for x in adt["variants"][0]["fields"]] if adt else []
    if sorted(names) != ["height", "left", "top", "width"]:
        ctx.anchor_missing(rid, "Region { left, top, width, height }")
        return

    def S(r):
        return absint.Struct([dict(zip(("left", "top", "width", "height"), r))[n] for n in names])

    def U(st):
        if not isinstance(st, absint.Struct):
            return None
        d = dict(zip(names, st.fields))
        return (d["left"], d["top"], d["width"], d["height"])

    def call(fname, args):
        f = cr.fns.get("jxl_render::region::Region::" + fname)
        if f is None:
            return "missing"
        ev = absint.Evaluator(ctx.prog)
        ev.wrap_casts = True
        return ev.call_fn(f, args)

    rects = [(0, 0, 16, 16), (3, 5, 7, 4), (1, 1, 2, 2), (-5, -3, 9, 11), (-8, 0, 8, 3), (7, 2, 1, 1), (6, 9, 10, 1), (-1, -1, 1, 1), (4, 4, 0, 5), (2, 3, 5, 0)]

    def span_ds(lo, n, f):
        if n == 0:
            return None
        a, b = lo >> f, (lo + n - 1) >> f
        return a, b - a + 1

    rows, bad, undec, missing = 0, [], None, []

    def chk(fname, args, want, desc, empty_ok=False):
        nonlocal rows, undec
        if undec:
            return
        try:
            r = call(fname, args)
        except absint.Unsupported as e:
            undec = "%s: %s" % (fname, e)
            return
        if r == "missing":
            if fname not in missing:
                missing.append(fname)
            return
        rows += 1
        got = U(r) if isinstance(r, absint.Struct) else r
        if empty_ok and isinstance(got, tuple) and isinstance(want, tuple) and (want[2] == 0 or want[3] == 0):
            ok = got[2] == 0 or got[3] == 0
        else:
            ok = got == want
        if not ok:
            bad.append((fname, desc, got, want))

    for r in rects:
        l, t, w, h = r
        for f in (0, 1, 2, 3):
            if w and h:
                sx, sy = span_ds(l, w, f), span_ds(t, h, f)
                chk("downsample", [S(r), f], (sx[0], sy[0], sx[1], sy[1]), "%s by 2^%d" % (r, f))
            chk("upsample", [S(r), f], (l << f, t << f, w << f, h << f), "%s by 2^%d" % (r, f))
        for fx, fy in ((1, 0), (0, 2), (3, 1)):
            if w and h:
                sx, sy = span_ds(l, w, fx), span_ds(t, h, fy)
                chk("downsample_separate", [S(r), fx, fy], (sx[0], sy[0], sx[1], sy[1]), "%s by 2^%d x 2^%d" % (r, fx, fy))
        chk("translate", [S(r), -3, 4], (l - 3, t + 4, w, h), "%s by (-3, 4)" % (r,))
        chk("pad", [S(r), 2], (l - 2, t - 2, w + 4, h + 4), "%s by 2" % (r,))
        for dim in (8,):
            if w and h:
                a, b = (l // dim) * dim, -((-(l + w)) // dim) * dim
                c, d = (t // dim) * dim, -((-(t + h)) // dim) * dim
                chk("container_aligned", [S(r), dim], (a, c, b - a, d - c), "%s to multiples of %d" % (r, dim))
        for q in rects:
            ql, qt, qw, qh = q
            ix0, ix1 = max(l, ql), min(l + w, ql + qw)
            iy0, iy1 = max(t, qt), min(t + h, qt + qh)
            if w and h and qw and qh and ix0 < ix1 and iy0 < iy1:
                want = (ix0, iy0, ix1 - ix0, iy1 - iy0)
            else:
                want = (0, 0, 0, 0)
            chk("intersection", [S(r), S(q)], want, "%s with %s" % (r, q), empty_ok=True)
            if not (w and h):
                wm = q
            elif not (qw and qh):
                wm = r
            else:
                x0, y0 = min(l, ql), min(t, qt)
                wm = (x0, y0, max(l + w, ql + qw) - x0, max(t + h, qt + qh) - y0)
            if (w and h) or (qw and qh):
                chk("merge", [S(r), S(q)], wm, "%s with %s" % (r, q))
            cont = (not (qw and qh)) or (l <= ql and t <= qt and l + w >= ql + qw and t + h >= qt + qh)
            chk("contains", [S(r), S(q)], int(cont), "%s contains %s" % (r, q))
    ctx.count(rid + ".rows", rows)
    for m in missing:
        ctx.anchor_missing(rid, "jxl_render::region::Region::" + m)
    if undec:
        ctx.bad(rid, "region|not-evaluable", "a Region method is no longer a function the evaluator can decide (%s)" % undec)
        return
    ctx.floor(rid + ".rows", 400)
    if not bad:
        ctx.ok(rid, "region|set-semantics", "%d evaluations equal the definition on pixel sets" % rows, nontrivial=True)
    else:
        fname, desc, got, want = bad[0]
        ctx.bad(rid, "region|set-semantics|" + fname, "Region::%s, %s: returns %s, the definition gives %s (left, top, width, height; %d of %d "
                "evaluations differ, in %s)" % (fname, desc, got, want, len(bad), rows, sorted({b[0] for b in bad})))


def main(pid, tier, repo=None):
    ctx = Ctx(pid, tier, configs=("workspace",), repo=repo)
    rule_region_reset(ctx)
    rule_ecshift(ctx)
    rule_epf_pad(ctx)
    rule_base_region(ctx)
    from . import c15
    c15.rule_orient_region(ctx)     # the requested rectangle reaches the frame in stored coordinates
    rule_region_arith(ctx)
    from . import fixguards
    fixguards.run(ctx, pid)
    ctx.not_decided("the padding amounts for Gabor / upsampling / chroma upsampling / LF smoothing and the group selection (numeric)")
    return ctx.finish(
        "Two structural necessary conditions. (1) Cache invalidation, for 'requesting regions in any sequence never changes what a later "
        "request returns': changing the requested region always reaches reset_cache, which clears the loading caches and replaces the "
        "render handle of every non-ReferenceOnly frame by a fresh one built for the new region (decided on MIR for every request "
        "history). (2) For 'a region render equals the full render': the region handed to the edge-preserving filter is padded by at "
        "least what the filter steps that run can reach, for every iteration count (R-EPF-PAD: constant propagation over "
        "pad_color_region / apply_epf and the kernel tables), and extra channels are shifted consistently (R-ECSHIFT).")


EPF_ADT = "jxl_frame::filter::EdgePreservingFilter"


def rule_epf_pad(ctx):
    """the region handed to the edge-preserving filter is padded by at least the distance the filter steps that run can reach"""
    from ..mirutil import const_walk
    from .. import constval
    rid = "R-EPF-PAD"
    ctx.rule(rid, "for each EPF iteration count 1..3: the padding pad_color_region adds for the filter (sum of the Region::pad amounts on "
                  "the EPF-only part of the function, evaluated by constant propagation with `iters` fixed) is at least the sum, over the "
                  "filter steps apply_epf runs for that count, of the step's reach = max |kernel offset| + max |distance-patch offset| "
                  "(read from the constant tables epf_kernel_offsets::<STEP> / epf_dist_offsets::<STEP> return).  With less padding the "
                  "outermost rows/columns of a cropped render are computed from mirrored samples instead of image samples")
    cr = ctx.prog.crate("jxl_render")
    pad_fn = cr.fn("jxl_render::util::pad_color_region")
    apply_fn = cr.fn("jxl_render::filter::epf::apply_epf")
    kfn = cr.fn("jxl_render::filter::epf::epf_kernel_offsets")
    dfn = cr.fn("jxl_render::filter::epf::epf_dist_offsets")
    adt = ctx.prog.crate("jxl_frame").adts.get(EPF_ADT)
    for nm, x in (("pad_color_region", pad_fn), ("apply_epf", apply_fn), ("epf_kernel_offsets", kfn), ("epf_dist_offsets", dfn), (EPF_ADT, adt)):
        if x is None:
            ctx.anchor_missing(rid, nm)
            return
    for g in (pad_fn, apply_fn, kfn, dfn):
        ctx.seen(g)
    enabled = next((i for i, v in enumerate(adt["variants"]) if v["name"] == "Enabled"), None)
    if enabled is None:
        ctx.anchor_missing(rid, EPF_ADT + "::Enabled")
        return

    def last_field(p):
        fl = [e for e in p[1:] if isinstance(e, list) and e[0] == "."]
        return fl[-1][2] if fl else None

    def table_reach(g, step):
        """max |component| of the offset table g::<step>() returns"""
        items = set()

        def on_term(bb, t, e, val_of):
            for st in g.stmts(bb):
                if st[0] == "=" and st[2][0] == "use" and st[2][1][0] == "k" and isinstance(st[2][1][1], dict) and st[2][1][1].get("item"):
                    items.add(st[2][1][1]["item"])
            return None if t[0] != "call" else False     # a call here is the `panic!()` arm

        const_walk(g, 0, {}, on_term, const_param={"STEP": step})
        if len(items) != 1:
            return None
        pg = cr.fns.get(next(iter(items)))
        if pg is None:
            return None
        vals = []
        for blk in pg.blocks:
            for st in blk[0]:
                if st[0] != "=":
                    continue
                rv = st[2]
                if rv[0] == "use" and rv[1][0] == "k" and isinstance(rv[1][1], dict) and rv[1][1].get("item") in cr.consts:
                    vals += [x for x in constval.flat(constval.parse(cr.consts[rv[1][1]["item"]]["value"])) if isinstance(x, int)]
                elif rv[0] == "agg" and rv[1][0] == "tuple":
                    for o in rv[2]:
                        k = op_const_int(o)
                        if k is None:
                            return None
                        vals.append(k)
        return max(abs(x) for x in vals) if vals else None

    reach = {}
    for step in (0, 1, 2):
        a, b = table_reach(kfn, step), table_reach(dfn, step)
        if a is None or b is None:
            ctx.bad(rid, "reach-not-evaluable:step%d" % step, "cannot read the kernel / distance offset tables of EPF step %d" % step, fn=kfn)
            return
        reach[step] = a + b
    ctx.ok(rid, "step-reach", "reach of steps 0,1,2 = %s (kernel + patch)" % [reach[s] for s in (0, 1, 2)], nontrivial=True, fn=kfn)

    def eval_helper(h, args):
        rets = set()

        def on_term(bb, t, e, val_of):
            if t[0] == "ret":
                rets.add(e.get(0))
        try:
            const_walk(h, 0, {i + 1: a for i, a in enumerate(args)}, on_term, limit=4000)
        except RuntimeError:
            return None
        return next(iter(rets)) if len(rets) == 1 else None

    def helper_call(t, e, val_of):
        c = callee(t)
        h = (cr.fn(c.get("res") or c["fn"]) or cr.fn(c["fn"])) if c else None
        if h is None or not t[3] or len(t[3]) != 1 or len(h.blocks) > 200:
            return
        args = [val_of(a, e) for a in t[2]]
        if args and all(a is not None for a in args) and h.local_ty(0) in ("u32", "usize", "i32", "u8", "u64", "isize"):
            r = eval_helper(h, args)
            if r is not None:
                e[t[3][0]] = r

    worst = None
    for iters in (1, 2, 3):
        pv = lambda p, iters=iters: iters if last_field(p) == "iters" else None
        # steps apply_epf runs
        steps = set()

        def on_apply(bb, t, e, val_of):
            if t[0] == "call":
                c = callee(t)
                if c and c["fn"].startswith("jxl_render::filter::impls::") and c["fn"].split("::")[-1] == "epf" and c.get("args"):
                    if str(c["args"][0]).isdigit():
                        steps.add(int(c["args"][0]))
                helper_call(t, e, val_of)

        const_walk(apply_fn, 0, {}, on_apply, place_value=pv)
        if not steps or not steps <= {0, 1, 2}:
            ctx.bad(rid, "steps-not-evaluable:iters%d" % iters, "cannot determine which EPF steps apply_epf runs for iters = %d (found %s)" % (iters, sorted(steps)), fn=apply_fn)
            return
        need = sum(reach[s] for s in steps)
        # padding pad_color_region adds on its EPF-only part
        sw = None
        for b, blk in enumerate(pad_fn.blocks):
            if blk[2] or blk[1][0] != "switch":
                continue
            if any(st[0] == "=" and st[2][0] == "discr" and last_field(st[2][1]) == "epf" for st in blk[0]):
                sw = b
        if sw is None:
            ctx.anchor_missing(rid, "the match on restoration_filter.epf in pad_color_region")
            return
        t = pad_fn.term(sw)
        en = next((x for v, x in t[2] if int(v) == enabled), t[3])
        others = [x for v, x in t[2] if int(v) != enabled] + ([t[3]] if en != t[3] else [])
        epf_only = pad_fn.reachable(en) | {en}
        for o in others:
            epf_only -= pad_fn.reachable(o) | {o}
        pads = set()

        def on_pad(bb, t, e, val_of):
            if t[0] == "call":
                c = callee(t)
                if c and c["fn"].endswith("region::Region::pad") and bb in epf_only and len(t[2]) == 2:
                    v = val_of(t[2][1], e)
                    e["pad"] = None if (v is None or e.get("pad", 0) is None) else e.get("pad", 0) + v
                else:
                    helper_call(t, e, val_of)
            elif t[0] == "ret":
                pads.add(e.get("pad", 0))

        const_walk(pad_fn, 0, {}, on_pad, place_value=pv, discr=lambda p: enabled if last_field(p) == "epf" else None)
        if not pads or None in pads:
            ctx.bad(rid, "pad-not-evaluable:iters%d" % iters, "cannot evaluate the padding pad_color_region adds for EPF with iters = %d" % iters, fn=pad_fn)
            return
        got = min(pads)
        if got >= need:
            ctx.ok(rid, "pad-covers-reach:iters%d" % iters, "iters = %d: steps %s reach %d, padded by %d" % (iters, sorted(steps), need, got), nontrivial=True, fn=pad_fn)
        else:
            ctx.bad(rid, "pad-below-reach:iters%d" % iters, "with %d EPF iteration(s) apply_epf runs steps %s, which read up to %d samples beyond the "
                    "region, but pad_color_region pads the requested region by only %d: the outermost rows/columns of a cropped render are "
                    "filtered from mirrored samples and differ from the full render" % (iters, sorted(steps), need, got), fn=pad_fn)


def rule_base_region(ctx):
    """blend() takes from the base frame's planes only what they cover"""
    from .c05 import scalar_taint
    from ..mirutil import Defs, access_path
    rid = "R-BASE-REGION"
    ctx.rule(rid, "blend() cuts the requested region out of the base frame's planes (the plane being blended onto, and the base alpha "
                  "plane).  A base frame that is not itself composited keeps the buffers it rendered for its own padded region, aligned "
                  "in its own coordinates, and composite() pads the request with the consuming frame's margins: the request need not be "
                  "contained in the base planes (different upsampling / filters in the two frames, an offset that is not a multiple of "
                  "the base frame's alignment).  The region list of the base grid therefore has to flow into a Region::intersection "
                  "(today: the requested region is intersected with base_grid.regions_and_shifts()[idx] and [alpha]) - on the "
                  "unrepaired tree it only fed translate(), and the subgrid ran out of range (D41 / D47).  Blending is pointwise, so "
                  "clipping to what the base covers loses padding only")
    f = ctx.prog.crate("jxl_render").fn("jxl_render::blend::blend")
    if f is None:
        ctx.anchor_missing(rid, "jxl_render::blend::blend")
        return
    ctx.seen(f)
    defs = Defs(f)
    new_grid_arg = next((i for i in range(1, f.argc + 1) if "&mut jxl_render::image::ImageWithRegion" in f.local_ty(i)), None)
    seeds = set()
    for b, t in f.calls():
        c = callee(t)
        if c and c["fn"].endswith("ImageWithRegion::regions_and_shifts") and t[2] and t[3] and len(t[3]) == 1:
            recv = op_local(t[2][0])
            ap = access_path(f, defs, recv) if recv is not None else None
            if not (ap is not None and ap[0] == new_grid_arg and not ap[1]):
                seeds.add(t[3][0])
    ctx.count(rid + ".base-region-lookups", len(seeds))
    if not seeds:
        ctx.anchor_missing(rid, "regions_and_shifts() of the base grid in blend()")
        return
    T = scalar_taint(f, seeds)
    n = 0
    for b, t in f.calls():
        c = callee(t)
        if c and c["fn"].endswith("region::Region::intersection") and any(op_local(a) in T for a in t[2] if op_local(a) is not None):
            n += 1
    ctx.count(rid + ".intersections", n)
    if n:
        ctx.ok(rid, "base-region-intersected", "%d Region::intersection call(s) take the base grid's regions" % n, nontrivial=True, fn=f)
    else:
        ctx.bad(rid, "base-region-unchecked", "blend() never intersects the requested region with the regions of the base frame's planes: a "
                "request that sticks out of them (base and new frame padded / aligned differently) takes an out-of-range subgrid", fn=f)
    ctx.floor(rid + ".base-region-lookups", 3)

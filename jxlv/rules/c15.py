"""C15 — output buffers agree with each other and honour orientation (claimed in part: the coordinate maps):
R-ORIENT (the three hand-written orientation maps are mutually inverse / equal, by symbolic affine evaluation of MIR),
R-CHANORDER (channel order and alignment of the parallel vectors in ImageStream::from_render)."""
from fractions import Fraction

from .. import absint
from ..absint import Affine
from ..engine import Ctx
from ..facts import callee, op_local, op_place, pos_line
from ..mirutil import Defs, access_path, find_path_edges

APPLY = "jxl_image::ImageMetadata::apply_orientation"
TO_ORIG = "jxl_oxide::fb::ImageStream::<'_>::to_original_coord"
FROM_GRIDS = "jxl_oxide::fb::FrameBuffer::from_grids"
FROM_RENDER = "jxl_oxide::fb::ImageStream::<'r>::from_render"

X, Y, W, H = Affine.var("x"), Affine.var("y"), Affine.var("w"), Affine.var("h")

# the eight EXIF orientations as source(x, y; w, h) -> oriented coordinates, and the oriented dimensions
REF_FWD = {
    1: (X, Y), 2: (W - X - 1, Y), 3: (W - X - 1, H - Y - 1), 4: (X, H - Y - 1),
    5: (Y, X), 6: (H - Y - 1, X), 7: (H - Y - 1, W - X - 1), 8: (Y, W - X - 1),
}


def subst(a, m):
    """substitute variables of an affine form by affine forms"""
    r = Affine()
    for k, v in a.c.items():
        if k == 1:
            r = r + Affine({1: v})
        else:
            t = m[k]
            r = r + Affine({kk: vv * v for kk, vv in t.c.items()})
    return r


def as_aff(v):
    if isinstance(v, Affine):
        return v
    if isinstance(v, int):
        return Affine.const(v)
    raise absint.Unsupported("not affine: %r" % (v,))


def eval_apply(prog, f, k, inverse):
    env = {("self", "orientation"): k}
    ev = absint.Evaluator(prog, ext=lambda p: env.get(p, absint.UNKNOWN))
    r = ev.call_fn(f, [absint.Ref(("ext", "self")), W, H, X, Y, inverse])
    return tuple(as_aff(x) for x in r)


def eval_to_orig(prog, f, k):
    env = {("self", "orientation"): k, ("self", "width"): W, ("self", "height"): H}
    ev = absint.Evaluator(prog, ext=lambda p: env.get(p, absint.UNKNOWN))
    r = ev.call_fn(f, [absint.Ref(("ext", "self")), X, Y])
    return tuple(as_aff(x) for x in r)


def named(f, name):
    return [i for i, l in enumerate(f.locals) if l[1] == name]


def eval_from_grids(prog, f, k, targets):
    """evaluate the arm for orientation k of the switch in from_grids that assigns the named locals `targets`"""
    ori = named(f, "orientation")
    tl = [named(f, t) for t in targets]
    if not ori or not all(tl):
        raise absint.Unsupported("from_grids: locals %s/orientation not found" % (targets,))
    env0 = {}
    for nm, v in (("x", X), ("y", Y), ("width", W), ("height", H)):
        for l in named(f, nm):
            env0[l] = v
    for l in ori:
        env0[l] = k
    last = None
    if targets == ("outw", "outh"):
        # the dimension match is lowered to range comparisons: evaluate from just after the last (re)binding of `height`
        hs = set(named(f, "height"))
        pos = None
        for b, blk in enumerate(f.blocks):
            if f.is_cleanup(b):
                continue
            for i, st in enumerate(blk[0]):
                if st[0] == "=" and len(st[1]) == 1 and st[1][0] in hs:
                    if pos is None or (b, i) > pos:
                        pos = (b, i)
        if pos is None:
            raise absint.Unsupported("from_grids: no binding of `height`")
        ev = absint.Evaluator(prog, max_steps=400)
        env = ev.eval_from(f, pos[0], dict(env0), [x[0] for x in tl], start_stmt=pos[1] + 1)
        return tuple(as_aff(env[x[0]]) for x in tl)
    for b in range(len(f.blocks)):
        t = f.term(b)
        if t[0] != "switch" or f.is_cleanup(b):
            continue
        l = op_local(t[1])
        # the switch operand is (a copy of) orientation
        src = l
        for st in f.stmts(b):
            if st[0] == "=" and st[1] == [l] and st[2][0] == "use":
                src = op_local(st[2][1])
        if src not in ori and l not in ori:
            continue
        tgt = t[3]
        for v, x in t[2]:
            if int(v) == k:
                tgt = x
        try:
            ev = absint.Evaluator(prog, max_steps=400)
            env = ev.eval_from(f, tgt, dict(env0), [x[0] for x in tl])
            return tuple(as_aff(env[x[0]]) for x in tl)
        except absint.Unsupported as e:
            last = e
            continue
    # the map may live in a private helper: evaluate from the call whose result is destructured into the targets (the evaluator
    # follows calls to local functions, the orientation argument is the constant k)
    for b, t in f.calls():
        c = callee(t)
        if not c or f.is_cleanup(b):
            continue
        g = prog.fn(c.get("res", c["fn"])) or prog.fn(c["fn"])
        if g is None or g.crate != f.crate or not f.local_ty(t[3][0]).startswith("("):
            continue
        if not any(op_local(a) in ori or (op_local(a) is not None and any(st[0] == "=" and st[1] == [op_local(a)] and st[2][0] == "use"
                   and op_local(st[2][1]) in ori for st in f.stmts(b))) for a in t[2]):
            continue
        try:
            ev = absint.Evaluator(prog, max_steps=2000)
            ev.lenient = True
            env = ev.eval_from(f, b, dict(env0), [x[0] for x in tl])
            return tuple(as_aff(env[x[0]]) for x in tl)
        except absint.Unsupported as e:
            last = e
            continue
    raise absint.Unsupported("no orientation switch assigns %s (%s)" % (targets, last))


def rule_orient(ctx):
    rid = "R-ORIENT"
    ctx.rule(rid, "for each orientation k in 1..8 the straight-line arithmetic of the matching arm of (a) FrameBuffer::from_grids, "
                  "(b) ImageStream::to_original_coord, (c) ImageMetadata::apply_orientation forward/inverse is evaluated symbolically "
                  "into affine forms over {x, y, w, h, 1}; required: a_k = c_fwd,k = the EXIF map; c_inv,k = b_k; b_k o a_k = id with the "
                  "oriented dimensions (w,h) for k<=4 and (h,w) for k>=5; all three agree on the dimension swap. Identities on affine "
                  "maps are decided by coefficient comparison")
    prog = ctx.prog
    fa = prog.fn(APPLY)
    fb = prog.fn(TO_ORIG)
    fg = prog.fn(FROM_GRIDS)
    for p, f in ((APPLY, fa), (TO_ORIG, fb), (FROM_GRIDS, fg)):
        if f is None:
            ctx.anchor_missing(rid, p)
    if fa is None or fb is None or fg is None:
        return
    for f in (fa, fb, fg):
        ctx.seen(f)
    for k in range(1, 9):
        try:
            cf = eval_apply(prog, fa, k, 0)
            ci = eval_apply(prog, fa, k, 1)
            bk = eval_to_orig(prog, fb, k)
            ak = eval_from_grids(prog, fg, k, ("outx", "outy"))
            dg = eval_from_grids(prog, fg, k, ("outw", "outh"))
        except absint.Unsupported as e:
            ctx.bad(rid, "orientation-%d|not-evaluable" % k, "cannot evaluate an orientation arm symbolically (%s): the maps are no longer straight-line "
                    "affine arithmetic on x, y, width, height" % e, fn=fa)
            continue
        want_dims = (W, H) if k <= 4 else (H, W)
        ref = REF_FWD[k]
        checks = [
            ("from_grids-map", FROM_GRIDS, ak, ref, "source->output map of FrameBuffer::from_grids"),
            ("apply-forward-map", APPLY, cf[2:], ref, "forward map of ImageMetadata::apply_orientation"),
            ("apply-forward-dims", APPLY, cf[:2], want_dims, "oriented dimensions of apply_orientation"),
            ("apply-inverse-dims", APPLY, ci[:2], want_dims, "dimensions of apply_orientation(inverse)"),
            ("from_grids-dims", FROM_GRIDS, dg, want_dims, "output dimensions of from_grids"),
            ("inverse-equals-stream-map", APPLY, ci[2:], bk, "apply_orientation(inverse) vs ImageStream::to_original_coord"),
        ]
        # b_k o a_k = id, with b's width/height being the oriented dims
        m = {"x": ak[0], "y": ak[1], "w": want_dims[0], "h": want_dims[1]}
        comp = (subst(bk[0], m), subst(bk[1], m))
        checks.append(("stream-map-inverts-buffer-map", TO_ORIG, comp, (X, Y), "to_original_coord o from_grids"))
        # c_inv o c_fwd = id
        m2 = {"x": cf[2], "y": cf[3], "w": want_dims[0], "h": want_dims[1]}
        comp2 = (subst(ci[2], m2), subst(ci[3], m2))
        checks.append(("inverse-inverts-forward", APPLY, comp2, (X, Y), "apply_orientation(inverse) o apply_orientation(forward)"))
        for nm, path, got, want, what in checks:
            key = "orientation-%d|%s" % (k, nm)
            if tuple(got) == tuple(want):
                ctx.ok(rid, key, "%s = %s" % (what, tuple(got)), nontrivial=True, fn=prog.fn(path))
            else:
                ctx.bad(rid, key, "orientation %d: %s is %s, required %s" % (k, what, tuple(got), tuple(want)), fn=prog.fn(path))
    ctx.floor(rid, 60)


def rule_chanorder(ctx):
    rid = "R-CHANORDER"
    ctx.rule(rid, "in ImageStream::from_render the extra pushes into `grids` happen in the order black (only on the is_cmyk edge, channel "
                  "selected by is_black) then alpha (only on the !skip_alpha edge, selected by is_alpha), and each is followed by the "
                  "matching bit_depth and start_offset_xy pushes before the loop is left (three parallel vectors stay aligned); "
                  "width/height are swapped exactly for orientation >= 5")
    f = ctx.prog.fn(FROM_RENDER)
    if f is None:
        cands = [x for x in ctx.prog.crate("jxl_oxide").fn_list if x.path.endswith("::from_render") and "ImageStream" in x.path]
        f = cands[0] if cands else None
    if f is None:
        ctx.anchor_missing(rid, FROM_RENDER)
        return
    ctx.seen(f)
    defs = Defs(f)
    pushes = {}
    for b, t in f.calls():
        c = callee(t)
        if c and c["fn"] == "alloc::vec::Vec::<T, A>::push" and t[2]:
            l = op_local(t[2][0])
            ap = access_path(f, defs, l) if l is not None else None
            nm = f.local_name(ap[0]) if ap and not ap[1] else None
            if nm:
                pushes.setdefault(nm, []).append(b)
    sel = {}
    for b, t in f.calls():
        c = callee(t)
        if c and c["fn"].endswith("::is_black"):
            sel["black"] = b
        if c and c["fn"].endswith("::is_alpha"):
            sel["alpha"] = b
    # a selector may also sit in a closure built here (`.filter(|..| ec.is_alpha())`): use the block that builds the closure
    for b, blk in enumerate(f.blocks):
        for st in blk[0]:
            if st[0] == "=" and st[2][0] == "agg" and st[2][1][0] == "closure":
                cf = ctx.prog.fn(st[2][1][1])
                if cf is None:
                    continue
                for _, ct in cf.calls():
                    cc = callee(ct)
                    if cc and cc["fn"].endswith("::is_black") and "black" not in sel:
                        sel["black"] = b
                    if cc and cc["fn"].endswith("::is_alpha") and "alpha" not in sel:
                        sel["alpha"] = b
    g = pushes.get("grids", [])
    if len(g) != 2 or "black" not in sel or "alpha" not in sel:
        ctx.bad(rid, "from_render|shape", "expected two pushes into `grids` selected by is_black / is_alpha (found %d pushes, selectors %s)" % (len(g), sorted(sel)), fn=f)
        return
    # which push is black: dominated by is_black call
    gb = [b for b in g if f.dominates(sel["black"], b) and not f.dominates(sel["alpha"], b)]
    ga = [b for b in g if f.dominates(sel["alpha"], b)]
    if len(gb) != 1 or len(ga) != 1:
        ctx.bad(rid, "from_render|selector", "the black/alpha channel pushes are not selected by is_black()/is_alpha()", fn=f)
        return
    gb, ga = gb[0], ga[0]
    # each extra grid is pushed at most once: the push is not on a cycle (the loops `break` after the first match)
    for nm, blk in (("black", gb), ("alpha", ga)):
        nxt = f.term(blk)[4]
        if nxt is not None and blk in f.reachable(nxt):
            ctx.bad(rid, "from_render|%s-pushed-repeatedly" % nm, "the %s grid push lies on a loop without leaving it: every %s-typed extra channel is appended, so the "
                    "stream has more channels than pixel_format() reports and the documented order colour, black, alpha is lost" % (nm, nm), fn=f, pos=f.term_pos(blk))
        else:
            ctx.ok(rid, "once:%s" % nm, "the push is not on a cycle (first match only)", nontrivial=True, fn=f)
    if gb in f.reachable(ga):
        ctx.bad(rid, "from_render|order", "the black channel can be appended after the alpha channel: documented order is colour, black, alpha", fn=f, pos=f.term_pos(gb))
    else:
        ctx.ok(rid, "order:colour-black-alpha", "black push precedes and is unreachable from the alpha push", nontrivial=True, fn=f)
    # guards
    def bool_edges(name, want_true):
        es = set()
        for b in range(len(f.blocks)):
            t = f.term(b)
            if t[0] != "switch":
                continue
            l = op_local(t[1])
            neg = False
            okk = False
            seen = set()
            cur = l
            while cur is not None and cur not in seen:
                seen.add(cur)
                if f.local_name(cur) == name:
                    okk = True
                    break
                d = defs.single(cur)
                if not d or d[2] != "assign":
                    break
                rv = d[3][2]
                if rv[0] == "un" and rv[1] == "Not":
                    neg = not neg
                    cur = op_local(rv[2])
                    continue
                if rv[0] == "use":
                    p = op_place(rv[1])
                    if p is not None and len(p) > 1 and any(isinstance(e, list) and e[0] == "." and e[2] == name for e in p[1:]):
                        okk = True
                        break
                    cur = p[0] if p is not None and len(p) == 1 else None
                    continue
                break
            if not okk:
                continue
            truth_on_nonzero = not neg
            for v, x in t[2]:
                if v == "0" and (truth_on_nonzero != want_true):
                    es.add((b, x, v))
            if any(v == "0" for v, _ in t[2]) and (truth_on_nonzero == want_true):
                es.add((b, t[3], "otherwise"))
        return es
    e_cmyk = bool_edges("is_cmyk", True)
    e_alpha = bool_edges("skip_alpha", False)
    for nm, blk, es, why in (("black-only-if-cmyk", gb, e_cmyk, "is_cmyk"), ("alpha-only-if-not-skipped", ga, e_alpha, "!skip_alpha")):
        if es and find_path_edges(f, [0], lambda x: x == blk, avoid_edge=lambda x, s, lab: (x, s, lab) in es) is None:
            ctx.ok(rid, nm, "push reachable only through %s" % why, nontrivial=True, fn=f)
        else:
            ctx.bad(rid, "from_render|" + nm, "the channel push is not guarded by %s" % why, fn=f, pos=f.term_pos(blk))
    # parallel vectors
    for nm, blk in (("black", gb), ("alpha", ga)):
        for vec in ("bit_depth", "start_offset_xy"):
            vb = [b for b in pushes.get(vec, []) if b in f.reachable(blk)]
            # from the grids push, every path to function return / to the next selector passes a push of vec
            stop = set(pushes.get(vec, []))
            nxt = f.term(blk)[4]
            p = find_path_edges(f, [nxt], lambda x: f.term(x)[0] == "ret" or x == (sel["alpha"] if nm == "black" else -1),
                                avoid_block=lambda x: x in stop) if nxt not in stop else None
            if p is None:
                ctx.ok(rid, "aligned:%s:%s" % (nm, vec), "every path after grids.push passes %s.push" % vec, nontrivial=True, fn=f)
            else:
                ctx.bad(rid, "from_render|misaligned:%s:%s" % (nm, vec), "after pushing the %s grid a path continues without pushing %s: the parallel vectors lose alignment" % (nm, vec), fn=f, path=p)
    # dimension swap predicate
    from ..validation import subject_name
    swap = [b for b, t in f.calls() if callee(t) and callee(t)["fn"] == "core::mem::swap"]
    okswap = False
    for sb in swap:
        for b in range(len(f.blocks)):
            t = f.term(b)
            if t[0] != "switch":
                continue
            l = op_local(t[1])
            for st in f.stmts(b):
                if st[0] == "=" and st[1] == [l] and st[2][0] == "bin" and st[2][1] in ("Ge", "Gt"):
                    a = subject_name(f, defs, st[2][2])
                    c2 = subject_name(f, defs, st[2][3])
                    if "orientation" in str(a) and ((st[2][1] == "Ge" and c2 == 5) or (st[2][1] == "Gt" and c2 == 4)):
                        te = {(b, t[3], "otherwise")} if any(v == "0" for v, _ in t[2]) else set()
                        if te and find_path_edges(f, [0], lambda x: x == sb, avoid_edge=lambda x, s, lab: (x, s, lab) in te) is None:
                            okswap = True
    if okswap:
        ctx.ok(rid, "dims-swapped-iff-orientation>=5", "mem::swap(width, height) only behind orientation >= 5", nontrivial=True, fn=f)
    else:
        ctx.bad(rid, "from_render|dims-swap", "width/height of the stream are not swapped exactly for orientation >= 5", fn=f)


def rule_orient_order(ctx):
    """the frame origin is subtracted in unoriented coordinates: orientation is undone first, then the region is translated"""
    from ..facts import callee, op_local, op_place
    from ..mirutil import Defs, strip_generics, helper_reaches
    rid = "R-ORIENT-ORDER"
    ctx.rule(rid, "in jxl-oxide, a requested region is mapped back through the orientation (Region::apply_orientation) before the "
                  "keyframe's frame origin (x0, y0 - unoriented frame coordinates) is subtracted with Region::translate; no "
                  "apply_orientation is applied to a region that was already translated by a frame origin. (Data-flow order of the two "
                  "coordinate transforms; they commute only for orientation 1 or an origin of (0,0).)")
    ox = ctx.prog.crate("jxl_oxide")
    n = 0
    for f in ox.fn_list:
        calls = [(b, t) for b, t in f.calls() if callee(t)]
        tr = [(b, t) for b, t in calls if strip_generics(callee(t)["fn"]).endswith("region::Region::translate")]
        ao = [(b, t) for b, t in calls if strip_generics(callee(t)["fn"]).endswith("region::Region::apply_orientation")]
        if not tr:
            continue
        defs = Defs(f)
        ctx.seen(f)

        def producer(l, depth=0):
            """the call whose result (through moves/copies/refs) is local l"""
            while l is not None and depth < 12:
                depth += 1
                d = defs.single(l)
                if d is None:
                    return None
                if d[2] == "call":
                    return d[3]
                if d[2] == "assign":
                    rv = d[3][2]
                    if rv[0] == "use":
                        pl = op_place(rv[1])
                        l = pl[0] if pl is not None else None
                        continue
                    if rv[0] == "ref":
                        l = rv[2][0]
                        continue
                return None
            return None

        def uses_frame_origin(t):
            for a in t[2][1:]:
                l = op_local(a)
                seen = set()
                while l is not None and l not in seen:
                    seen.add(l)
                    d = defs.single(l)
                    if not d or d[2] != "assign":
                        break
                    rv = d[3][2]
                    o = rv[2] if rv[0] in ("un", "cast") else (rv[1] if rv[0] == "use" else None)
                    if o is None:
                        break
                    pl = op_place(o)
                    if pl is None:
                        break
                    if any(isinstance(e, list) and e[0] == "." and e[2] in ("x0", "y0") for e in pl[1:]):
                        return True
                    l = pl[0] if len(pl) == 1 else None
            return False

        for b, t in tr:
            if not uses_frame_origin(t):
                continue
            n += 1
            src = producer(op_local(t[2][0]))
            sc = strip_generics(callee(src)["fn"]) if src is not None and callee(src) else "?"
            key = "translate-after-orientation:%s" % f.path
            via_helper = False
            if src is not None and callee(src) and not sc.endswith("Region::apply_orientation"):
                h = ox.fns.get(callee(src).get("res") or callee(src)["fn"]) or ox.fns.get(callee(src)["fn"])
                via_helper = h is not None and helper_reaches(ox, h, lambda nm: strip_generics(nm).endswith("region::Region::apply_orientation"), depth=1)
            if sc.endswith("Region::apply_orientation") or via_helper:
                ctx.ok(rid, key, "translate(-x0, -y0) is applied to the result of apply_orientation", nontrivial=True, fn=f)
            else:
                ctx.bad(rid, key + "|wrong-order", "the frame origin is subtracted from a region that has not been mapped back through the "
                        "orientation (its source is %s): for an oriented image whose keyframe has a non-zero origin the copy window is "
                        "displaced" % sc.split("::")[-1], fn=f, pos=t[-2])
        for b, t in ao:
            src = producer(op_local(t[2][0]))
            if src is not None and callee(src) and strip_generics(callee(src)["fn"]).endswith("Region::translate") and uses_frame_origin(src):
                ctx.bad(rid, "orientation-after-translate:%s" % f.path, "apply_orientation is applied to a region already translated by the frame "
                        "origin: the origin is in unoriented coordinates", fn=f, pos=t[-2])
    ctx.counts[rid + ".sites"] = n
    ctx.floor(rid + ".sites", 1)


def rule_stream_cursor(ctx):
    """the sample stream can be drained in pieces: each cursor is advanced where it is consumed"""
    rid = "R-STREAM-CURSOR"
    ctx.rule(rid, "ImageStream::write_to_buffer is resumable: the caller may drain the stream with buffers of any length, so the position "
                  "(y, x, c) lives in the stream and every component is advanced by a store of `component + 1` (checked add of the "
                  "component's own load) - not only reset to 0.  A component that is read into a local loop variable and never "
                  "written back is lost when the buffer runs out in the middle of a pixel: the next call re-emits channels already "
                  "written and every later sample is shifted")
    ox = ctx.prog.crate("jxl_oxide")
    fs = [f for f in ox.fn_list if f.path.endswith("::write_to_buffer") and "ImageStream" in f.path and f.kind != "Promoted"]
    if len(fs) != 1:
        ctx.anchor_missing(rid, "jxl_oxide::fb::ImageStream::write_to_buffer")
        return
    f = fs[0]
    ctx.seen(f)
    from ..mirutil import Defs
    defs = Defs(f)
    advanced = set()
    for blk in f.blocks:
        if blk[2]:
            continue
        for st in blk[0]:
            if st[0] != "=" or len(st[1]) < 2:
                continue
            fl = [e for e in st[1][1:] if isinstance(e, list) and e[0] == "."]
            if not fl or fl[-1][2] not in ("x", "y", "c") or "ImageStream" not in str(fl[-1][3]):
                continue
            fld = fl[-1][2]
            # the stored value: .0 of a checked add whose left operand is a load of the same field and right operand the constant 1
            rv = st[2]
            p = op_place(rv[1]) if rv[0] == "use" else None
            if p is None:
                continue
            d = defs.single(p[0])
            if not (d and d[2] == "assign" and d[3][2][0] == "bin" and d[3][2][1] in ("AddWithOverflow", "Add", "AddUnchecked")):
                continue
            a, c = d[3][2][2], d[3][2][3]
            from ..facts import op_const_int
            if op_const_int(c) != 1 and op_const_int(a) != 1:
                continue
            src = a if op_const_int(c) == 1 else c
            l = op_local(src)
            seen = set()
            ok = False
            sp = op_place(src)
            if sp is not None and len(sp) > 1:
                sf = [e for e in sp[1:] if isinstance(e, list) and e[0] == "."]
                ok = bool(sf) and sf[-1][2] == fld
                l = None
            while l is not None and l not in seen:
                seen.add(l)
                dd = defs.single(l)
                if not dd or dd[2] != "assign" or dd[3][2][0] != "use":
                    break
                q = op_place(dd[3][2][1])
                if q is None:
                    break
                qf = [e for e in q[1:] if isinstance(e, list) and e[0] == "."]
                if qf and qf[-1][2] == fld:
                    ok = True
                    break
                l = q[0] if len(q) == 1 else None
            if ok:
                advanced.add(fld)
    for fld in ("y", "x", "c"):
        if fld in advanced:
            ctx.ok(rid, "advanced:" + fld, "the `%s` cursor is advanced by a store of `%s + 1`" % (fld, fld), nontrivial=True, fn=f)
        else:
            ctx.bad(rid, "not-advanced:" + fld, "write_to_buffer never stores `%s + 1` into the stream's `%s` cursor: a write that stops in the "
                    "middle of that dimension restarts it on the next call" % (fld, fld), fn=f)


def rule_int_fastpath(ctx):
    """the integer copy shortcut of the u8 / u16 writers is taken for integer samples only"""
    rid = "R-INT-FASTPATH"
    ctx.rule(rid, "<u8 / u16 as Sealed>::copy_from_grid copy an integer grid sample straight into the output when the channel's depth is "
                  "exactly the output's (8 / 16 bit integer samples).  A float-sample channel of 8 or 16 bits stores the float's bit "
                  "pattern in the integer grid, so the shortcut must be decided by the *variant* of BitDepth: the function (or a "
                  "helper of this crate) reads the discriminant of a BitDepth value.  A test on bits_per_sample() alone, which both "
                  "variants answer, clamps a half-float's bit pattern as if it were a sample")
    ox = ctx.prog.crate("jxl_oxide")
    n = 0
    for f in ox.fn_list:
        if f.kind == "Promoted" or not f.path.endswith("::copy_from_grid") or not ("<u8 as" in f.path or "<u16 as" in f.path):
            continue
        n += 1
        ctx.seen(f)
        fam = [f] + [ox.fns[c["fn"]] for _, t in f.calls() for c in [callee(t)] if c and c["fn"] in ox.fns]
        has = False
        for g in fam:
            for blk in g.blocks:
                if blk[2]:
                    continue
                for st in blk[0]:
                    if st[0] == "=" and st[2][0] == "discr" and "BitDepth" in g.local_ty(st[2][1][0]):
                        has = True
        if has:
            ctx.ok(rid, "variant-tested:" + f.path, "the shortcut is decided by the BitDepth variant", nontrivial=True, fn=f)
        else:
            ctx.bad(rid, "variant-not-tested:" + f.path, "copy_from_grid takes its integer shortcut without looking at the BitDepth variant: a "
                    "float-sample channel of the same width is copied as if its bit patterns were integers", fn=f)
    ctx.count(rid + ".writers", n)
    ctx.floor(rid + ".writers", 2)


def rule_narrowcast(ctx):
    """integer samples written to a u8 / u16 output saturate: no truncating cast of an unbounded value"""
    from .. import intervals as IV
    rid = "R-SATURATE"
    ctx.rule(rid, "in the integer output conversions (jxl_oxide::fb, the FrameBuffer sample impls for u8 and u16) every integer-to-integer "
                  "cast to the output type has an operand whose interval (from the source type, clamp / min / max with constants, "
                  "arithmetic) lies inside the output type's range: a sample above the maximum saturates instead of wrapping (300 -> 255, "
                  "not 44).  Float-to-integer `as` casts saturate by definition and are not sites")
    ox = ctx.prog.crate("jxl_oxide")
    n = 0
    for f in ox.fn_list:
        if f.kind == "Promoted" or "jxl_oxide::fb::" not in f.path:
            continue
        if not ("<u8 as" in f.path or "<u16 as" in f.path):
            continue
        fi = None
        for b, blk in enumerate(f.blocks):
            if blk[2]:
                continue
            for st in blk[0]:
                if st[0] != "=" or st[2][0] != "cast" or st[2][1] != "IntToInt" or st[2][3] not in ("u8", "u16"):
                    continue
                p = op_place(st[2][2])
                sty = f.local_ty(p[0]) if p is not None and len(p) == 1 else None
                if sty == st[2][3] or sty is None:
                    continue
                if fi is None:
                    fi = IV.FnIntervals(f, {}, ctx.prog)
                    ctx.seen(f)
                n += 1
                v = fi.op(st[2][2])
                r = IV.ty_range(st[2][3])
                key = "%s|%s->%s" % (f.path, sty, st[2][3])
                if v is not None and v.within(r):
                    ctx.ok(rid, key, "operand in [%d, %d]" % (v.lo, v.hi), nontrivial=True, fn=f)
                else:
                    ctx.bad(rid, key + "|wraps", "%s casts an %s that can be %s to %s with a wrapping `as`: samples outside the output range "
                            "wrap around instead of saturating, so the %s stream disagrees with the float and 16-bit outputs"
                            % (f.path, sty, "[%d, %d]" % (v.lo, v.hi) if v is not None else "anything", st[2][3], st[2][3]), fn=f, pos=st[3])
    ctx.count(rid + ".casts", n)
    ctx.floor(rid + ".casts", 3)


def rule_orient_region(ctx):
    """Region::apply_orientation maps a rectangle of the displayed image to the rectangle of stored pixels it shows"""
    from .. import absint
    rid = "R-ORIENT-REGION"
    ctx.rule(rid, "a requested rectangle is given in displayed (oriented) coordinates; Region::apply_orientation has to return the "
                  "rectangle of stored pixels that are displayed inside it.  For each of the eight orientations and five rectangles of "
                  "a 44x28 stored image (interior, one pixel, touching each far edge, the full image) the function is evaluated from "
                  "MIR over concrete integers (nothing is run: comparisons, the helper calls into jxl_image, mem::swap and abs_diff are "
                  "interpreted) and compared with the preimage computed by brute force from the EXIF definition of the orientation.  "
                  "Using the forward map instead of the inverse one is invisible for the six self-inverse orientations and for "
                  "full-image requests, and wrong for every crop of a 90-degree rotated image")
    f = ctx.prog.fn("jxl_render::region::Region::apply_orientation")
    if f is None or f.argc != 2 or "Region" not in str(f.local_ty(1)) or "ImageHeader" not in str(f.local_ty(2)):
        ctx.anchor_missing(rid, "jxl_render::region::Region::apply_orientation(self, &ImageHeader)")
        return
    ctx.seen(f)
    adt = ctx.prog.crate("jxl_render").adts.get("jxl_render::region::Region")
    names = [x[0] for x in adt["variants"][0]["fields"]] if adt else []
    if sorted(names) != ["height", "left", "top", "width"]:
        ctx.anchor_missing(rid, "Region { left, top, width, height }")
        return
    W, H = 44, 28

    def fwd(k, x, y):
        return {1: (x, y), 2: (W - 1 - x, y), 3: (W - 1 - x, H - 1 - y), 4: (x, H - 1 - y),
                5: (y, x), 6: (H - 1 - y, x), 7: (H - 1 - y, W - 1 - x), 8: (y, W - 1 - x)}[k]

    rows, bad, undec = 0, [], None
    for k in range(1, 9):
        ow, oh = (W, H) if k <= 4 else (H, W)
        rects = [(3, 5, 7, 4), (ow - 1, oh - 1, 1, 1), (ow - 6, 2, 6, 9), (1, oh - 3, 5, 3), (0, 0, ow, oh)]
        for (l, t, w, h) in rects:
            pre = [(x, y) for x in range(W) for y in range(H) if l <= fwd(k, x, y)[0] < l + w and t <= fwd(k, x, y)[1] < t + h]
            xs, ys = [p[0] for p in pre], [p[1] for p in pre]
            want = {"left": min(xs), "top": min(ys), "width": max(xs) - min(xs) + 1, "height": max(ys) - min(ys) + 1}
            given = {"left": l, "top": t, "width": w, "height": h}
            ev = absint.Evaluator(ctx.prog, ext=lambda path, k=k: {"orientation": k, "width": W, "height": H}.get(path[-1], absint.UNKNOWN))
            try:
                r = ev.call_fn(f, [absint.Struct([given[n] for n in names]), absint.Ref(("ext", "image_header"))])
                got = dict(zip(names, r.fields)) if isinstance(r, absint.Struct) else None
            except absint.Unsupported as e:
                undec = "orientation %d: %s" % (k, e)
                break
            rows += 1
            if got != want:
                bad.append((k, given, got, want))
        if undec:
            break
    ctx.count(rid + ".rows", rows)
    if undec:
        ctx.bad(rid, "apply_orientation|not-evaluable", "Region::apply_orientation is no longer a function the evaluator can decide (%s)" % undec, fn=f)
        return
    ctx.floor(rid + ".rows", 40)
    if not bad:
        ctx.ok(rid, "apply_orientation|preimage", "40 evaluations equal the brute-force preimage", nontrivial=True, fn=f)
    else:
        k, given, got, want = bad[0]
        ctx.bad(rid, "apply_orientation|preimage", "orientation %d, requested %s of the displayed image: returns %s, the stored pixels shown there are %s "
                "(%d of %d evaluations differ)" % (k, given, got, want, len(bad), rows), fn=f)


def rule_quantize(ctx):
    """sample <-> float conversions at the output boundary, evaluated from MIR"""
    import struct
    from .. import absint
    rid = "R-QUANTIZE"
    ctx.rule(rid, "the conversions every output format goes through are evaluated from MIR and compared with their definition: "
                  "BitDepth::parse_integer_sample (integer samples: v / (2^bits - 1) for 8, 12, 16 bits; float samples: the IEEE-style "
                  "pattern with the declared exponent width, for binary16 and binary32 patterns) and the u8 / u16 `copy_from_f32` "
                  "quantisers (round half up of v * (2^n - 1), saturating at 0 and 2^n - 1, NaN -> 0) on values away from ties.  "
                  "A dropped rounding term, a scale of 2^n instead of 2^n - 1 or clamp bounds off by one change every pixel of every "
                  "integer output")
    img, ox = ctx.prog.crate("jxl_image"), ctx.prog.crate("jxl_oxide")
    pis = [g for g in img.fn_list if g.path.endswith("BitDepth::parse_integer_sample")]
    adt = img.adts.get("jxl_image::BitDepth")
    q = {}
    for g in ox.fn_list:
        if g.path.endswith("::copy_from_f32") and "fb::private::Sealed" in g.path:
            for ty in ("u8", "u16"):
                if g.path.startswith("<%s as" % ty):
                    q[ty] = g
    if len(pis) != 1 or adt is None or set(q) != {"u8", "u16"}:
        ctx.anchor_missing(rid, "BitDepth::parse_integer_sample and <u8 / u16 as fb::private::Sealed>::copy_from_f32")
        return
    vi = {v["name"]: (i, [x[0] for x in v["fields"]]) for i, v in enumerate(adt["variants"])}
    if set(vi) != {"IntegerSample", "FloatSample"} or vi["FloatSample"][1] != ["bits_per_sample", "exp_bits"]:
        ctx.anchor_missing(rid, "BitDepth::{IntegerSample { bits_per_sample }, FloatSample { bits_per_sample, exp_bits }}")
        return
    f = pis[0]
    ctx.seen(f)
    rows, bad, undec = 0, None, None

    def f32(x):
        return struct.unpack("<f", struct.pack("<f", x))[0]
    cases = []
    for bits in (8, 12, 16):
        for v in (0, 1, (1 << bits) // 2, (1 << bits) - 1, -3, (1 << bits) + 5):
            cases.append((absint.Enum("jxl_image::BitDepth", vi["IntegerSample"][0], "IntegerSample", [bits]), v, f32(f32(v) / f32((1 << bits) - 1)),
                          "%d-bit integer sample %d" % (bits, v)))
    for pat in (0x3c00, 0xc500, 0x7bff, 0x0400, 0x3555):
        cases.append((absint.Enum("jxl_image::BitDepth", vi["FloatSample"][0], "FloatSample", [16, 5]), pat, struct.unpack("<e", struct.pack("<H", pat))[0],
                      "binary16 pattern 0x%04x" % pat))
    for pat in (0x3f800000, 0xc0490fdb, 0x3eaaaaab, 0x7f7fffff):
        cases.append((absint.Enum("jxl_image::BitDepth", vi["FloatSample"][0], "FloatSample", [32, 8]), pat, struct.unpack("<f", struct.pack("<I", pat))[0],
                      "binary32 pattern 0x%08x" % pat))
    for bd, v, want, desc in cases:
        ev = absint.Evaluator(ctx.prog)
        ev.wrap_casts = True
        try:
            got = ev.call_fn(f, [bd, v if v < 1 << 31 else v - (1 << 32)])
        except absint.Unsupported as e:
            undec = "parse_integer_sample: %s" % e
            break
        rows += 1
        if not isinstance(got, (int, float)) or abs(float(got) - want) > 1e-6 * max(1.0, abs(want)):
            bad = ("parse_integer_sample", "%s gives %s, the definition gives %r" % (desc, got, want))
            break
    if undec:
        ctx.bad(rid, "sample-to-float|not-evaluable", "no longer a function the evaluator can decide (%s)" % undec, fn=f)
    elif bad:
        ctx.bad(rid, "sample-to-float|value", "BitDepth::parse_integer_sample: " + bad[1], fn=f)
    else:
        ctx.ok(rid, "sample-to-float", "%d conversions equal the definition" % rows, nontrivial=True, fn=f)
    rows2 = 0
    for ty, g in sorted(q.items()):
        ctx.seen(g)
        n = 8 if ty == "u8" else 16
        mx = (1 << n) - 1
        bad, undec = None, None
        for v in (-1.0, -0.001, 0.0, 0.4 / mx, 0.6 / mx, 0.25, 0.5, 100.4 / mx, 100.6 / mx, (mx - 0.6) / mx, 1.0, 1.7, 1e9, float("nan")):
            want = 0 if v != v else max(0, min(mx, int(v * mx + 0.5) if v * mx + 0.5 >= 0 else 0))
            ev = absint.Evaluator(ctx.prog)
            fr = absint.Frame(g)
            ev.frames[fr.id] = fr
            fr.env[10 ** 6] = 0
            try:
                ev.call_fn(g, [absint.Ref(("local", fr.id, 10 ** 6)), v])
            except absint.Unsupported as e:
                undec = str(e)
                break
            rows2 += 1
            got = fr.env.get(10 ** 6)
            if got != want:
                bad = "%r quantises to %s, round-half-up of v * %d saturated to 0..%d gives %d" % (v, got, mx, mx, want)
                break
        key = "float-to-%s" % ty
        if undec:
            ctx.bad(rid, key + "|not-evaluable", "<%s as Sealed>::copy_from_f32 is no longer a function the evaluator can decide (%s)" % (ty, undec), fn=g)
        elif bad:
            ctx.bad(rid, key + "|value", "<%s as Sealed>::copy_from_f32: %s" % (ty, bad), fn=g)
        else:
            ctx.ok(rid, key, "14 values quantise as defined", nontrivial=True, fn=g)
    ctx.count(rid + ".rows", rows + rows2)


def main(pid, tier, repo=None):
    ctx = Ctx(pid, tier, configs=("workspace",), repo=repo)
    rule_orient(ctx)
    rule_chanorder(ctx)
    rule_orient_order(ctx)
    rule_narrowcast(ctx)
    rule_stream_cursor(ctx)
    rule_int_fastpath(ctx)
    rule_orient_region(ctx)
    rule_quantize(ctx)
    from . import c05
    c05.rule_orient_scope(ctx)        # the orientation is applied at the API boundary only
    ctx.not_decided("float->integer rounding; sample-by-sample equality between interleaved, planar and stream outputs")
    return ctx.finish(
        "The coordinate-map half of the property, for all image sizes and coordinates at once: the three hand-written copies of the "
        "eight orientation maps are evaluated symbolically from MIR into affine forms and compared with the EXIF definition and with "
        "each other (equal / mutually inverse / same dimension swap); channel order and parallel-vector alignment of the stream "
        "constructor are checked as control-dependence and must-pass-through facts.")

"""C17 — JPEG reconstruction is byte-exact (claimed narrowly: the two non-numeric clauses):
  "status queries say 'available' only when reconstruction can be attempted"  -> R-JBR-STATUS
  "hostile or incomplete reconstruction data produce an error, not a panic"     -> R-JBR-REJECT, R-FIELDRANGE (jbr), R-JBR-STATE
Byte-exactness of the reconstructed file is value-level and not decided."""
from .. import validation
from ..engine import Ctx, LIB_CRATES
from . import specconst
from ..facts import callee, op_local, op_place
from ..mirutil import Defs, find_path_edges
from . import fieldrange, searchunwrap

STATUS = "jxl_oxide::JxlImage::jpeg_reconstruction_status"
RECON = "jxl_oxide::JxlImage::reconstruct_jpeg"
STATUS_ADT = "jxl_oxide::JpegReconstructionStatus"
NEW = "jxl_jbr::reconstruct::JpegBitstreamReconstructor::<'jbrd, 'frame, 'meta>::new"
NEXT = "jxl_jbr::reconstruct::JpegBitstreamReconstructor::<'_, '_, '_>::process_next"

# (function, reject condition, min occurrences, why)
TABLE = [
    ("<jxl_jbr::AppMarker as jxl_oxide_common::Bundle>::parse", "ty > 3", 1, "APP marker type beyond the four defined ones (unreachable!() in the replay, D22)"),
    ("<jxl_jbr::AppMarker as jxl_oxide_common::Bundle>::parse", "length < min_length", 1,
     "typed APP marker shorter than its fixed header (length - header underflows)"),
    # the block index bound (3 << 26) of ScanMoreInfo's two lists is decided by R-JBR-SCANINFO: the parser evaluated from MIR with indices at
    # and one above the bound in either list - independent of closures / loops / helper functions (own benign rewrite with for loops)
    ("jxl_jbr::JpegBitstreamData::finalize", "decompressed_len != ret:expected_data_len", 1, "Brotli payload length equals the length the header declares"),
    (NEW, "expected_icc_len != len(icc_profile)", 1, "ICC length the header expects vs the profile supplied"),
    (NEW, "expected_exif_len != len(exif)", 1, "Exif length the header expects vs the box supplied"),
    (NEW, "expected_xmp_len != len(xmp)", 1, "XMP length the header expects vs the box supplied"),
    (NEXT, "marker < 224", 1, "APPn marker range"),
    (NEXT, "marker > 239", 1, "APPn marker range"),
    (NEXT, "si.ss > si.se", 1, "spectral selection start after end (u8 subtraction / slice range)"),
    (NEXT, "c.comp_idx >= num_components", 1, "scan component index within the declared components / three channels"),
    (NEXT, "si.ss != 0", 1, "sequential JPEG must not carry progressive parameters"),
    (NEXT, "si.se != 63", 1, "sequential JPEG must not carry progressive parameters"),
    (NEXT, "si.al != 0", 1, "sequential JPEG must not carry progressive parameters"),
    (NEXT, "si.ah != 0", 1, "sequential JPEG must not carry progressive parameters"),
]


def rule_reject(ctx):
    rid = "R-JBR-REJECT"
    ctx.rule(rid, "the consistency conditions on JPEG reconstruction data (marker lengths, block indices, payload lengths, scan parameters, "
                  "component indices) exist as comparisons whose reject edge leads to an error return; reconstructed from MIR, matched by "
                  "meaning (constants folded, operand order and >=/> forms normalised)")
    prog = ctx.prog
    cache = {}
    for fpath, cond, n, why in TABLE:
        if ("fn", fpath) not in cache:
            cache[("fn", fpath)] = validation.resolve_closure_entry(prog, fpath, [(c_, n_) for f_, c_, n_, _w in TABLE if f_ == fpath], "jbr")
        f = cache[("fn", fpath)]
        if f is None:
            ctx.anchor_missing(rid, fpath)
            continue
        if fpath not in cache:
            cache[fpath] = validation.checks_deep(ctx.prog, f)
            ctx.seen(f)
        cs = cache[fpath]
        if ("mt", fpath) not in cache:
            cache[("mt", fpath)] = validation.match_table(cs, [(c_, n_) for f_, c_, n_, _w in TABLE if f_ == fpath], validation.deep_ref("jbr", fpath))
        have = cache[("mt", fpath)].get(cond, [])
        key = "%s|%s" % (fpath.split("::")[-1], cond)
        if len(have) >= n:
            ctx.ok(rid, key, "reject `%s` -> Err (%s)" % (cond, why), nontrivial=True, fn=f)
        else:
            subj = cond.split(" ")[0]
            near = sorted({validation.norm(c["subject"], c["op"], c["other"]) for c in cs if subj in str(c["subject"])})
            ctx.bad(rid, key + "|missing", "reconstruction-data check `reject %s` (%s) is missing or changed (found %d of %d; checks on that "
                    "value now: %s): hostile data is accepted or panics later" % (cond, why, len(have), n, near or "none"), fn=f)


def status_blocks(f, variant):
    out = set()
    for b, blk in enumerate(f.blocks):
        if blk[2]:
            continue
        for st in blk[0]:
            if st[0] == "=" and st[1] == [0] and st[2][0] == "agg" and st[2][1][0] == "adt" and st[2][1][1] == STATUS_ADT and st[2][1][2] == variant:
                out.add(b)
    return out


def calls_named(f, tail):
    from ..mirutil import strip_generics
    tail = strip_generics(tail)
    return [b for b, t in f.calls() if callee(t) and strip_generics(callee(t)["fn"]).endswith(tail)]


def rule_status(ctx):
    rid = "R-JBR-STATUS"
    ctx.rule(rid, "jpeg_reconstruction_status: `Available` is produced only on the `Data` edge of the jbrd box state, after each of "
                  "expected_icc_len / expected_exif_len / expected_xmp_len has been consulted, and on each `> 0` edge only after the "
                  "corresponding source (want_icc + original_icc; is_decoding + is_not_found of the Exif / XML box) has been probed; "
                  "every length the reconstructor consults is consulted by the status query (sibling agreement with reconstruct_jpeg); "
                  "reconstruct_jpeg refuses Decoding / NotFound box states and an image without a loaded frame before unwrapping")
    f = ctx.prog.fn(STATUS)
    g = ctx.prog.fn(RECON) or next((x for x in ctx.prog.crate("jxl_oxide").fn_list if x.path.startswith(RECON)), None)
    if f is None:
        ctx.anchor_missing(rid, STATUS)
        return
    ctx.seen(f)
    defs = Defs(f)
    avail = status_blocks(f, "Available")
    if not avail:
        ctx.bad(rid, "no-available", "the status query never reports Available", fn=f)
        return
    # (1) only behind the Data edge of jbrd()
    jb = calls_named(f, "AuxBoxList::jbrd")
    if len(jb) != 1:
        ctx.anchor_missing(rid, "AuxBoxList::jbrd call in the status query")
        return
    res = f.term(jb[0])[3][0]
    adt = ctx.prog.crate("jxl_oxide").adts.get("jxl_oxide::aux_box::AuxBoxData")
    data_idx = None
    if adt:
        for i, v in enumerate(adt["variants"]):
            if v["name"] == "Data":
                data_idx = str(i)
    if data_idx is None:
        ctx.anchor_missing(rid, "AuxBoxData::Data")
        return
    from ..mirutil import const_explore
    from ..intervals import value_class
    cls = value_class(f, res)
    other = []
    for i, v in enumerate(adt["variants"]):
        if str(i) == data_idx:
            continue
        hit = []

        def on_block(bb, env, hit=hit):
            if bb in avail:
                hit.append(bb)
                return False
            return True

        const_explore(f, f.term(jb[0])[4], {}, on_block, assume_discr=lambda pl, i=i: i if pl and pl[0] in cls else None)
        if hit:
            other.append(v["name"])
    if other:
        ctx.bad(rid, "available-needs-data", "Available is reported while the jbrd box is %s" % "/".join(other), fn=f)
    else:
        ctx.ok(rid, "available-needs-data", "Available only on the Data edge of jbrd()", nontrivial=True, fn=f)
    # (2)+(3) per metadata kind
    KINDS = {
        "icc": ("JpegBitstreamHeader::expected_icc_len", ["ColourEncoding::want_icc", "JxlImage::original_icc"]),
        "exif": ("JpegBitstreamHeader::expected_exif_len", ["AuxBoxData::<T>::is_decoding", "AuxBoxData::<T>::is_not_found"]),
        "xmp": ("JpegBitstreamHeader::expected_xmp_len", ["AuxBoxData::<T>::is_decoding", "AuxBoxData::<T>::is_not_found"]),
    }
    for kind, (getter, probes) in KINDS.items():
        gb = calls_named(f, getter)
        if not gb:
            ctx.bad(rid, "consults:" + kind, "the status query no longer consults %s before reporting Available" % getter, fn=f)
            continue
        # every path entry -> Available passes the getter
        p = find_path_edges(f, [0], lambda x: x in avail, avoid_block=lambda x: x in gb)
        if p is not None:
            ctx.bad(rid, "consults:" + kind, "a path reports Available without consulting %s" % getter, fn=f, path=p)
            continue
        ctx.ok(rid, "consults:" + kind, "%s consulted on every path to Available" % getter, nontrivial=True, fn=f)
        # positive edge of the comparison on the getter's result
        gres = f.term(gb[0])[3][0]
        gcls = value_class(f, gres)
        pos_targets = []
        for b, blk in enumerate(f.blocks):
            tt = blk[1]
            if tt[0] != "switch":
                continue
            l = op_local(tt[1])
            cmp_st = None
            for st in blk[0]:
                if st[0] == "=" and st[1] == [l] and st[2][0] == "bin" and st[2][1] in ("Gt", "Ne", "Lt", "Eq", "Ge", "Le"):
                    cmp_st = st
            if cmp_st is None:
                continue
            a, c = op_local(cmp_st[2][2]), op_local(cmp_st[2][3])
            from ..facts import op_const_int
            ka, kc = op_const_int(cmp_st[2][2]), op_const_int(cmp_st[2][3])
            op = cmp_st[2][1]
            # value (op) 0  -- true means "positive" for Gt/Ne, "zero" for Eq/Le
            if a in gcls and kc == 0 and op in ("Gt", "Ne"):
                pos_true = True
            elif a in gcls and kc == 0 and op in ("Eq", "Le"):
                pos_true = False
            elif c in gcls and ka == 0 and op in ("Lt", "Ne"):
                pos_true = True
            elif c in gcls and ka == 0 and op in ("Eq", "Ge"):
                pos_true = False
            elif a in gcls and kc == 1 and op == "Ge":
                pos_true = True
            elif a in gcls and kc == 1 and op == "Lt":
                pos_true = False
            else:
                continue
            zero_t = [x for v, x in tt[2] if v == "0"]
            if pos_true:
                pos_targets.append(tt[3] if zero_t else None)
            else:
                pos_targets.extend(zero_t)
        pos_targets = [x for x in pos_targets if x is not None]
        if not pos_targets:
            ctx.bad(rid, "probe-edge:" + kind, "cannot find the `%s() > 0` decision in the status query" % getter.split("::")[-1], fn=f)
            continue
        for pr in probes:
            pb = set(calls_named(f, pr))
            # restrict to probe calls reachable from the positive edge
            ok = True
            for s in pos_targets:
                if s in pb:
                    continue
                # the other metadata kinds' decisions lie between here and Available; a path is only a counterexample if it avoids
                # every probe of this name, including later ones -- so demand a probe between the edge and the next getter
                nxt = set()
                for k2, (g2, _) in KINDS.items():
                    if k2 != kind:
                        nxt |= set(calls_named(f, g2))
                p = find_path_edges(f, [s], lambda x: x in avail or x in nxt, avoid_block=lambda x: x in pb)
                if p is not None:
                    ok = False
                    ctx.bad(rid, "probe:%s:%s" % (kind, pr.split("::")[-1]), "with %s() > 0 the status query can go on to Available without "
                            "calling %s: reconstruction is reported possible although the %s data it needs may be absent or still loading"
                            % (getter.split("::")[-1], pr, kind), fn=f, path=p)
            if ok:
                ctx.ok(rid, "probe:%s:%s" % (kind, pr.split("::")[-1]), "probed on the > 0 edge before anything else is decided", nontrivial=True, fn=f)
    # sibling agreement + refusal states in reconstruct_jpeg
    if g is None:
        ctx.anchor_missing(rid, RECON)
        return
    ctx.seen(g)
    for kind, (getter, _) in KINDS.items():
        if calls_named(g, getter) and not calls_named(f, getter):
            ctx.bad(rid, "sibling:" + kind, "reconstruct_jpeg consults %s but the status query does not" % getter, fn=f)
        else:
            ctx.ok(rid, "sibling:" + kind, "both consult %s" % getter, fn=g)
    # reconstruct_jpeg: the call that starts reconstruction is dominated by jbrd()==Data and a loaded-frame test
    rec = [b for b, t in g.calls() if callee(t) and callee(t)["fn"].endswith("JpegBitstreamData::reconstruct")]
    nlf = calls_named(g, "JxlImage::num_loaded_frames")
    jb2 = calls_named(g, "AuxBoxList::jbrd")
    if not rec or not jb2:
        ctx.anchor_missing(rid, "reconstruct call in reconstruct_jpeg")
        return
    if nlf and all(any(g.dominates(n, r) for n in nlf) for r in rec):
        ctx.ok(rid, "reconstruct-needs-frame", "num_loaded_frames() is tested before frame(0) is unwrapped", nontrivial=True, fn=g)
    else:
        ctx.bad(rid, "reconstruct-needs-frame", "reconstruct_jpeg unwraps frame(0) without first testing that a frame is loaded: panic on a "
                "container whose codestream has not arrived", fn=g)
    res2 = g.term(jb2[0])[3][0]
    cls2 = value_class(g, res2)
    bad_states = []
    for i, v in enumerate(adt["variants"]):
        if str(i) == data_idx:
            continue
        hit = []

        def on_block2(bb, env, hit=hit):
            if bb in rec:
                hit.append(bb)
                return False
            return True

        const_explore(g, g.term(jb2[0])[4], {}, on_block2, assume_discr=lambda pl, i=i: i if pl and pl[0] in cls2 else None)
        if hit:
            bad_states.append(v["name"])
    if bad_states:
        ctx.bad(rid, "reconstruct-needs-data", "reconstruct_jpeg starts reconstruction while the jbrd box is %s" % "/".join(bad_states), fn=g)
    else:
        ctx.ok(rid, "reconstruct-needs-data", "reconstruction starts only on the Data edge of jbrd()", nontrivial=True, fn=g)


RECON_ADT = "jxl_jbr::reconstruct::JpegBitstreamReconstructor"
MARKER_STATE = {"is_progressive": "SOFn", "restart_interval": "DRI", "dc_tables": "DHT", "ac_tables": "DHT"}


def rule_markerstate(ctx):
    """state the JPEG syntax ties to a marker is unset until that marker is replayed"""
    rid = "R-JBR-MARKERSTATE"
    ctx.rule(rid, "marker-scoped state of the reconstructor (progressive mode <- SOFn, restart interval <- DRI, Huffman tables <- DHT) is "
                  "created unset (constant false / None, independent of the header) and is written only while replaying markers "
                  "(process_next), at least once each: a segment that precedes its marker in the file is written without that state, "
                  "as in the original JPEG")
    jbr = ctx.prog.crate("jxl_jbr")
    from ..facts import place_fields, op_const
    cons = None
    for f in jbr.fn_list:
        for b, blk in enumerate(f.blocks):
            if blk[2]:
                continue
            for st in blk[0]:
                if st[0] == "=" and st[2][0] == "agg" and st[2][1][0] == "adt" and st[2][1][1] == RECON_ADT:
                    cons = (f, st)
    adt = jbr.adts.get(RECON_ADT)
    if cons is None or adt is None:
        ctx.anchor_missing(rid, RECON_ADT + " construction")
        return
    f, st = cons
    ctx.seen(f)
    defs = Defs(f)
    names = [x[0] for x in adt["variants"][0]["fields"]]

    def unset(o, depth=0):
        if depth > 6:
            return False
        k = op_const(o)
        if k is not None:
            if "v" in k:
                return int(k["v"]) == 0
            # `const { None }`: the inline constant's own body must produce the unset value
            g = jbr.fns.get(k.get("item")) if k.get("item") else None
            if g is None or g.kind != "InlineConst":
                return False
            rets = [s2 for blk in g.blocks if not blk[2] for s2 in blk[0] if s2[0] == "=" and s2[1] == [0]]
            return bool(rets) and all(s2[2][0] == "agg" and s2[2][1][0] == "adt" and s2[2][1][1] == "core::option::Option"
                                      and s2[2][1][2] == "None" for s2 in rets)
        l = op_local(o)
        d = defs.single(l) if l is not None else None
        if not d or d[2] != "assign":
            return False
        rv = d[3][2]
        if rv[0] == "use":
            return unset(rv[1], depth + 1)
        if rv[0] == "agg" and rv[1][0] == "adt" and rv[1][1] == "core::option::Option" and rv[1][2] == "None":
            return True
        if rv[0] == "agg" and rv[1][0] == "array":
            return all(unset(x, depth + 1) for x in rv[2])
        if rv[0] == "repeat":
            return unset(rv[1], depth + 1)
        return False

    for fld, marker in MARKER_STATE.items():
        if fld not in names:
            ctx.anchor_missing(rid, "field " + fld)
            continue
        o = st[2][2][names.index(fld)]
        if unset(o):
            ctx.ok(rid, "created-unset:" + fld, "constant false/None at construction", nontrivial=True, fn=f)
        else:
            ctx.bad(rid, "created-unset:" + fld, "the reconstructor is created with `%s` already set (it must stay unset until the %s marker "
                    "is replayed): segments written before that marker differ from the original JPEG" % (fld, marker), fn=f, pos=st[3])
    writers = {}
    for g in jbr.fn_list:
        for b, blk in enumerate(g.blocks):
            if blk[2]:
                continue
            for s2 in blk[0]:
                if s2[0] != "=":
                    continue
                for n, a in place_fields(s2[1]):
                    if a == RECON_ADT and n in MARKER_STATE:
                        writers.setdefault(n, set()).add(g.path)
                # `let t = if ac { &mut self.ac_tables } else { &mut self.dc_tables }; t[i] = ..`: a mutable borrow of the field
                # that is written through in the same function arms it as well
                if s2[2][0] == "ref" and s2[2][1] not in ("shared", "fake") and len(s2[1]) == 1:
                    for n, a in place_fields(s2[2][2]):
                        if a == RECON_ADT and n in MARKER_STATE:
                            from ..mirutil import alias_closure
                            refs = set(alias_closure(g, {s2[1][0]}, through_fields=False))
                            grew = True
                            while grew:      # reborrows: `t = &mut *r`
                                grew = False
                                for blk3 in g.blocks:
                                    for s3 in blk3[0]:
                                        if s3[0] == "=" and s3[2][0] == "ref" and len(s3[1]) == 1 and s3[1][0] not in refs \
                                                and s3[2][2][0] in refs and s3[2][2][1:] == ["*"]:
                                            refs |= set(alias_closure(g, {s3[1][0]}, through_fields=False))
                                            grew = True
                            written = any(s3[0] == "=" and s3[1][0] in refs and len(s3[1]) > 1 and "*" in s3[1][1:2]
                                          for blk3 in g.blocks if not blk3[2] for s3 in blk3[0])
                            if written:
                                writers.setdefault(n, set()).add(g.path)
    for fld, marker in MARKER_STATE.items():
        w = writers.get(fld, set())
        outside = sorted(x for x in w if not x.endswith("::process_next"))
        if outside:
            ctx.bad(rid, "written-outside-replay:" + fld, "`%s` is written outside the marker replay (%s)" % (fld, ", ".join(outside)), fn=f)
        elif not w:
            ctx.bad(rid, "never-armed:" + fld, "`%s` is never set while replaying markers: the %s marker has no effect on the following "
                    "segments" % (fld, marker), fn=f)
        else:
            ctx.ok(rid, "armed-in-replay:" + fld, "set only in process_next", nontrivial=True, fn=f)


def rule_layout(ctx):
    """the decompressed data section is carved in the order the format defines: APP data, COM data, inter-marker data, tail"""
    from ..symexpr import Sym, show
    rid = "R-JBR-LAYOUT"
    ctx.rule(rid, "JpegBitstreamReconstructor::new carves the decompressed jbrd data into app_data | com_data | intermarker_data | tail_data "
                  "in this order: each region starts where the previous one ends and has the length the header gives for it "
                  "(app_data_len, com_data_len, intermarker_data_len). Slices are followed symbolically through range indexing and "
                  "split_at, offsets in the normal form of symexpr; how the carving is written does not matter")
    jbr = ctx.prog.crate("jxl_jbr")
    cons = None
    for f in jbr.fn_list:
        for b, blk in enumerate(f.blocks):
            if blk[2]:
                continue
            for st in blk[0]:
                if st[0] == "=" and st[2][0] == "agg" and st[2][1][0] == "adt" and st[2][1][1] == RECON_ADT:
                    cons = (f, st)
    adt = jbr.adts.get(RECON_ADT)
    if cons is None or adt is None:
        ctx.anchor_missing(rid, RECON_ADT + " construction")
        return
    f, st = cons
    ctx.seen(f)
    names = [x[0] for x in adt["variants"][0]["fields"]]

    def add(a, b):
        if a is None or b is None:
            return None
        if a == "END" or b == "END":
            return None
        return tuple(sorted(a + b))

    class Carver:
        """follows byte slices of one function symbolically; `bind` gives the caller's view of the arguments of a helper"""

        def __init__(self, fn, bind=None, level=0):
            self.f = fn
            self.sym = Sym(fn)
            self.defs = self.sym.defs
            self.bind = bind
            self.level = level
            self.memo = {}

        def terms(self, o):
            alts = self.sym.operand(o)
            if len(alts) != 1:
                return None
            e = next(iter(alts))
            if e == "0":
                return ()
            raw = tuple(show(x) for x in e[1]) if isinstance(e, tuple) and e[0] == "+" else (show(e),)
            out = []
            for x in raw:
                if self.bind is not None and x.startswith("arg") and x[3:].isdigit():
                    bv = self.bind.get(int(x[3:]))
                    if not bv or bv[0] != "terms" or bv[1] is None:
                        return None
                    out.extend(bv[1])
                else:
                    out.append(x)
            return tuple(sorted(out))

        def slice_of(self, l, field=None, depth=0):
            """(start terms, end terms | 'END') of the byte slice held by local l (or by field `field` of the aggregate l), relative to `data`"""
            f, defs = self.f, self.defs
            key = (l, field)
            if key in self.memo:
                return self.memo[key]
            self.memo[key] = None
            res = None
            if depth > 24:
                return None
            if 1 <= l <= f.argc and field is None:
                if self.bind is not None:
                    bv = self.bind.get(l)
                    res = bv[1] if bv and bv[0] == "slice" else None
                else:
                    res = ((), "END") if f.local_name(l) == "data" or f.local_ty(l) in ("&[u8]", "&'jbrd [u8]") else None
                    # several &[u8] parameters exist (icc, exif, xmp): only the one named `data` / first raw slice is the data section
                    if f.local_name(l) not in (None, "data"):
                        res = None
            else:
                for d in defs.of(l):
                    if f.is_cleanup(d[0]):
                        continue
                    if d[2] == "assign":
                        rv = d[3][2]
                        if rv[0] in ("use", "cast"):
                            pl = op_place(rv[1] if rv[0] == "use" else rv[2])
                            if pl is None:
                                continue
                            fl = [e for e in pl[1:] if isinstance(e, list) and e[0] == "."]
                            res = self.slice_of(pl[0], fl[-1][1] if fl else field, depth + 1)
                        elif rv[0] == "ref":
                            fl = [e for e in rv[2][1:] if isinstance(e, list) and e[0] == "."]
                            res = self.slice_of(rv[2][0], fl[-1][1] if fl else field, depth + 1)
                        elif rv[0] == "agg" and field is not None and rv[1][0] in ("adt", "tuple") and field < len(rv[2]):
                            ol = op_local(rv[2][field])
                            res = self.slice_of(ol, None, depth + 1) if ol is not None else None
                    elif d[2] == "call":
                        t = d[3]
                        c = callee(t)
                        nm = c["fn"] if c else ""
                        sh = nm.split("::<")[0]
                        g = ctx.prog.fn(c.get("res") or nm) if c else None
                        if nm.split("::")[-1].startswith("split_at") and len(t[2]) == 2:
                            base = self.slice_of(op_local(t[2][0]), None, depth + 1)
                            n = self.terms(t[2][1])
                            if base and n is not None:
                                mid = add(base[0], n)
                                res = (base[0], mid) if field == 0 else ((mid, base[1]) if field == 1 else None)
                        elif sh.endswith("ops::index::Index::index") and len(t[2]) == 2:
                            base = self.slice_of(op_local(t[2][0]), None, depth + 1)
                            rl = op_local(t[2][1])
                            rd = defs.single(rl) if rl is not None else None
                            if base and rd and rd[2] == "assign" and rd[3][2][0] == "agg":
                                kind = rd[3][2][1][1]
                                ops = rd[3][2][2]
                                if kind.endswith("RangeTo"):
                                    res = (base[0], add(base[0], self.terms(ops[0])))
                                elif kind.endswith("RangeFrom"):
                                    res = (add(base[0], self.terms(ops[0])), base[1])
                                elif kind.endswith("Range"):
                                    res = (add(base[0], self.terms(ops[0])), add(base[0], self.terms(ops[1])))
                        elif nm.split("::")[-1] in ("deref", "as_ref", "as_slice", "borrow", "get_ref") and t[2]:
                            res = self.slice_of(op_local(t[2][0]), field, depth + 1)
                        elif g is not None and g.path.startswith("jxl_jbr::") and self.level < 3:
                            # a helper of this crate that carves the section: evaluate its body with the arguments as seen here
                            bind = {}
                            for i, a in enumerate(t[2]):
                                al = op_local(a)
                                sl = self.slice_of(al, None, depth + 1) if al is not None and "[u8]" in f.local_ty(al) else None
                                bind[i + 1] = ("slice", sl) if sl is not None else ("terms", self.terms(a))
                            res = Carver(g, bind, self.level + 1).slice_of(0, field)
                    if res is not None:
                        break
            self.memo[key] = res
            return res

    root = Carver(f)
    slice_of = root.slice_of

    got = {}
    for fld in ("app_data", "com_data", "intermarker_data", "tail_data"):
        if fld not in names:
            ctx.anchor_missing(rid, "field " + fld)
            return
        o = st[2][2][names.index(fld)]
        l = op_local(o)
        got[fld] = slice_of(l) if l is not None else None
    A, C, I = "ret:app_data_len", "ret:com_data_len", "ret:intermarker_data_len"
    want = {
        "app_data": ((), (A,)),
        "com_data": ((A,), tuple(sorted((A, C)))),
        "intermarker_data": (tuple(sorted((A, C))), tuple(sorted((A, C, I)))),
        "tail_data": (tuple(sorted((A, C, I))), "END"),
    }
    if any(v is None or v[0] is None or v[1] is None for v in got.values()):
        unk = [k for k, v in got.items() if v is None or v[0] is None or v[1] is None]
        ctx.bad(rid, "layout-not-evaluable", "cannot follow how %s are carved out of the data section (slicing idiom not understood)" % unk, fn=f, pos=st[3])
        return
    wrong = {k: (got[k], want[k]) for k in want if got[k] != want[k]}
    if wrong:
        k = sorted(wrong)[0]
        fmt = lambda r: "[%s .. %s)" % (" + ".join(x.replace("ret:", "") for x in r[0]) or "0", r[1] if r[1] == "END" else " + ".join(x.replace("ret:", "") for x in r[1]))
        ctx.bad(rid, "layout-differs", "the data section is not carved in the order APP | COM | inter-marker | tail: %s is taken from %s, the "
                "format puts it at %s (%d of 4 regions differ): segments are reconstructed with each other's bytes"
                % (k, fmt(wrong[k][0]), fmt(wrong[k][1]), len(wrong)), fn=f, pos=st[3])
    else:
        ctx.ok(rid, "layout", "app [0..A) | com [A..A+C) | intermarker [A+C..A+C+I) | tail [A+C+I..)", nontrivial=True, fn=f)


def rule_state(ctx):
    """Jbrd box state machine: finalize of an uninitialised box is an error; data() is Some only when initialised"""
    rid = "R-JBR-STATE"
    ctx.rule(rid, "the jbrd box reader: finalize() on a box whose header never completed returns an error (incomplete reconstruction "
                  "data is not reported as usable), and try_parse maps end-of-data of the header to Ok(None) (wait for more bytes)")
    f = ctx.prog.fn("jxl_oxide::aux_box::jbrd::Jbrd::finalize")
    if f is None:
        ctx.anchor_missing(rid, "Jbrd::finalize")
    else:
        ctx.seen(f)
        adt = ctx.prog.crate("jxl_oxide").adts.get("jxl_oxide::aux_box::jbrd::Jbrd")
        un = [str(i) for i, v in enumerate(adt["variants"]) if v["name"] == "Uninit"] if adt else []
        errs = validation.err_return_blocks(f)
        from ..mirutil import const_explore
        ok_ret = []

        def on_block(bb, env):
            if f.term(bb)[0] == "ret":
                ok_ret.append(bb)
            if bb in errs:
                return False
            return True

        if un:
            const_explore(f, 0, {}, on_block, assume_discr=lambda pl: int(un[0]))
            if ok_ret:
                ctx.bad(rid, "finalize-uninit-is-error", "Jbrd::finalize can return without an error for a box whose header never completed", fn=f)
            else:
                ctx.ok(rid, "finalize-uninit-is-error", "Uninit -> Err on every path", nontrivial=True, fn=f)
        else:
            ctx.anchor_missing(rid, "Jbrd::Uninit")
    g = ctx.prog.fn("jxl_jbr::JpegBitstreamData::try_parse")
    if g is None:
        ctx.anchor_missing(rid, "JpegBitstreamData::try_parse")
    else:
        ctx.seen(g)
        ue = [b for b, t in g.calls() if callee(t) and callee(t)["fn"].endswith("::unexpected_eof")]
        if ue:
            ctx.ok(rid, "try_parse-asks-eof", "the header parse error is asked whether it is end-of-data", fn=g)
        else:
            ctx.bad(rid, "try_parse-asks-eof", "JpegBitstreamData::try_parse no longer distinguishes end-of-data from invalid data: a box "
                    "arriving in pieces is rejected", fn=g)


def rule_seglen(ctx):
    """the ICC payload written by an APP2 segment has the length that segment declares"""
    from ..facts import callee, op_local, op_place
    from ..mirutil import Defs
    rid = "R-JBR-SEGLEN"
    ctx.rule(rid, "process_next, ICC APP2 segment: the segment header carries the marker's own length (AppMarker.length - 1), so the "
                  "slice of the profile written after the `ICC_PROFILE` signature and the two sequence bytes must be cut with that "
                  "marker's length too: every write_all that the signature write dominates and whose buffer is not a fixed-size array "
                  "has a buffer that data-depends on a read of AppMarker.length (backward slice over assignments and call arguments).  "
                  "A profile cut into equal chunks, or by any rule that does not look at the marker, desynchronises declared and "
                  "written lengths for every file whose encoder split the profile differently")
    cr = ctx.prog.crate("jxl_jbr")
    fs = [g for g in cr.fn_list if g.path.endswith("::process_next") and "JpegBitstreamReconstructor" in g.path and g.kind == "AssocFn"]
    if len(fs) != 1:
        ctx.anchor_missing(rid, "JpegBitstreamReconstructor::process_next")
        return
    f = fs[0]
    ctx.seen(f)
    defs = Defs(f)

    def origin(l):
        """follow a buffer operand back through reborrows, copies and unsizing casts: ('const', name) | ('local', l)"""
        seen = set()
        while l is not None and l not in seen:
            seen.add(l)
            d = defs.single(l)
            if not d or d[2] != "assign":
                return ("local", l)
            rv = d[3][2]
            if rv[0] == "use" and rv[1][0] == "k":
                k = rv[1][1]
                return ("const", str(k.get("item") or k.get("s") or ""))
            pl = op_place(rv[1]) if rv[0] == "use" else (rv[2] if rv[0] == "ref" else (op_place(rv[2]) if rv[0] == "cast" else None))
            if pl is None:
                return ("local", l)
            if any(isinstance(e, list) for e in pl[1:]):
                return ("local", l)
            l = pl[0]
        return ("local", l)

    def depends_on_length(l):
        seen, work = set(), [l]
        while work:
            x = work.pop()
            if x is None or x in seen:
                continue
            seen.add(x)
            if x <= f.argc:
                continue        # self / the writer: everything hangs off them; only what is read out of them on the way counts
            for d in defs.of(x):
                if f.is_cleanup(d[0]) or d[2] == "partial":
                    continue
                if d[2] == "call":
                    work.extend(op_local(a) for a in d[3][2])
                    continue
                st = d[3]
                if st[0] != "=":
                    continue
                rv = st[2]
                ops = []
                if rv[0] in ("use",):
                    ops = [rv[1]]
                elif rv[0] in ("cast", "un"):
                    ops = [rv[2]]
                elif rv[0] == "bin":
                    ops = [rv[2], rv[3]]
                elif rv[0] == "agg":
                    ops = list(rv[2])
                pls = [op_place(o) for o in ops] + ([rv[2]] if rv[0] == "ref" else [])
                for pl in pls:
                    if pl is None:
                        continue
                    for e in pl[1:]:
                        if isinstance(e, list) and e[0] == "." and e[2] == "length" and "AppMarker" in str(e[3]):
                            return True
                    work.append(pl[0])
        return False

    writes = [(b, t) for b, t in f.calls() if callee(t) and callee(t)["fn"].endswith("io::Write::write_all") and len(t[2]) == 2]
    sig = [b for b, t in writes if origin(op_local(t[2][1]))[0] == "const" and origin(op_local(t[2][1]))[1].endswith("HEADER_ICC")]
    if len(sig) != 1:
        ctx.anchor_missing(rid, "the write of the HEADER_ICC signature in process_next (found %d)" % len(sig))
        return
    n = 0
    bad = []
    for b, t in writes:
        if b == sig[0] or not f.dominates(sig[0], b):
            continue
        o = origin(op_local(t[2][1]))
        if o[0] == "const" or (o[0] == "local" and str(f.local_ty(o[1])).lstrip("&").startswith("[u8; ")):
            continue
        n += 1
        if not depends_on_length(op_local(t[2][1])):
            bad.append(t)
    delegated = 0
    if n == 0:
        for b, t in f.calls():
            c = callee(t)
            if not c or b == sig[0] or not f.dominates(sig[0], b) or cr.fns.get(c.get("res") or c["fn"]) is None:
                continue
            if any(op_local(a) is not None and ("AppMarker" in str(f.local_ty(op_local(a))) or depends_on_length(op_local(a))) for a in t[2]):
                delegated += 1
    ctx.count(rid + ".payload-writes", n + delegated)
    if n + delegated == 0:
        ctx.anchor_missing(rid, "the write of the profile bytes after the HEADER_ICC signature in process_next")
        return
    if bad:
        ctx.bad(rid, "icc-payload-length", "the ICC bytes written after the signature do not depend on the marker's declared length "
                "(AppMarker.length): a profile whose chunks are not all equal is reconstructed with segment lengths that disagree with "
                "the bytes that follow", fn=f, pos=bad[0][-2])
    else:
        ctx.ok(rid, "icc-payload-length", "%d payload write(s) cut with AppMarker.length" % (n + delegated), nontrivial=True, fn=f)


def rule_pending_bits(ctx):
    """correction bits counted in a scan function are written or buffered before it returns"""
    from ..facts import callee, op_local, op_place, op_const_int
    from ..mirutil import Defs
    rid = "R-JBR-PENDING"
    ctx.rule(rid, "jxl_jbr::reconstruct::scan: a scan function that counts pending correction bits in a local counter (incremented by one "
                  "per bit, handed to write_raw / buffer_refinement_bits / a helper together with the bits) hands the counter to such a "
                  "call, or resets it after one, on every path from an increment to a normal return.  Decided by a walk over (block, "
                  "pending) states in which a test `counter > 0` / `!= 0` / `== 0` is resolved while bits are pending.  A block that "
                  "ends a refinement band with pending bits and no zero run must still emit them")
    cr = ctx.prog.crate("jxl_jbr")
    found = 0
    for f in cr.fn_list:
        if f.kind == "Promoted" or "reconstruct::scan" not in f.path:
            continue
        defs = Defs(f)
        cands = []
        inc_calls = {}
        for l in range(1, len(f.locals)):
            if f.local_ty(l) not in ("u8", "u16", "u32", "usize"):
                continue
            ds = [d for d in defs.of(l) if not f.is_cleanup(d[0]) and d[2] == "assign"]
            if not ds:
                continue
            inc = zero = False
            for d in ds:
                rv = d[3][2]
                if rv[0] == "use" and op_const_int(rv[1]) == 0:
                    zero = True
                if rv[0] == "use" and op_place(rv[1]) is not None and len(op_place(rv[1])) == 2:
                    src = defs.single(op_place(rv[1])[0])
                    if src and src[2] == "assign" and src[3][2][0] == "bin" and src[3][2][1] in ("AddWithOverflow", "Add") and \
                            op_local(src[3][2][2]) == l and op_const_int(src[3][2][3]) == 1:
                        inc = True
            # the increment may live in a helper that is handed `&mut counter` and adds one through the reference
            refs = {st[1][0] for blk in f.blocks for st in blk[0]
                    if st[0] == "=" and len(st[1]) == 1 and st[2][0] == "ref" and st[2][2] == [l]}
            grew = bool(refs)
            while grew:         # reborrows `&mut *r`
                more = {st[1][0] for blk in f.blocks for st in blk[0]
                        if st[0] == "=" and len(st[1]) == 1 and st[2][0] == "ref" and len(st[2][2]) == 2 and st[2][2][1] == "*" and st[2][2][0] in refs}
                grew = not more <= refs
                refs |= more
            for b, t in f.calls():
                c = callee(t)
                g = ctx.prog.fn(c.get("res", c["fn"])) if c else None
                if g is None or g.crate != f.crate or g is f or len(g.blocks) > 12:
                    continue
                for ai, a in enumerate(t[2]):
                    if op_local(a) in refs and any(st[0] == "=" and st[2][0] == "bin" and st[2][1] in ("AddWithOverflow", "Add") and
                                                   op_place(st[2][2]) == [ai + 1, "*"] and op_const_int(st[2][3]) == 1
                                                   for blk in g.blocks for st in blk[0]):
                        inc = True
                        inc_calls.setdefault(l, set()).add(b)
            if inc and zero:
                cands.append(l)

        def copies_of(l):
            out = {l}
            for b, blk in enumerate(f.blocks):
                for st in blk[0]:
                    if st[0] == "=" and len(st[1]) == 1 and st[2][0] == "use" and op_place(st[2][1]) == [l]:
                        out.add(st[1][0])
            return out
        for l in cands:
            cp = copies_of(l)
            consumers = {b for b, t in f.calls() if any(op_local(a) in cp and op_place(a) is not None and len(op_place(a)) == 1 for a in t[2])
                         and not (callee(t) and callee(t)["fn"].startswith("core::"))}
            if not consumers:
                continue
            found += 1
            ctx.seen(f)
            # tests of the counter against 0
            tests = {}
            for b, blk in enumerate(f.blocks):
                for st in blk[0]:
                    if st[0] == "=" and len(st[1]) == 1 and st[2][0] == "bin" and st[2][1] in ("Gt", "Ne", "Eq", "Lt", "Ge", "Le"):
                        a, c = st[2][2], st[2][3]
                        if op_local(a) in cp and op_const_int(c) == 0:
                            tests[st[1][0]] = {"Gt": 1, "Ne": 1, "Eq": 0, "Le": 0}.get(st[2][1])
                        elif op_local(c) in cp and op_const_int(a) == 0:
                            tests[st[1][0]] = {"Lt": 1, "Ne": 1, "Eq": 0, "Ge": 0}.get(st[2][1])
            start = (0, False)
            seen, work, bad = {start}, [start], False
            while work:
                b, pending = work.pop()
                known = {}
                for st in f.stmts(b):
                    if st[0] != "=":
                        continue
                    if st[1] == [l]:
                        rv = st[2]
                        if rv[0] == "use" and op_const_int(rv[1]) == 0:
                            pending = False
                        elif rv[0] == "use" and op_place(rv[1]) is not None and len(op_place(rv[1])) == 2:
                            pending = True
                    if len(st[1]) == 1 and st[1][0] in tests and tests[st[1][0]] is not None and pending:
                        known[st[1][0]] = tests[st[1][0]]
                t = f.term(b)
                if b in consumers:
                    pending = False
                if b in inc_calls.get(l, ()):
                    pending = True
                if t[0] == "ret":
                    if pending:
                        bad = True
                    continue
                nxt = list(f.succs(b))
                if t[0] == "switch" and op_local(t[1]) in known:
                    v = known[op_local(t[1])]
                    tgt = t[3]
                    for sv, x in t[2]:
                        if int(sv) == v:
                            tgt = x
                    nxt = [tgt]
                for x in nxt:
                    if f.is_cleanup(x):
                        continue
                    # an error return (from_residual) is not a normal return
                    tx = f.term(x)
                    if tx[0] == "call" and callee(tx) and callee(tx)["fn"].endswith("FromResidual::from_residual"):
                        continue
                    s2 = (x, pending)
                    if s2 not in seen:
                        seen.add(s2)
                        work.append(s2)
            key = "%s|%s#%d" % (f.path, f.local_name(l) or "counter", found)
            if bad:
                ctx.bad(rid, key + "|dropped", "a path returns normally while bits counted in `%s` are still pending: they were neither written nor "
                        "buffered, so the reconstructed scan lacks them" % (f.local_name(l) or "the counter"), fn=f)
            else:
                ctx.ok(rid, key, "pending bits are handed on before every normal return", nontrivial=True, fn=f)
    ctx.count(rid + ".counters", found)
    ctx.floor(rid + ".counters", 1)


def rule_scaninfo_eval(ctx):
    """ScanMoreInfo::parse, evaluated from MIR with scripted field reads, decodes the two delta-coded block lists independently"""
    from .. import absint
    rid = "R-JBR-SCANINFO"
    ctx.rule(rid, "jbrd scan info (ISO/IEC 18181-2 Annex on JPEG reconstruction data): reset_points and extra_zero_runs are two lists of "
                  "block indices, each delta-coded from its own start (first entry absolute, then previous + delta + 1), indices above "
                  "3 << 26 rejected.  jxl_jbr::ScanMoreInfo::parse is evaluated from MIR (nothing is run) with Bitstream::read_u32 "
                  "replaced by a scripted source on four scripts (both lists non-empty, one empty, a large delta, a value over the "
                  "limit) and the decoded set / map compared with the definition.  A running index shared by the two lists (seed "
                  "C17n) shifts every extra zero run by the last reset point")
    cr = ctx.prog.crate("jxl_jbr")
    fs = [g for g in cr.fn_list if "ScanMoreInfo" in g.path and g.path.endswith("::parse") and g.kind == "AssocFn"]
    adt = cr.adts.get("jxl_jbr::ScanMoreInfo")
    if len(fs) != 1 or adt is None:
        ctx.anchor_missing(rid, "<jxl_jbr::ScanMoreInfo as Bundle>::parse")
        return
    f = fs[0]
    ctx.seen(f)
    names = [x[0] for x in adt["variants"][0]["fields"]]
    if sorted(names) != ["extra_zero_runs", "reset_points"]:
        ctx.anchor_missing(rid, "ScanMoreInfo { reset_points, extra_zero_runs }")
        return
    LIM = 3 << 26
    scripts = [
        ("three reset points, three zero runs", [5, 0, 7], [(2, 4), (1, 0), (3, 9)]),
        ("no reset point, one zero run", [], [(1, 3)]),
        ("one reset point, no zero run", [0], []),
        ("reset points up to the limit, then a zero run at 0", [LIM - 10, 9], [(4, 0), (1, LIM - 1)]),
        ("reset point over the limit", [LIM - 10, 10], []),
        ("zero run over the limit", [1], [(1, 7), (1, LIM - 7)]),
    ]
    rows, bad, undec = 0, None, None
    for name, resets, runs in scripts:
        seq = [len(resets)] + list(resets) + [len(runs)] + [v for nr, rl in runs for v in (nr, rl)]
        it = iter(seq)

        def ru(args, it=it):
            try:
                return absint.Enum("core::result::Result", 0, "Ok", [next(it)])
            except StopIteration:
                raise absint.Unsupported("the parser reads more fields than the definition")
        want, last, ok = [set(), {}], None, True
        for d in resets:
            last = d if last is None else last + d + 1
            ok = ok and last <= LIM
            want[0].add(last)
        last = None
        for nr, rl in runs:
            last = rl if last is None else last + rl + 1
            ok = ok and last <= LIM
            want[1][last] = nr
        ev = absint.Evaluator(ctx.prog)
        ev.max_steps = 200000
        ev.intercept = {"Bitstream::<'_>::read_u32": ru, "Bitstream::read_u32": ru}
        try:
            r = ev.call_fn(f, [absint.Ref(("ext", "bitstream")), ()])
        except absint.Unsupported as e:
            undec = "script `%s`: %s" % (name, e)
            break
        rows += 1
        got = None
        if isinstance(r, absint.Enum) and r.name == "Ok" and isinstance(r.fields[0], absint.Struct):
            d = dict(zip(names, r.fields[0].fields))
            rp, ez = d["reset_points"], d["extra_zero_runs"]
            if isinstance(rp, absint.BufView) and isinstance(ez, absint.BufView):
                got = [set(rp.items()), dict(tuple(x) for x in ez.items())]
        elif isinstance(r, absint.Enum) and r.name == "Err":
            got = "err"
        if got is None:
            undec = "script `%s`: result %r" % (name, r)
            break
        w = want if ok else "err"
        if got != w and bad is None:
            bad = (name, got, w)
    ctx.count(rid + ".scripts", rows)
    if undec:
        ctx.bad(rid, "parse|not-evaluable", "ScanMoreInfo::parse is no longer a function the evaluator can decide (%s)" % undec, fn=f)
        return
    ctx.floor(rid + ".scripts", 6)
    if bad:
        ctx.bad(rid, "parse|delta-lists", "script `%s`: decoded [reset points, zero runs] = %s, the definition gives %s: the reconstructed scan "
                "places restart flushes or zero-run symbols at the wrong blocks" % bad, fn=f)
    else:
        ctx.ok(rid, "parse|delta-lists", "%d scripts: both lists decode from their own start" % rows, nontrivial=True, fn=f)


def main(pid, tier, repo=None):
    configs = ("workspace",) if tier == "quick" else ("workspace", "norayon")
    ctx = Ctx(pid, tier, configs=configs, repo=repo)
    for cfg in configs:
        ctx.use_config(cfg)
        rule_reject(ctx)
        rule_status(ctx)
        rule_state(ctx)
        rule_markerstate(ctx)
        rule_layout(ctx)
        rule_seglen(ctx)
        rule_pending_bits(ctx)
        rule_scaninfo_eval(ctx)
        fieldrange.run(ctx, LIB_CRATES, only_crates=("jxl_jbr", "jxl_oxide"))
        searchunwrap.run(ctx, ["jxl_jbr"], floor=20)
        from . import fixguards
        fixguards.run(ctx, pid)
    specconst.run(ctx, pid)
    ctx.not_decided("byte equality of the reconstructed JPEG with the original (Huffman re-encoding, marker replay, integer chroma-from-luma, "
                    "padding bits): value-level")
    ctx.not_decided("panics that depend on relations between vectors of the reconstruction header (table indices vs table counts, "
                    "is_last markers, Huffman code shapes): outside the interval domain")
    return ctx.finish(
        "Claimed narrowly: the two clauses of the property that are visible in the shape of the code. (1) `Available` is reported only with "
        "a complete jbrd box and after every piece of metadata the header says it needs has been probed (R-JBR-STATUS, path rules on MIR "
        "with per-variant constant propagation). (2) Hostile reconstruction data: the consistency checks exist as compare->error "
        "(R-JBR-REJECT), and no header field with a width-implied range reaches an overflow-checked operation, shift, division or "
        "fixed-size array index it can break (R-FIELDRANGE, interval abstract interpretation; found D9-D11), and no predicate search over the "
        "header's table lists is unwrapped (R-SEARCH-UNWRAP; found D13/D14). Byte-exactness is not decided.")

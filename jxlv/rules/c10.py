"""C10 — container framing (claimed in part): R-JXLP (typestate table), R-BOXSIZE, R-BOXHDR, R-CONSUMED."""
from .. import validation
from ..engine import Ctx
from . import specconst
from ..facts import callee, op_local, op_place, op_const_int, pos_line, place_fields
from ..mirutil import Defs, access_path, switch_subject, find_path_edges, succ_edges, const_explore

EMIT = "jxl_bitstream::container::parse::ParseEvents::<'inner, 'buf>::emit_single"
NEXT = "<jxl_bitstream::container::parse::ParseEvents<'_, 'buf> as core::iter::traits::iterator::Iterator>::next"
NEW = "jxl_bitstream::container::parse::ParseEvents::<'inner, 'buf>::new"
HDR_PARSE = "jxl_bitstream::container::box_header::ContainerBoxHeader::parse"
JXLP = "jxl_bitstream::container::JxlpIndexState"
DETECT = "jxl_bitstream::container::DetectState"
PARSER = "jxl_bitstream::container::ContainerParser"

# reference transition signatures (ISO/IEC 18181-2: one jxlc xor a gap-free jxlp sequence whose last box has the end flag)
REF_SIGNATURES = {
    "on-jxlc": {"Initial": {"set:SingleJxlc"}, "SingleJxlc": {"err"}, "Jxlp": {"err"}, "JxlpFinished": {"err"}},
    "on-jxlp": {"Initial": {"set:Jxlp"}, "Jxlp": {"incr"}, "SingleJxlc": {"err"}, "JxlpFinished": {"err"}},
    "on-index": {"Jxlp": {"set:JxlpFinished", "proceed", "err"}, "Initial": {"panic"}, "SingleJxlc": {"panic"}, "JxlpFinished": {"panic"}},
}


def is_jxlp_place(f, defs, p):
    """place is (*x) where x refers to ContainerParser.jxlp_index_state"""
    if len(p) < 2 or p[1] != "*":
        return False
    ap = access_path(f, defs, p[0])
    if ap and ap[1] and ap[1][-1] == "jxlp_index_state":
        return True
    # a method of the state type itself: (*self) with self: &mut JxlpIndexState
    root = ap[0] if ap else p[0]
    ty = f.local_ty(root)
    return ap is not None and ap[1] == () and ty.lstrip("&").replace("mut ", "").strip() == JXLP


def jxlp_signatures(f, variants):
    """[(block, {variant: first effects})] for every switch of f on the discriminant of the jxlp index state; and the effect map"""
    defs = Defs(f)
    errs = validation.err_return_blocks(f)
    pan = validation.panics(f)
    # effect blocks
    eff = {}

    def add(b, lab):
        eff.setdefault(b, set()).add(lab)

    for b in errs:
        add(b, "err")
    for b in pan:
        add(b, "panic")
    for b, blk in enumerate(f.blocks):
        if f.is_cleanup(b):
            continue
        for st in blk[0]:
            if st[0] != "=":
                continue
            p = st[1]
            if is_jxlp_place(f, defs, p):
                if len(p) == 2:
                    rv = st[2]
                    var = None
                    if rv[0] == "agg" and rv[1][0] == "adt" and rv[1][1] == JXLP:
                        var = rv[1][2]
                    elif rv[0] == "use":
                        l = op_local(rv[1])
                        d = defs.single(l) if l is not None else None
                        if d and d[2] == "assign" and d[3][2][0] == "agg" and d[3][2][1][1] == JXLP:
                            var = d[3][2][1][2]
                    add(b, "set:%s" % var)
                else:
                    add(b, "incr")
            elif len(p) == 2 and p[1] == "*" and st[2][0] in ("use",):
                # store through a reference to the Jxlp payload: `*index += 1`
                ap = access_path(f, defs, p[0])
                if ap and "as Jxlp" in ap[1] and ("jxlp_index_state" in ap[1]
                                                 or f.local_ty(ap[0]).lstrip("&").replace("mut ", "").strip() == JXLP):
                    add(b, "incr")
                # store of a DetectState through `state`
                l = op_local(st[2][1])
                d = defs.single(l) if l is not None else None
                if d and d[2] == "assign" and d[3][2][0] == "agg" and d[3][2][1][0] == "adt" and d[3][2][1][1] == DETECT:
                    add(b, "proceed")
            if st[2][0] == "agg" and st[2][1][0] == "adt" and st[2][1][1] == DETECT and len(p) == 2 and p[1] == "*":
                add(b, "proceed")
            # any store of a whole DetectState through a reference (however the value was produced)
            if len(p) == 2 and p[1] == "*" and f.local_ty(p[0]).lstrip("&").replace("mut ", "").strip() == DETECT:
                add(b, "proceed")
        t = blk[1]
        if t[0] == "call" and t[3] and len(t[3]) == 2 and t[3][1] == "*" \
                and f.local_ty(t[3][0]).lstrip("&").replace("mut ", "").strip() == DETECT:
            add(b, "proceed")
    if not f.path.endswith("::emit_single"):
        for b, blk in enumerate(f.blocks):
            if f.is_cleanup(b):
                continue
            for st in blk[0]:
                if st[0] == "=" and st[1] == [0] and st[2][0] == "agg" and st[2][1][0] == "adt" and st[2][1][1] == "core::result::Result" and st[2][1][2] == "Ok":
                    if b not in eff:
                        add(b, "proceed")
    sigs = []
    for b in range(len(f.blocks)):
        if f.is_cleanup(b):
            continue
        sub = switch_subject(f, defs, b)
        if not sub or sub[0] != "discr" or not is_jxlp_place(f, defs, sub[1]):
            continue
        t = f.term(b)
        listed = {int(v): x for v, x in t[2]}
        sig = {}
        for vi, vn in enumerate(variants):
            tgt = listed.get(vi, t[3])
            sig[vn] = frozenset(first_effects(f, tgt, eff))
        sigs.append((b, sig))
    return sigs, eff


def rule_jxlp(ctx, bs):
    rid = "R-JXLP"
    ctx.rule(rid, "the transition table of the partial-codestream typestate is extracted from MIR (for every switch on the discriminant of "
                  "ContainerParser.jxlp_index_state: variant -> first effects {set V, incr, err, panic, proceed}) and must equal the "
                  "reference table; comparison is on effects, not code shape")
    f = bs.fn(EMIT)
    adt = bs.adts.get(JXLP)
    if f is None or adt is None:
        ctx.anchor_missing(rid, EMIT if f is None else JXLP)
        return
    ctx.seen(f)
    variants = [v["name"] for v in adt["variants"]]
    sigs = []
    eff = {}
    for g in bs.fn_list:
        if g.kind == "Promoted":
            continue
        gs, ge = jxlp_signatures(g, variants)
        # a switch none of whose arms has an effect on the state or the result (derived Debug / Clone, pure observers) is no transition
        gs = [(b_, sg) for b_, sg in gs if any(set(e) - {"return"} for e in sg.values())]
        if gs:
            ctx.seen(g)
            sigs.extend((g, b_, sg) for b_, sg in gs)
        if g is f:
            eff = ge
    ctx.count(rid + ".switches", len(sigs))
    used = set()
    for g, b, sig in sigs:
        match = None
        for name, ref in REF_SIGNATURES.items():
            if all(set(sig.get(v, ())) == ref[v] for v in variants) and name not in used:
                match = name
                break
        shown = {v: sorted(s) for v, s in sig.items()}
        if match:
            used.add(match)
            ctx.ok(rid, "table:" + match, "%s line %d: %s" % (g.path.split("::")[-1], pos_line(g.term_pos(b)), shown), nontrivial=True, fn=g)
        else:
            # which reference is closest
            best = min(REF_SIGNATURES.items(), key=lambda kv: sum(set(sig.get(v, ())) != kv[1][v] for v in variants))
            diffs = {v: (sorted(sig.get(v, ())), sorted(best[1][v])) for v in variants if set(sig.get(v, ())) != best[1][v]}
            ctx.bad(rid, "table-mismatch:%s:%s" % (best[0], ",".join(sorted(diffs))),
                    "jxlp/jxlc state transitions differ from the container rules (closest table %s): %s  [found, required]"
                    % (best[0], diffs), fn=g, pos=g.term_pos(b))
    missing = [n for n in REF_SIGNATURES if n not in used]
    for n in missing:
        ctx.bad(rid, "table-missing:" + n, "no switch on the jxlp index state implements the `%s` transition table" % n, fn=f)
    # out-of-order rejection and the end flag
    defs = Defs(f)
    errs = validation.err_return_blocks(f)
    cs = validation.checks(f, errs=errs)
    conds = {validation.norm(c["subject"], c["op"], c["other"]) for c in cs}
    if "expected_index != index" in conds or "index != expected_index" in conds:
        ctx.ok(rid, "index-must-match", "reject expected_index != index", nontrivial=True, fn=f)
    else:
        ctx.bad(rid, "index-must-match", "out-of-order / duplicated jxlp boxes are no longer rejected (no `expected_index != index -> Err`); "
                "checks present: %s" % sorted(c for c in conds if "index" in c), fn=f)
    # JxlpFinished only when is_last
    fin = [b for b, labs in eff.items() if "set:JxlpFinished" in labs]
    ok_last = False
    for fb in fin:
        for b in range(len(f.blocks)):
            t = f.term(b)
            if t[0] != "switch":
                continue
            l = op_local(t[1])
            if l is None or f.local_name(l) != "is_last":
                # is_last may be copied into a temp
                d = defs.single(l) if l is not None else None
                src = op_local(d[3][2][1]) if d and d[2] == "assign" and d[3][2][0] == "use" else None
                if src is None or f.local_name(src) != "is_last":
                    continue
            false_edges = {(b, x, v) for v, x in t[2] if v == "0"}
            if find_path_edges(f, [0], lambda x: x == fb, avoid_edge=lambda x, s, lab: (x, s, lab) not in false_edges and x == b) is None:
                ok_last = True
    if fin and ok_last:
        ctx.ok(rid, "finished-only-on-last-flag", "JxlpFinished is stored only behind is_last", nontrivial=True, fn=f)
    else:
        ctx.bad(rid, "finished-only-on-last-flag", "JxlpFinished is not (only) set under the last-box flag", fn=f)


def first_effects(f, start, eff, limit=400):
    out = set()
    seen = set()
    work = [start]
    while work:
        b = work.pop()
        if b in seen:
            continue
        seen.add(b)
        if len(seen) > limit:
            out.add("far")
            break
        if b in eff:
            out |= eff[b]
            continue
        if f.term(b)[0] == "ret":
            out.add("return")
            continue
        work.extend(f.succs(b))
    return out


def rule_boxsize(ctx, bs):
    rid = "R-BOXSIZE"
    ctx.rule(rid, "no box size is reduced below zero (the header's own size arithmetic: R-BOXHDR-EVAL): a jxlp box smaller than its "
                  "4-byte index and a brob box smaller than its 4-byte inner type are rejected before the unchecked `- 4`; reserved inner "
                  "types of brob are rejected; every other subtraction on bytes_left is bounded by min()/a length test")
    f = bs.fn(EMIT)
    h = bs.fn(HDR_PARSE)
    if f is None or h is None:
        ctx.anchor_missing(rid, EMIT if f is None else HDR_PARSE)
        return
    ctx.seen(f)
    ctx.seen(h)
    # (i) the header parser's own size arithmetic is decided by R-BOXHDR-EVAL (evaluated from MIR), whatever its spelling
    cs = validation.checks(f)
    conds = {}
    for c in cs:
        conds.setdefault(validation.norm(c["subject"], c["op"], c["other"]), []).append(c)
    # (ii) jxlp: box_size < 4 rejected, and every construction of WaitingJxlpIndex is behind that check's pass edge or the None edge
    need = [("box_size < 4", "jxlp box shorter than its index", "WaitingJxlpIndex"),
            ("bytes_left < 4", "brob box shorter than its inner type", None)]
    for cond, why, variant in need:
        if cond in conds:
            ctx.ok(rid, "reject:" + cond, why, nontrivial=True, fn=f)
        else:
            near = sorted(k for k in conds if cond.split(" ")[0] in k)
            ctx.bad(rid, "reject-missing:" + cond, "%s is no longer rejected (`%s -> Err` not found; similar: %s): the following `- 4` underflows"
                    % (why, cond, near), fn=f)
    # guarded construction of WaitingJxlpIndex
    if "box_size < 4" in conds:
        c = conds["box_size < 4"][0]
        build = [b for b, blk in enumerate(f.blocks) for st in blk[0]
                 if st[0] == "=" and st[2][0] == "agg" and st[2][1][0] == "adt" and st[2][1][1] == DETECT and st[2][1][2] == "WaitingJxlpIndex"]
        for bb in build:
            if reaches_without_check(f, c, bb):
                ctx.bad(rid, "unguarded:WaitingJxlpIndex", "DetectState::WaitingJxlpIndex can be entered without passing the `box_size < 4` rejection", fn=f, pos=f.term_pos(bb))
            else:
                ctx.ok(rid, "guarded:WaitingJxlpIndex", "every path to the state passes the size check (or the size is None)", nontrivial=True, fn=f)
    # (iv) reserved brob inner types
    vf = False
    for b, blk in enumerate(f.blocks):
        for st in blk[0]:
            if st[0] == "=" and st[2][0] == "agg" and st[2][1][0] == "adt" and st[2][1][1] == "jxl_bitstream::error::Error" and st[2][1][2] == "ValidationFailed":
                vf = True
    if vf:
        ctx.ok(rid, "brob-reserved-types", "ValidationFailed is constructed for reserved inner types", fn=f)
    else:
        ctx.bad(rid, "brob-reserved-types", "compressed reserved box types (jxl?, brob, jbrd) are no longer rejected", fn=f)
    # (v) unchecked subtractions census in emit_single
    subs = []
    defs = Defs(f)
    for b, blk in enumerate(f.blocks):
        if f.is_cleanup(b):
            continue
        for st in blk[0]:
            if st[0] == "=" and st[2][0] == "bin" and st[2][1] in ("SubWithOverflow", "Sub"):
                a = validation.subject_name(f, defs, st[2][2])
                c2 = validation.subject_name(f, defs, st[2][3])
                subs.append((str(a), str(c2), st[3]))
    ctx.count(rid + ".subtractions", len(subs))
    allowed = 0
    for a, c2, pos in subs:
        desc = "%s - %s" % (a, c2)
        if c2 == "4" or "min" in c2 or "len(" in c2 or c2.startswith("ret:") or "num_bytes_to_read" in c2:
            allowed += 1
            ctx.ok(rid, "sub:" + desc, "subtrahend is 4 (guarded above), a length behind a length test, or a min()", fn=f)
        else:
            ctx.bad(rid, "sub-unreviewed:" + desc, "new subtraction `%s` on container sizes at line %d: not covered by a reviewed guard" % (desc, pos_line(pos)), fn=f, pos=pos)


def reaches_without_check(f, chk, target):
    """is `target` reachable from entry while avoiding both edges of the check's switch?
    (i.e. on a path that never evaluated the check) — the None case of `if let Some(size)` is accepted because the
    check block is only skipped when the size is None (looked up: the check's block is dominated by an Option discriminant switch)"""
    b = chk["bb"]
    # paths that bypass block b entirely
    path = find_path_edges(f, [0], lambda x: x == target, avoid_block=lambda x: x == b)
    if path is None:
        return False
    # accept a bypass only if it leaves through the None edge of an Option switch that dominates the check
    doms = [d for d in f.dominators().get(b, ()) if d != b and f.term(d)[0] == "switch"]
    defs = Defs(f)
    none_edges = set()
    for d in doms:
        sub = switch_subject(f, defs, d)
        if sub and sub[0] == "discr":
            ty = f.local_ty(sub[1][0]) if len(sub[1]) == 1 else ""
            if ty.startswith("core::option::Option<"):
                t = f.term(d)
                vals = {v: x for v, x in t[2]}
                if "1" in vals:
                    none_edges.add((d, t[3], "otherwise"))
                if "0" in vals:
                    none_edges.add((d, vals["0"], "0"))
    path = find_path_edges(f, [0], lambda x: x == target, avoid_block=lambda x: x == b,
                           avoid_edge=lambda x, s, lab: (x, s, lab) in none_edges)
    return path is not None


def rule_boxhdr(ctx, bs):
    rid = "R-BOXHDR"
    ctx.rule(rid, "prefix-closedness of the box header parser: with the four size bytes equal to the extended-size marker [0,0,0,1] and "
                  "fewer than 16 bytes available, parse() cannot reach the 32-bit-size arm (its checked_sub(8) -> InvalidBox); decided by "
                  "constant propagation over the slice-pattern decision tree in MIR")
    h = bs.fn(HDR_PARSE)
    if h is None:
        ctx.anchor_missing(rid, HDR_PARSE)
        return
    ctx.seen(h)
    # the 32-bit-size arm: where the four size bytes are assembled into a u32 (and reduced by the header size)
    sub8 = [b for b, t in h.calls() if callee(t) and callee(t)["fn"] in ("core::num::<impl u32>::checked_sub", "core::num::<impl u32>::from_be_bytes")]
    if not sub8:
        ctx.anchor_missing(rid, "the 32-bit size arm (u32::from_be_bytes / checked_sub) in ContainerBoxHeader::parse")
        return
    reached = explore_marker(h, sub8)
    if reached is None:
        ctx.bad(rid, "%s|decision-tree-not-understood" % HDR_PARSE, "cannot follow the slice-pattern decision tree of the header parser", fn=h)
    elif reached:
        ctx.bad(rid, "%s|xl-marker-reaches-32bit-arm" % HDR_PARSE,
                "a header starting with the 64-bit marker [0,0,0,1] but with only 8..15 bytes available is parsed by the 32-bit arm "
                "(1.checked_sub(8) -> InvalidBox): a valid file is rejected depending on how the bytes arrive", fn=h, pos=h.term_pos(reached[0]))
    else:
        ctx.ok(rid, "xl-marker-needs-16-bytes", "with bytes [0,0,0,1,..] and 8 <= len < 16 every path ends in NeedMoreData", nontrivial=True, fn=h)


def explore_marker(h, sub8):
    """abstract run of the decision tree: buf[0..4] = 0,0,0,1 ; 8 <= len(buf) <= 15"""
    reached = []
    MARK = {0: 0, 1: 0, 2: 0, 3: 1}
    # locals holding len(buf): results of PtrMetadata / Len on the argument
    seen = set()
    stack = [(0, ())]
    steps = 0
    while stack:
        bb, envt = stack.pop()
        if (bb, envt) in seen:
            continue
        seen.add((bb, envt))
        steps += 1
        if steps > 20000:
            return None
        env = dict(envt)
        if bb in sub8:
            reached.append(bb)
            continue
        for st in h.stmts(bb):
            if st[0] != "=" or len(st[1]) != 1:
                continue
            dst = st[1][0]
            rv = st[2]
            val = None
            if rv[0] == "use":
                val = op_const_int(rv[1])
                p = op_place(rv[1])
                if val is None and p is not None:
                    if len(p) == 1 and p[0] in env:
                        val = env[p[0]]
                    else:
                        # (*buf)[i of n]
                        idx = [e for e in p[1:] if isinstance(e, list) and e[0] == "[c]"]
                        if idx and not idx[0][3] and idx[0][1] in MARK:
                            val = MARK[idx[0][1]]
            elif rv[0] == "un" and rv[1] in ("PtrMetadata",):
                val = ("len",)
            elif rv[0] == "bin":
                a = rv[2]
                c = rv[3]
                av = op_const_int(a)
                cv = op_const_int(c)
                al = op_local(a)
                cl = op_local(c)
                if av is None and al in env:
                    av = env[al]
                if cv is None and cl in env:
                    cv = env[cl]
                if av == ("len",) and isinstance(cv, int):
                    # 8 <= len <= 15
                    if rv[1] == "Ge":
                        val = 1 if cv <= 8 else (0 if cv > 15 else None)
                    elif rv[1] == "Lt":
                        val = 0 if cv <= 8 else (1 if cv > 15 else None)
                    elif rv[1] == "Eq":
                        val = 0 if (cv < 8 or cv > 15) else None
                elif isinstance(av, int) and isinstance(cv, int):
                    val = {"Eq": int(av == cv), "Ne": int(av != cv), "Lt": int(av < cv), "Le": int(av <= cv),
                           "Gt": int(av > cv), "Ge": int(av >= cv)}.get(rv[1])
            if val is None:
                env.pop(dst, None)
            else:
                env[dst] = val
        t = h.term(bb)
        nxt = h.succs(bb)
        if t[0] == "switch":
            l = op_local(t[1])
            v = env.get(l) if l is not None else op_const_int(t[1])
            if v is None:
                p = op_place(t[1])
                if p is not None and len(p) > 1:
                    idx = [e for e in p[1:] if isinstance(e, list) and e[0] == "[c]"]
                    if idx and not idx[0][3] and idx[0][1] in MARK:
                        v = MARK[idx[0][1]]
            if isinstance(v, int):
                tgt = t[3]
                for val, x in t[2]:
                    if int(val) == v:
                        tgt = x
                nxt = [tgt]
        elif t[0] == "call" and len(t[3]) == 1:
            c = callee(t)
            env.pop(t[3][0], None)
            if c and c["fn"].endswith("::len") and t[2]:
                env[t[3][0]] = ("len",)
        et = tuple(sorted(env.items(), key=lambda kv: kv[0]))
        for s in nxt:
            stack.append((s, et))
    return reached


def rule_retry(ctx, bs):
    """an arm of the container state machine that asks for more data leaves nothing behind"""
    rid = "R-RETRY-IDEMPOTENT"
    ctx.rule(rid, "ParseEvents::emit_single: when an arm of the `match state` returns Ok(None) (need more data) without having stored a new "
                  "DetectState, the same arm runs again on the next feed with the same bytes re-offered; on every such path - from the "
                  "switch on the state to the Ok(None) return, avoiding stores of a new state - there is no store to the jxlp index state, "
                  "to a field of the current state (bytes_left ...), or to the input cursor. Otherwise the effect is applied once per feed "
                  "call and depends on how the stream was cut")
    f = bs.fn(EMIT)
    if f is None:
        ctx.anchor_missing(rid, EMIT)
        return
    ctx.seen(f)
    defs = Defs(f)
    # the switch on the discriminant of *state
    heads = []
    for b in range(len(f.blocks)):
        if f.is_cleanup(b):
            continue
        sub = switch_subject(f, defs, b)
        if sub and sub[0] == "discr":
            ap = access_path(f, defs, sub[1][0])
            ty = f.local_ty(sub[1][0])
            if DETECT in ty or (ap and ap[1] and ap[1][-1] == "state"):
                heads.append(b)
    # Ok(None) returns
    rets = set()
    for b, blk in enumerate(f.blocks):
        if blk[2]:
            continue
        none_locals = {st[1][0] for st in blk[0] if st[0] == "=" and len(st[1]) == 1 and st[2][0] == "agg" and st[2][1][0] == "adt"
                       and st[2][1][1] == "core::option::Option" and st[2][1][2] == "None"}
        for st in blk[0]:
            if st[0] == "=" and st[1] == [0] and st[2][0] == "agg" and st[2][1][0] == "adt" and st[2][1][1] == "core::result::Result" \
                    and st[2][1][2] == "Ok" and any(op_local(o) in none_locals for o in st[2][2]):
                rets.add(b)
    if not heads or not rets:
        ctx.anchor_missing(rid, "the `match state` switch / Ok(None) returns of emit_single")
        return
    state_stores = set()
    mutations = {}
    for b, blk in enumerate(f.blocks):
        if blk[2]:
            continue
        for st in blk[0]:
            if st[0] != "=" or len(st[1]) < 2:
                continue
            p = st[1]
            ap = access_path(f, defs, p[0])
            names = tuple(ap[1]) if ap else ()
            fields = [e[2] for e in p[1:] if isinstance(e, list) and e[0] == "."]
            if p[1] == "*" and len(p) == 2 and (names[-1:] == ("state",)):
                state_stores.add(b)
            elif p[1] == "*" and (names[-1:] == ("jxlp_index_state",) or "jxlp_index_state" in names):
                mutations[b] = "the jxlp index state"
            elif p[1] == "*" and ("state" in names) and (fields or len(names) > names.index("state") + 1):
                mutations[b] = "a field of the current state (%s)" % (".".join(str(x) for x in (list(names[names.index("state") + 1:]) + fields)) or "payload")
            elif p[1] == "*" and len(p) == 2 and names[-1:] == ("remaining_input",):
                mutations[b] = "the input cursor"
    n = 0
    bad = []
    for m, what in sorted(mutations.items()):
        if m in state_stores:
            continue
        n += 1
        for h in heads:
            p1 = find_path_edges(f, [h], lambda x: x == m, avoid_block=lambda x: x in state_stores and x != m)
            if p1 is None:
                continue
            p2 = find_path_edges(f, [m], lambda x: x in rets, avoid_block=lambda x: (x in state_stores or x in heads) and x != m)
            if p2 is not None:
                bad.append((m, what, p2))
                break
    ctx.counts[rid + ".mutations"] = n
    if bad:
        seen_w = set()
        for m, what, path in bad:
            if what in seen_w:
                continue
            seen_w.add(what)
            ctx.bad(rid, "mutation-before-need-more-data:%s" % what.split(" (")[0], "emit_single modifies %s (line %d) and can then return Ok(None) without "
                    "moving to a new state: the arm is executed again on the next feed and the modification is applied twice"
                    % (what, pos_line(f.term_pos(m))), fn=f, pos=f.term_pos(m), path=path)
    else:
        ctx.ok(rid, "retried-arms-are-pure", "%d state/cursor mutations examined: none can be followed by Ok(None) without a new state" % n, nontrivial=True, fn=f)
    ctx.floor(rid + ".mutations", 4)


def rule_consumed(ctx, bs):
    rid = "R-CONSUMED"
    ctx.rule(rid, "ParseEvents::next adds (initial.len() - remaining.len()) to previous_consumed_bytes on every path after emit_single, "
                  "including the error path and the no-event path; only new() (zeroing) and next() write the counter")
    f = bs.fn(NEXT)
    if f is None:
        cands = [x for x in bs.fn_list if x.path.endswith("as core::iter::traits::iterator::Iterator>::next") and "ParseEvents" in x.path]
        f = cands[0] if cands else None
    if f is None:
        ctx.anchor_missing(rid, NEXT)
        return
    ctx.seen(f)
    emit = [b for b, t in f.calls() if callee(t) and callee(t)["fn"].endswith("::emit_single")]
    stores = []
    for b, blk in enumerate(f.blocks):
        if f.is_cleanup(b):
            continue
        for st in blk[0]:
            if st[0] == "=" and place_fields(st[1]) and place_fields(st[1])[-1][0] == "previous_consumed_bytes":
                stores.append(b)
    if not emit:
        ctx.anchor_missing(rid, "call to emit_single in next()")
        return
    start = f.term(emit[0])[4]
    path = find_path_edges(f, [start], lambda x: f.term(x)[0] == "ret", avoid_block=lambda x: x in stores) if start not in stores else None
    if stores and path is None:
        ctx.ok(rid, "next-updates-counter", "the counter store post-dominates emit_single (normal edges)", nontrivial=True, fn=f)
    else:
        ctx.bad(rid, "%s|exit-without-counter-update" % "ParseEvents::next",
                "after emit_single, next() can return without adding the consumed bytes to previous_consumed_bytes: bytes consumed by the "
                "parser are reported as unconsumed and are fed again by callers following the re-feed contract", fn=f,
                pos=f.term_pos(emit[0]), path=path)
    # the stored value is old + (A - B), A = remaining_input.len() taken before emit_single, B = the same taken after it
    defs = Defs(f)

    def resolve(o, depth=0):
        """follow moves/copies and the `.0` of a checked operation to the defining rvalue / call of an operand"""
        if depth > 12:
            return None
        p = op_place(o)
        if p is None:
            return ("const", o)
        d = defs.single(p[0])
        if d is None:
            return None
        if d[2] == "assign":
            rv = d[3][2]
            if rv[0] == "use":
                return resolve(rv[1], depth + 1)
            if rv[0] == "bin":
                return ("bin", rv[1], rv[2], rv[3], d[0])
            return ("rv", rv, d[0])
        if d[2] == "call":
            return ("call", d[3], d[0])
        return None

    def load_block(l, depth=0):
        """block of the statement that reads the field `remaining_input` into (a chain ending in) local l"""
        if depth > 10:
            return None
        d = defs.single(l)
        if not d or d[2] != "assign":
            return None
        rv = d[3][2]
        pl = rv[2] if rv[0] == "ref" else (op_place(rv[1]) if rv[0] == "use" else None)
        if pl is None:
            return None
        if any(n == "remaining_input" for n, _ in place_fields(pl)):
            return d[0]
        return load_block(pl[0], depth + 1)

    def is_len_of_remaining(o):
        r = resolve(o)
        if not r or r[0] != "call":
            return None
        c = callee(r[1])
        if not c or not c["fn"].endswith("::len") or not r[1][2]:
            return None
        al = op_local(r[1][2][0])
        return load_block(al) if al is not None else None

    good_val = False
    for b in stores:
        for st in f.stmts(b):
            if st[0] == "=" and place_fields(st[1]) and place_fields(st[1])[-1][0] == "previous_consumed_bytes" and st[2][0] == "use":
                r = resolve(st[2][1])
                if not (r and r[0] == "bin" and r[1] in ("Add", "AddWithOverflow")):
                    continue
                for old_o, diff_o in ((r[2], r[3]), (r[3], r[2])):
                    oldn = validation.subject_name(f, defs, old_o, use_names=False)
                    if oldn is None or "previous_consumed_bytes" not in str(oldn):
                        continue
                    d = resolve(diff_o)
                    if not (d and d[0] == "bin" and d[1] in ("Sub", "SubWithOverflow")):
                        continue
                    ba, bb_ = is_len_of_remaining(d[2]), is_len_of_remaining(d[3])
                    if ba is None or bb_ is None:
                        continue
                    # A is read from the field at or before the emit_single block, B after it
                    before = all(f.dominates(ba, e) for e in emit)
                    after = all(f.dominates(f.term(e)[4], bb_) for e in emit)
                    if before and after:
                        good_val = True
                        ctx.ok(rid, "counter-value", "stored value is old + (remaining_input.len() before emit_single - the same after)",
                               nontrivial=True, fn=f)
    if stores and not good_val:
        ctx.bad(rid, "counter-value", "the value stored into previous_consumed_bytes is not `old + (remaining_input.len() before emit_single "
                "- remaining_input.len() after)`", fn=f)
    # writers census
    writers = set()
    for g in bs.fn_list:
        for b, blk in enumerate(g.blocks):
            for st in blk[0]:
                if st[0] == "=" and place_fields(st[1]) and place_fields(st[1])[-1] == ("previous_consumed_bytes", PARSER):
                    writers.add(g.path)
    extra = {w for w in writers if not (w.endswith("::next") or w.endswith("ParseEvents::<'inner, 'buf>::new"))}
    if extra:
        ctx.bad(rid, "counter-writer:" + ",".join(sorted(extra)), "previous_consumed_bytes is written outside ParseEvents::new/next", fn=bs.fn(sorted(extra)[0]))
    else:
        ctx.ok(rid, "counter-writers", "writers: %s" % sorted(writers), fn=f)
    nf = bs.fn(NEW)
    if nf is not None:
        zero = any(st[0] == "=" and place_fields(st[1]) and place_fields(st[1])[-1][0] == "previous_consumed_bytes" and st[2][0] == "use" and op_const_int(st[2][1]) == 0
                   for blk in nf.blocks for st in blk[0])
        if zero:
            ctx.ok(rid, "feed-resets-counter", "ParseEvents::new stores 0", fn=nf)
        else:
            ctx.bad(rid, "feed-resets-counter", "feed_bytes no longer zeroes previous_consumed_bytes on entry", fn=nf)
    else:
        ctx.anchor_missing(rid, NEW)


AUX = "jxl_oxide::aux_box::AuxBoxList"


def first_calls(f, start, names, limit=300, crate=None, depth=1):
    """callee short names (among `names`) reachable from block `start` before a return; with `crate`, private helpers of that crate
    that the blocks call are looked into (one level): a handler moved into `start_box()` still reaches its callees"""
    out = set()
    seen = set()
    work = [start]
    while work:
        b = work.pop()
        if b in seen or len(seen) > limit:
            continue
        seen.add(b)
        t = f.term(b)
        if t[0] == "call":
            c = callee(t)
            if c:
                full = c["fn"]
                hit = False
                for n in names:
                    if full.endswith(n):
                        out.add(n)
                        hit = True
                if not hit and crate is not None and depth > 0:
                    h = crate.fns.get(c.get("res") or full) or crate.fns.get(full)
                    if h is not None and h is not f and len(h.blocks) < 200:
                        out |= first_calls(h, 0, names, limit, crate, depth - 1)
        work.extend(f.succs(b))
    return out


def rule_auxbox(ctx):
    rid = "R-AUXBOX"
    ctx.rule(rid, "auxiliary-box delivery, structural part: AuxBoxList::handle_event routes every ParseEvent variant to its handler "
                  "(AuxBoxStart -> ensure_raw|ensure_brotli, AuxBoxData -> feed_data|Jbrd::feed_bytes, AuxBoxEnd -> finalize); "
                  "AuxBoxList::eof reaches finalize on every path (the parser emits AuxBoxEnd lazily, so the last sized box of a file is "
                  "only closed by eof); finalize pushes the finished box into the list; the image-level finalisers call eof")
    ox = ctx.prog.crate("jxl_oxide")
    he = ox.fn(AUX + "::handle_event")
    eof = ox.fn(AUX + "::eof")
    fin = ox.fn(AUX + "::finalize")
    pe = ctx.prog.crate("jxl_bitstream").adts.get("jxl_bitstream::container::parse::ParseEvent")
    if he is None or eof is None or fin is None or pe is None:
        ctx.anchor_missing(rid, "AuxBoxList::{handle_event,eof,finalize} / ParseEvent")
        return
    for f in (he, eof, fin):
        ctx.seen(f)
    variants = [v["name"] for v in pe["variants"]]
    defs = Defs(he)
    sw = None
    for b in range(len(he.blocks)):
        sub = switch_subject(he, defs, b)
        if sub and sub[0] == "discr" and he.local_ty(sub[1][0]).endswith("ParseEvent<'_>") or (sub and sub[0] == "discr" and "ParseEvent" in he.local_ty(sub[1][0])):
            sw = b
            break
    if sw is None:
        ctx.bad(rid, "handle_event|no-switch", "handle_event does not switch on the ParseEvent variant", fn=he)
    else:
        t = he.term(sw)
        listed = {int(v): x for v, x in t[2]}
        want = {
            "AuxBoxStart": ({"::ensure_raw", "::ensure_brotli"}, "any"),
            "AuxBoxData": ({"AuxBoxReader::feed_data", "Jbrd::feed_bytes"}, "all"),
            "AuxBoxEnd": ({"AuxBoxList::finalize"}, "all"),
        }
        for i, vn in enumerate(variants):
            if vn not in want:
                continue
            names, mode = want[vn]
            got = first_calls(he, listed.get(i, t[3]), names, crate=ox)
            ok = (got == names) if mode == "all" else bool(got)
            if ok:
                ctx.ok(rid, "handle_event|%s" % vn, "%s -> %s" % (vn, sorted(got)), nontrivial=True, fn=he)
            else:
                ctx.bad(rid, "handle_event|%s-not-handled" % vn, "ParseEvent::%s no longer reaches %s in AuxBoxList::handle_event (reaches %s): box payloads are "
                        "dropped or boxes never closed" % (vn, sorted(names), sorted(got)), fn=he, pos=he.term_pos(sw))
    # eof -> finalize on every path
    fb = {b for b, tt in eof.calls() if callee(tt) and callee(tt)["fn"] == AUX + "::finalize"}
    p = find_path_edges(eof, [0], lambda x: eof.term(x)[0] == "ret", avoid_block=lambda x: x in fb) if 0 not in fb else None
    if fb and p is None:
        ctx.ok(rid, "eof|finalizes", "every path through eof() calls finalize()", nontrivial=True, fn=eof)
    else:
        ctx.bad(rid, "eof|exit-without-finalize", "AuxBoxList::eof can return without finalize(): a sized auxiliary box that ends exactly at the end of "
                "the input (AuxBoxEnd is emitted lazily) is never delivered", fn=eof, path=p)
    # finalize stores the finished box without disturbing the boxes already stored
    from ..mirutil import local_uses, strip_generics
    fdefs = Defs(fin)
    store_field = None
    adt = ox.adts.get(AUX)
    appends, lossy, other = [], [], []
    uses = local_uses(fin)
    for b, tt in fin.calls():
        c = callee(tt)
        if not c or not tt[2]:
            continue
        a0 = op_local(tt[2][0])
        ap = access_path(fin, fdefs, a0) if a0 is not None else None
        if not (ap and ap[1] and 1 <= ap[0] <= fin.argc and len(ap[1]) == 1):
            continue
        fld = ap[1][0]
        m = strip_generics(c["fn"]).split("::")[-1]
        coll = strip_generics(c["fn"])
        if not any(x in coll for x in ("::vec::Vec", "VecDeque", "HashMap", "BTreeMap", "LinkedList", "SmallVec")):
            continue
        if m in ("push", "push_back", "extend", "extend_from_slice", "append"):
            appends.append((b, fld))
        elif m == "insert" and ("HashMap" in coll or "BTreeMap" in coll):
            ret = tt[3][0] if tt[3] else None
            (other if ret is not None and uses.get(ret, 0) > 0 else lossy).append((b, fld))
        elif m in ("clear", "truncate", "pop", "pop_back", "pop_front", "remove", "swap_remove", "retain", "drain", "insert", "push_front"):
            lossy.append((b, fld))
    inner = [b for b, tt in fin.calls() if callee(tt) and callee(tt)["fn"].endswith("AuxBoxReader::finalize")]
    jb = [b for b, tt in fin.calls() if callee(tt) and callee(tt)["fn"].endswith("Jbrd::finalize")]
    if lossy:
        ctx.bad(rid, "finalize|box-replaced", "AuxBoxList::finalize stores the finished box in `%s` with an operation that can replace or remove a box "
                "stored earlier (keyed insert with the previous value dropped, or a removal): a file with two boxes of one type delivers only "
                "one of them" % lossy[0][1], fn=fin, pos=fin.term_pos(lossy[0][0]))
    elif appends and inner and jb and all(any(p2 in fin.reachable(i) for p2, _ in appends) for i in inner):
        ctx.ok(rid, "finalize|delivers", "current_box.finalize() then the finished box is appended to `%s`; jbrd.finalize() for jbrd" % appends[0][1],
               nontrivial=True, fn=fin)
    else:
        ctx.bad(rid, "finalize|box-not-delivered", "AuxBoxList::finalize no longer finalises and appends the finished box (append %d, reader finalize %d, jbrd finalize %d)"
                % (len(appends), len(inner), len(jb)), fn=fin)
    # the accessors hand out the first box of a type: no reverse search over the stored boxes
    fo = ox.fn(AUX + "::first_of_type")
    if fo is None:
        ctx.anchor_missing(rid, AUX + "::first_of_type")
    else:
        ctx.seen(fo)
        fam = [g for g in ox.fn_list if g.path == fo.path or g.path.startswith(fo.path + "::{closure")]
        rev = []
        for g in fam:
            for b, tt in g.calls():
                c = callee(tt)
                nm = strip_generics(c.get("res") or c["fn"]) if c else ""
                last = nm.split("::")[-1]
                if last in ("rev", "rfind", "rposition", "next_back", "last", "nth_back", "rfold", "max_by_key", "min_by_key", "max_by", "min_by") \
                        and ("iter" in nm.lower() or "slice" in nm):
                    rev.append((g, b, last))
        if rev:
            g, b, last = rev[0]
            ctx.bad(rid, "first_of_type|not-first", "AuxBoxList::first_of_type searches the stored boxes with `%s`: with several boxes of one type "
                    "first_exif()/first_xml() no longer return the first one" % last, fn=g, pos=g.term_pos(b))
        else:
            ctx.ok(rid, "first_of_type|forward", "forward search over the stored boxes", fn=fo)
    # callers of eof
    callers = [f.path for f in ox.fn_list for _, tt in f.calls() if callee(tt) and callee(tt)["fn"] == AUX + "::eof"]
    if callers:
        ctx.ok(rid, "eof|called", "eof() is called by %s" % sorted(set(callers)), fn=eof)
    else:
        ctx.bad(rid, "eof|never-called", "nobody calls AuxBoxList::eof any more", fn=eof)


def rule_boxhdr_eval(ctx):
    """the box header parser, evaluated from MIR on crafted headers, implements the ISO BMFF size rules"""
    from .. import absint
    rid = "R-BOXHDR-EVAL"
    ctx.rule(rid, "ContainerBoxHeader::parse is evaluated from MIR on 26 byte strings and compared with ISO/IEC 14496-12 4.2 as used by "
                  "ISO/IEC 18181-2: fewer than 8 bytes (or 8..15 bytes of an extended header) -> need more data; 32-bit size 0 -> the "
                  "box runs to the end of the file; 1 -> a 64-bit size follows, which must be at least 16 (0 has no special meaning "
                  "there); 2..7 -> invalid; otherwise payload = size - 8 (resp. - 16) and the header length is 8 (resp. 16); the type "
                  "is bytes 4..8.  This decides what the size arithmetic does, however it is written (checked_sub with a constant, a "
                  "shared tail with a variable header size, explicit comparisons)")
    cr = ctx.prog.crate("jxl_bitstream")
    f = cr.fns.get("jxl_bitstream::container::box_header::ContainerBoxHeader::parse")
    hd = cr.adts.get("jxl_bitstream::container::box_header::ContainerBoxHeader")
    pr = cr.adts.get("jxl_bitstream::container::box_header::HeaderParseResult")
    if f is None or f.argc != 1 or hd is None or pr is None:
        ctx.anchor_missing(rid, "jxl_bitstream::container::box_header::ContainerBoxHeader::parse(&[u8])")
        return
    ctx.seen(f)
    hf = [x[0] for x in hd["variants"][0]["fields"]]
    done = next((v for v in pr["variants"] if v["name"] == "Done"), None)
    df = [x[0] for x in done["fields"]] if done else []
    if sorted(hf) != ["box_size", "is_last", "ty"] or sorted(df) != ["header", "header_size"]:
        ctx.anchor_missing(rid, "ContainerBoxHeader { ty, box_size, is_last } / HeaderParseResult::Done { header, header_size }")
        return

    def be(v, n):
        return [(v >> (8 * (n - 1 - i))) & 255 for i in range(n)]

    ty = [ord(c) for c in "jxlc"]
    cases = []
    for n in (0, 3, 7):
        cases.append((be(24, 4)[:n] + ty[:max(0, n - 4)], "need"))
    for sz in (0, 2, 5, 7, 8, 9, 24, 0x7fffffff, 0xffffffff):
        want = ("done", None, 8, 1) if sz == 0 else ("err",) if sz < 8 else ("done", sz - 8, 8, 0)
        cases.append((be(sz, 4) + ty + [9, 9, 9], want))
    for extra in (0, 4, 7):
        cases.append((be(1, 4) + ty + [0] * extra, "need"))
    for xl in (0, 1, 8, 15, 16, 17, 4096, 1 << 40, (1 << 64) - 1):
        want = ("err",) if xl < 16 else ("done", xl - 16, 16, 0)
        cases.append((be(1, 4) + ty + be(xl, 8) + [7], want))
    cases.append((be(1, 4) + [ord(c) for c in "Exif"] + be(0, 8), ("err",)))
    cases.append((be(0, 4) + [ord(c) for c in "brob"], ("done", None, 8, 1)))
    rows, bad, undec = 0, None, None
    for bs, want in cases:
        ev = absint.Evaluator(ctx.prog)
        try:
            r = ev.call_fn(f, [absint.BufView(list(bs))])
        except absint.Unsupported as e:
            undec = "%s: %s" % (bytes(bs).hex(), e)
            break
        rows += 1
        got = None
        if isinstance(r, absint.Enum) and r.name == "Err":
            got = ("err",)
        elif isinstance(r, absint.Enum) and r.name == "Ok" and isinstance(r.fields[0], absint.Enum):
            h = r.fields[0]
            if h.name == "NeedMoreData":
                got = "need"
            elif h.name == "Done":
                dd = dict(zip(df, h.fields))
                hdr = dict(zip(hf, dd["header"].fields)) if isinstance(dd["header"], absint.Struct) else {}
                bsz = hdr.get("box_size")
                size = (bsz.fields[0] if bsz.name == "Some" else None) if isinstance(bsz, absint.Enum) else "?"
                got = ("done", size, dd["header_size"], int(bool(hdr.get("is_last"))))
        w = want if want == "need" else tuple(want)
        if got != w and bad is None:
            bad = (bytes(bs[:16]).hex(), got, w)
    ctx.count(rid + ".rows", rows)
    if undec:
        ctx.bad(rid, "parse|not-evaluable", "ContainerBoxHeader::parse is no longer a function the evaluator can decide (%s)" % undec, fn=f)
        return
    ctx.floor(rid + ".rows", 26)
    if bad:
        ctx.bad(rid, "parse|size-rules", "header bytes %s: parse gives %s, the box format says %s (need = more data; err = invalid box; "
                "done = payload size or None for `to end of file`, header length, is_last)" % bad, fn=f)
    else:
        ctx.ok(rid, "parse|size-rules", "%d headers parsed as the box format prescribes" % rows, nontrivial=True, fn=f)


def rule_nomoreaux(ctx, bs):
    """NoMoreAuxBox is armed exactly when the codestream box runs to the end of the file"""
    from ..facts import op_const, op_local, op_place
    from ..intervals import value_class
    from ..mirutil import Defs
    rid = "R-NOMOREAUX"
    ctx.rule(rid, "the container parser promises `NoMoreAuxBox` when no auxiliary box can follow: a bare or invalid stream, or a codestream "
                  "box that runs to the end of the file (box size 0 -> bytes_left None).  Every construction of "
                  "DetectState::InCodestream { bytes_left, pending_no_more_aux_box } must arm the event exactly then: the flag is "
                  "`false`; or the constant `true` next to a constant `None`; or `Option::is_none` of the very value stored as "
                  "bytes_left (or of the box size it was mapped from).  A flag taken from anything else - the jxlp `last` bit says "
                  "nothing about boxes that follow - announces the end of metadata while Exif / XML boxes are still to come (seed C10n)")
    adt = bs.adts.get("jxl_bitstream::container::DetectState")
    var = next((v for v in (adt or {}).get("variants", []) if v["name"] == "InCodestream"), None)
    names = [x[0] for x in var["fields"]] if var else []
    if "bytes_left" not in names or "pending_no_more_aux_box" not in names:
        ctx.anchor_missing(rid, "DetectState::InCodestream { bytes_left, pending_no_more_aux_box }")
        return
    ib, ip = names.index("bytes_left"), names.index("pending_no_more_aux_box")
    n = 0
    for f in bs.fn_list:
        if f.kind == "Promoted":
            continue
        defs = None
        for b, blk in enumerate(f.blocks):
            if blk[2]:
                continue
            for st in blk[0]:
                if not (st[0] == "=" and st[2][0] == "agg" and st[2][1][0] == "adt" and st[2][1][1] == "jxl_bitstream::container::DetectState"
                        and st[2][1][2] == "InCodestream"):
                    continue
                if defs is None:
                    defs = Defs(f)
                    ctx.seen(f)
                n += 1
                ops = st[2][2]
                ob, opn = ops[ib], ops[ip]
                key = "%s|site#%d" % (f.path.split("::")[-1], n)

                def is_none_const(o):
                    l = op_local(o)
                    d = defs.single(l) if l is not None else None
                    if d and d[2] == "assign" and d[3][2][0] == "agg" and d[3][2][1][0] == "adt" and d[3][2][1][1] == "core::option::Option":
                        return d[3][2][1][2] == "None"
                    c = op_const(o)
                    return bool(c) and "None" in str(c.get("s", ""))
                c = op_const(opn)
                verdict = None
                if c is not None and str(c.get("v")) == "0":
                    verdict = "never armed here"
                elif c is not None and str(c.get("v")) == "1":
                    verdict = "armed with bytes_left = None" if is_none_const(ob) else None
                else:
                    lp, lb = op_local(opn), op_local(ob)
                    d = defs.single(lp) if lp is not None else None
                    if d and d[2] == "call" and callee(d[3]) and callee(d[3])["fn"].startswith("core::option::Option::<T>::is_none") and lb is not None:
                        a = op_local(d[3][2][0]) if d[3][2] else None
                        da = defs.single(a) if a is not None else None
                        src = da[3][2][2][0] if da and da[2] == "assign" and da[3][2][0] == "ref" and len(da[3][2][2]) == 1 else a
                        cls = set(value_class(f, lb))
                        # the box size that bytes_left was mapped from
                        for x in list(cls):
                            dx = defs.single(x)
                            if dx and dx[2] == "call" and callee(dx[3]) and callee(dx[3])["fn"].startswith("core::option::Option::<T>::map") and dx[3][2]:
                                y = op_local(dx[3][2][0])
                                if y is not None:
                                    cls |= set(value_class(f, y))
                        if src in cls:
                            verdict = "armed iff bytes_left is None"
                if verdict:
                    ctx.ok(rid, key, verdict, nontrivial=True, fn=f)
                else:
                    ctx.bad(rid, "%s|armed-by-something-else" % f.path.split("::")[-1], "a DetectState::InCodestream is built whose pending_no_more_aux_box is "
                            "not `false`, not `true` beside `bytes_left: None`, and not `is_none()` of the stored bytes_left: NoMoreAuxBox "
                            "can be announced before a box that follows a sized codestream box, or never for one that runs to the end",
                            fn=f, pos=st[3] if len(st) > 3 else None)
    ctx.count(rid + ".sites", n)
    ctx.floor(rid + ".sites", 1)         # 4 today; helpers may merge them (benign G06)


def main(pid, tier, repo=None):
    ctx = Ctx(pid, tier, configs=("workspace",), repo=repo)
    bs = ctx.prog.crate("jxl_bitstream")
    rule_jxlp(ctx, bs)
    rule_boxsize(ctx, bs)
    rule_boxhdr_eval(ctx)
    rule_boxhdr(ctx, bs)
    rule_consumed(ctx, bs)
    rule_retry(ctx, bs)
    rule_auxbox(ctx)
    rule_nomoreaux(ctx, bs)
    from . import c09
    c09.rule_refeed(ctx)
    from . import fixguards
    fixguards.run(ctx, pid)
    specconst.run(ctx, pid)
    ctx.not_decided("byte-exact reassembly and payload delivery (value-level); Brotli decompression")
    return ctx.finish(
        "The rejection clause and the size arithmetic of the container parser, decided on MIR for all layouts and chunkings: the "
        "jxlc/jxlp typestate transition table is extracted (variant -> first effects) and compared with the reference of the "
        "container format; undersized jxlp/brob boxes and reserved compressed types are rejected before the unchecked subtractions; "
        "the header parser is prefix-closed for the 64-bit size marker; the consumed-byte counter is updated on every exit of next().")

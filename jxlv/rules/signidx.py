"""R-SIGNIDX: a signed value turned into an index with `as usize` is known to be non-negative.
A negative i32/isize cast to usize becomes an index near 2^64: a bounds panic (C01).  Every such site must have a recognised
non-negativity guard: produced by clamp(0, ..) / max(0) / abs / rem_euclid, dominated by a range-contains test or a comparison with 0 on
the right edge, or - for the reviewed interprocedural cases - the caller-side predicate named in the table."""
from ..engine import LIB_CRATES
from ..facts import callee, op_local, op_place, op_const_int, pos_line
from ..mirutil import Defs, strip_generics
from ..intervals import value_class
from .. import constval

SIGNED = {"i8", "i16", "i32", "i64", "isize"}

# guard holders: a function that takes a fast path only when a predicate with a lower-bound test holds; every function reachable only
# through that guarded call is covered (holder path suffix -> what the predicate must establish)
GUARD_HOLDERS = {
    "jxl_modular::transform::palette::<impl jxl_modular::transform::Palette>::inverse_inner":
        "every palette index is tested against both bounds [0, nb_colours) before the fast path is taken",
}
# sites whose offsets come from constant kernel tables: (function suffix, constant paths, max |component|)
CONST_KERNEL = {
    "jxl_render::filter::impls::generic::epf::epf_row": (["jxl_render::filter::epf::epf_kernel_offsets::EPF_KERNEL_1",
                                                           "jxl_render::filter::epf::epf_kernel_offsets::EPF_KERNEL_2"], 3),
}
NONNEG_PRODUCERS = ("::clamp", "::max", "::abs", "::unsigned_abs", "::rem_euclid", "::abs_diff", "::mirror")


def signed_index_sites(f):
    """[(block, signed source local, position)] for bounds-checked indexings whose index is an `as usize` of a signed value"""
    out = []
    defs = None
    for b, blk in enumerate(f.blocks):
        t = blk[1]
        if blk[2] or t[0] != "assert" or t[3] != "bounds":
            continue
        cl = op_local(t[1])
        idx = None
        for st in blk[0]:
            if st[0] == "=" and st[1] == [cl] and st[2][0] == "bin" and st[2][1] == "Lt":
                idx = op_local(st[2][2])
        if idx is None:
            continue
        if defs is None:
            defs = Defs(f)
        l, seen = idx, set()
        while l is not None and l not in seen:
            seen.add(l)
            d = defs.single(l)
            if not d or d[2] != "assign":
                break
            rv = d[3][2]
            if rv[0] == "use":
                p = op_place(rv[1])
                l = p[0] if p is not None and len(p) == 1 else None
                continue
            if rv[0] == "cast" and rv[1] == "IntToInt":
                p = op_place(rv[2])
                if p is not None and len(p) == 1 and f.local_ty(p[0]) in SIGNED:
                    out.append((b, p[0], t[-2], defs))
            break
    return out


def locally_nonneg(f, defs, src, bb):
    cls = value_class(f, src)
    # produced by a call that cannot return a negative value (given a non-negative lower argument)
    for l in cls:
        d = defs.single(l)
        if d and d[2] == "call":
            c = callee(d[3])
            nm = strip_generics(c["fn"]) if c else ""
            if nm.endswith(NONNEG_PRODUCERS):
                if nm.endswith(("::clamp", "::max")):
                    lows = [op_const_int(a) for a in d[3][2][1:2]]
                    if lows and lows[0] is not None and lows[0] >= 0:
                        return "produced by %s(%d, ..)" % (nm.split("::")[-1], lows[0])
                    continue
                return "produced by %s" % nm.split("::")[-1]
        if d and d[2] == "assign" and d[3][2][0] == "bin" and d[3][2][1] in ("BitAnd", "Rem", "Shr") and op_const_int(d[3][2][3]) is not None \
                and op_const_int(d[3][2][3]) >= 0 and d[3][2][1] == "BitAnd":
            return "masked with a non-negative constant"
    # dominated by a range-contains test or a comparison with zero
    for b, blk in enumerate(f.blocks):
        if blk[2] or not f.dominates(b, bb) or b == bb:
            continue
        t = blk[1]
        if t[0] == "call":
            c = callee(t)
            if c and strip_generics(c["fn"]).endswith("::contains") and len(t[2]) == 2:
                tgt = op_local(t[2][1])
                for _ in range(4):      # &x, &*&x ... : follow the borrow chain to the value tested
                    d = defs.single(tgt) if tgt is not None else None
                    if d and d[2] == "assign" and d[3][2][0] == "ref":
                        tgt = d[3][2][2][0]
                    else:
                        break
                if tgt in cls:
                    return "dominated by a range contains() test"
        for st in blk[0]:
            if st[0] == "=" and st[2][0] == "bin" and st[2][1] in ("Lt", "Ge", "Le", "Gt"):
                a, c_ = op_local(st[2][2]), op_local(st[2][3])
                ka, kc = op_const_int(st[2][2]), op_const_int(st[2][3])
                if (a in cls and kc is not None and kc <= 0) or (c_ in cls and ka is not None and ka <= 0):
                    return "dominated by a comparison with %d" % (kc if kc is not None else ka)
    return None


def closures_reaching(prog, f, local, depth=0, seen=None):
    """closure bodies involved in computing `local` (iterator adaptors fed with closures, nested)"""
    seen = seen if seen is not None else set()
    out = []
    defs = Defs(f)
    work = [local]
    vis = set()
    while work:
        l = work.pop()
        if l in vis or l is None:
            continue
        vis.add(l)
        for d in defs.of(l):
            if d[2] == "assign":
                rv = d[3][2]
                if rv[0] == "agg" and rv[1][0] == "closure":
                    g = prog.fn(rv[1][1])
                    if g is not None and g.path not in seen:
                        seen.add(g.path)
                        out.append(g)
                        # closures created inside that closure
                        for blk in g.blocks:
                            for st in blk[0]:
                                if st[0] == "=" and st[2][0] == "agg" and st[2][1][0] == "closure":
                                    h = prog.fn(st[2][1][1])
                                    if h is not None and h.path not in seen:
                                        seen.add(h.path)
                                        out.append(h)
                    for o in rv[2]:
                        work.append(op_local(o))
                elif rv[0] in ("use", "cast"):
                    p = op_place(rv[1] if rv[0] == "use" else rv[2])
                    work.append(p[0] if p is not None else None)
                elif rv[0] == "ref":
                    work.append(rv[2][0])
            elif d[2] == "call":
                for a in d[3][2]:
                    work.append(op_local(a))
                c = callee(d[3])
                g = prog.fn(c.get("res") or c["fn"]) if c else None
                if g is not None and g.path not in seen and g.path.split("::")[0].lstrip("<&") == f.path.split("::")[0].lstrip("<&"):
                    seen.add(g.path)
                    out.append(g)
                    nested_closures(prog, g, seen, out)
    return out


def nested_closures(prog, g, seen, out, depth=0):
    if depth > 4:
        return
    for blk in g.blocks:
        for st in blk[0]:
            if st[0] == "=" and st[2][0] == "agg" and st[2][1][0] == "closure":
                h = prog.fn(st[2][1][1])
                if h is not None and h.path not in seen:
                    seen.add(h.path)
                    out.append(h)
                    nested_closures(prog, h, seen, out, depth + 1)


def guarded_subtrees(prog, crates):
    """{function path: (holder fn, reason)} for functions reachable only through a call that a guard holder makes under a predicate
    containing a lower-bound test"""
    fns = list(prog.all_fns(crates))
    callers = {}
    for g in fns:
        for _, t in g.calls():
            c = callee(t)
            if c:
                for nm in {c["fn"], c.get("res", c["fn"])}:
                    callers.setdefault(nm, set()).add(g.path)
    covered = {}
    missing = []
    for suf, why in GUARD_HOLDERS.items():
        holder = next((g for g in fns if g.path.endswith(suf)), None)
        if holder is None:
            missing.append(suf)
            continue
        roots = set()
        for cb, ct in holder.calls():
            c = callee(ct)
            tgt = prog.fn(c.get("res") or c["fn"]) if c else None
            if tgt is None or tgt.path == holder.path:
                continue
            for sb in range(len(holder.blocks)):
                st_ = holder.term(sb)
                if st_[0] != "switch" or not holder.dominates(sb, cb) or sb == cb:
                    continue
                # the call must be on one side only of the switch (control-dependent), not merely after it
                if all(cb in holder.reachable(x) for x in holder.succs(sb)):
                    continue
                cls = closures_reaching(prog, holder, op_local(st_[1]))
                if cls and any(has_lower_bound_test(g) for g in cls):
                    roots.add(tgt.path)
        cov = set(roots)
        changed = True
        while changed:
            changed = False
            for g in fns:
                if g.path in cov or g.path == holder.path:
                    continue
                cs = callers.get(g.path, set()) - {g.path}
                if cs and cs <= cov:
                    cov.add(g.path)
                    changed = True
        for x in cov:
            covered[x] = (holder, why)
    return covered, missing


def has_lower_bound_test(g):
    for blk in g.blocks:
        if blk[2]:
            continue
        t = blk[1]
        if t[0] == "call":
            c = callee(t)
            if c and strip_generics(c["fn"]).endswith("::contains"):
                return True
        for st in blk[0]:
            if st[0] == "=" and st[2][0] == "bin" and st[2][1] in ("Lt", "Ge", "Le", "Gt"):
                if op_const_int(st[2][2]) == 0 or op_const_int(st[2][3]) == 0:
                    return True
    return False


def run(ctx, crates=None):
    rid = "R-SIGNIDX"
    ctx.rule(rid, "every slice/array index that is an `as usize` cast of a signed integer is known non-negative: the value is produced by "
                  "clamp(0,..)/max(0)/abs/rem_euclid/mirror, or the indexing is dominated by a range contains() test or a comparison with "
                  "zero; for the reviewed interprocedural cases the caller-side predicate must test the lower bound (palette fast path), "
                  "and offsets taken from constant kernel tables must stay within the reviewed magnitude")
    prog = ctx.prog
    n = 0
    covered, missing = guarded_subtrees(prog, crates or LIB_CRATES)
    for m in missing:
        ctx.anchor_missing(rid, m)
    for suf, why in GUARD_HOLDERS.items():
        if suf in missing:
            continue
        if any(h.path.endswith(suf) for h, _ in covered.values()):
            ctx.ok(rid, "guard-holder:%s" % suf.split("::")[-1], "fast-path call is control-dependent on a predicate with a lower-bound test; covers %d function(s)"
                   % sum(1 for h, _ in covered.values() if h.path.endswith(suf)), nontrivial=True)
        else:
            ctx.bad(rid, "site:%s|caller-guard-missing" % suf, "%s takes its unchecked-index fast path without a predicate that tests the lower bound "
                    "(%s): a negative palette index panics with an out-of-bounds index" % (suf.split("::")[-1], why))
    for f in prog.all_fns(crates or LIB_CRATES):
        sites = signed_index_sites(f)
        if not sites:
            continue
        ctx.seen(f)
        done = set()
        for b, src, pos, defs in sites:
            n += 1
            nm = f.local_name(src) or "_%d" % src
            why = locally_nonneg(f, defs, src, b)
            key = "site:%s" % f.path
            if why:
                if key not in done:
                    ctx.ok(rid, key, why, nontrivial=True, fn=f)
                    done.add(key)
                continue
            ker = next((v for k, v in CONST_KERNEL.items() if f.path.endswith(k)), None)
            cov = covered.get(f.path)
            if cov is None and "{closure" in f.path:
                cov = covered.get(f.path.split("::{closure")[0])
            if cov is not None:
                if key + "|caller" not in done:
                    done.add(key + "|caller")
                    ctx.ok(rid, key + "|caller-guard", "reachable only through the fast-path call guarded in %s: %s" % (cov[0].path.split("::")[-1], cov[1]),
                           nontrivial=True, fn=f)
                continue
            if ker is not None:
                bad_k = None
                for cp in ker[0]:
                    cn = cp.split("::")[0]
                    k = prog.crates[cn].consts.get(cp) if cn in prog.crates else None
                    if k is None:
                        bad_k = "constant %s not found" % cp
                        break
                    vals = [x for x in constval.flat(constval.parse(k["value"])) if isinstance(x, int)]
                    if not vals or max(abs(x) for x in vals) > ker[1]:
                        bad_k = "%s has an offset of magnitude > %d" % (cp.split("::")[-1], ker[1])
                        break
                if key + "|kernel" not in done:
                    done.add(key + "|kernel")
                    if bad_k is None:
                        ctx.ok(rid, key + "|kernel-offsets", "offsets come from constant kernels with |component| <= %d, added to a base of 3" % ker[1], fn=f)
                    else:
                        ctx.bad(rid, key + "|kernel-offsets", bad_k, fn=f, pos=pos)
                continue
            ctx.bad(rid, "%s|unguarded:%s" % (key, nm), "`%s as usize` (a signed %s) is used as an index at line %d with nothing establishing that "
                    "it is non-negative: a negative value becomes an index near 2^64 and panics" % (nm, f.local_ty(src), pos_line(pos)), fn=f, pos=pos)
    ctx.counts[rid + ".sites"] = n
    ctx.floor(rid + ".sites", 8)

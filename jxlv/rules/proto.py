"""Rules about the frame-render handle protocol (shared by C08 and C20).

State lives in FrameRenderHandle.render: Mutex<FrameRender<S>>; `Rendering` is the in-progress mark.
"""
from ..facts import callee, op_place, op_local, op_const_int, place_str, pos_line
from ..mirutil import (Defs, access_path, alias_closure, find_path_edges, succ_edges, switch_subject,
                       ret_blocks, const_explore, strip_generics)

FR = "jxl_render::state::FrameRender"
HANDLE = "jxl_render::state::FrameRenderHandle"
RENDER_CRATES = ["jxl_render", "jxl_oxide"]

REPLACE_FNS = ("core::mem::replace", "core::mem::swap", "core::mem::take")

# variants of FrameRender by declaration index are read from the ADT facts at run time
TERMINAL_OR_RESUMABLE = {"None", "InProgress", "Done", "Blended", "Err", "ErrTaken"}

EXPECTED_WRITERS = {
    # function -> why a store through the guard is part of the protocol
    HANDLE + "::<S>::reset": "replaces the state by None; the owner of a Rendering mark still publishes through done_render",
    HANDLE + "::<S>::start_render": "acquire wrapper (test-and-set)",
    HANDLE + "::<S>::start_render_silent": "acquire wrapper (test-and-set)",
    HANDLE + "::<S>::wait_until_render": "takes the state to inspect it, restores it or leaves None",
    HANDLE + "::<S>::done_render": "release: publishes the final state and notifies",
    "jxl_render::image::RenderedImage::<S>::blend": "takes Done, publishes Blended; marks Rendering while compositing",
    "jxl_render::image::RenderedImage::<S>::try_take_blended": "takes Blended if unshared, else restores",
}
EXPECTED_LOCKERS = {
    HANDLE + "::<S>::reset", HANDLE + "::<S>::start_render", HANDLE + "::<S>::start_render_silent",
    HANDLE + "::<S>::wait_until_render", HANDLE + "::<S>::done_render",
    "jxl_render::image::RenderedImage::<S>::try_take_blended",
}
WRAPPERS = [HANDLE + "::<S>::start_render", HANDLE + "::<S>::start_render_silent"]
DONE = HANDLE + "::<S>::done_render"
WAIT = HANDLE + "::<S>::wait_until_render"


def is_guard_ty(ty):
    return "MutexGuard<" in ty and (FR + "<") in ty and not ty.startswith("core::result::Result") \
        and not ty.startswith("&") and not ty.startswith("core::option::Option")


def contains_guard_ty(ty):
    return "MutexGuard<" in ty and (FR + "<") in ty


def fr_variants(prog):
    adt = prog.crate("jxl_render").adts.get(FR)
    if adt is None:
        return None
    return [v["name"] for v in adt["variants"]]


class FnInfo:
    """per-function protocol facts"""

    def __init__(self, fn):
        self.fn = fn
        self.defs = Defs(fn)
        self.stores = []   # dicts: bb, idx ('term' for calls), kind, guard_root, value_variant, value_local, pos, result
        self._scan()

    def guard_root(self, l):
        ap = access_path(self.fn, self.defs, l, stop=lambda x: is_guard_ty(self.fn.local_ty(x)))
        if ap is None:
            return None
        root, fields = ap
        if fields:
            return None
        if is_guard_ty(self.fn.local_ty(root)):
            return root
        return None

    def value_variant(self, o, depth=0):
        """(variant name | None, source local) of an operand of type FrameRender"""
        if depth > 20:
            return None
        l = op_local(o)
        if l is None:
            return None
        d = self.defs.single(l)
        if d is None or d[2] != "assign":
            return None
        rv = d[3][2]
        if rv[0] == "agg" and rv[1][0] == "adt" and rv[1][1] == FR:
            return rv[1][2]
        if rv[0] == "use":
            return self.value_variant(rv[1], depth + 1)
        return None

    def _scan(self):
        fn = self.fn
        for b, blk in enumerate(fn.blocks):
            if fn.is_cleanup(b):
                continue
            for i, st in enumerate(blk[0]):
                if st[0] == "=" and len(st[1]) == 2 and st[1][1] == "*":
                    g = self.guard_root(st[1][0])
                    if g is None:
                        continue
                    rv = st[2]
                    var = None
                    vloc = None
                    if rv[0] == "use":
                        var = self.value_variant(rv[1])
                        vloc = op_local(rv[1])
                    elif rv[0] == "agg" and rv[1][0] == "adt" and rv[1][1] == FR:
                        var = rv[1][2]
                    self.stores.append(dict(bb=b, idx=i, kind="store", guard=g, variant=var, vloc=vloc,
                                            pos=st[3], result=None))
            t = blk[1]
            if t[0] == "call":
                c = callee(t)
                if c and c["fn"] in REPLACE_FNS and t[2]:
                    l = op_local(t[2][0])
                    g = self.guard_root(l) if l is not None else None
                    if g is None:
                        continue
                    if c["fn"] == "core::mem::take":
                        var = "None"  # #[default]
                        vloc = None
                    else:
                        var = self.value_variant(t[2][1])
                        vloc = op_local(t[2][1])
                    self.stores.append(dict(bb=b, idx="term", kind=c["fn"].split("::")[-1], guard=g, variant=var,
                                            vloc=vloc, pos=t[-2],
                                            result=t[3][0] if c["fn"] != "core::mem::swap" else None))

    def marks(self):
        return [s for s in self.stores if s["variant"] == "Rendering"]


def handle_fns(prog):
    for f in prog.all_fns(RENDER_CRATES):
        yield f


def scan_all(ctx):
    infos = {}
    for f in handle_fns(ctx.prog):
        # cheap pre-filter: a function that never mentions the guard type cannot store through it
        if not any(contains_guard_ty(l[0]) for l in f.locals):
            continue
        infos[f.path] = FnInfo(f)
    return infos


# ---------------------------------------------------------------------------------------
def rule_writers(ctx, infos):
    rid = "R-PROTO-WRITERS"
    ctx.rule(rid, "the functions that store through a MutexGuard<FrameRender> / lock the handle mutex are exactly the "
                  "reviewed set; a new writer needs its own protocol argument")
    writers = {p for p, i in infos.items() if i.stores}
    for p in sorted(writers):
        if p in EXPECTED_WRITERS:
            ctx.ok(rid, "writer:" + p, EXPECTED_WRITERS[p], fn=infos[p].fn)
        else:
            i = infos[p]
            ctx.bad(rid, "new-writer:" + p, "function stores into the frame-render state but is not a reviewed protocol "
                    "function (%d stores)" % len(i.stores), fn=i.fn, pos=i.stores[0]["pos"])
    for p in sorted(EXPECTED_WRITERS):
        if p not in writers:
            if ctx.prog.fn(p) is None:
                ctx.anchor_missing(rid, p)
            else:
                ctx.bad(rid, "writer-gone:" + p, "reviewed protocol function no longer stores into the state: "
                        "the protocol table must be re-confirmed", fn=ctx.prog.fn(p))
    lockers = set()
    for f in handle_fns(ctx.prog):
        for b, t in f.calls():
            c = callee(t)
            if c and c["fn"] == "std::sync::poison::mutex::Mutex::<T>::lock" and c["args"] and c["args"][0].startswith(FR + "<"):
                lockers.add(f.path)
                ctx.seen(f)
    for p in sorted(lockers):
        if p in EXPECTED_LOCKERS:
            ctx.ok(rid, "locker:" + p, "locks its own handle only", fn=ctx.prog.fn(p))
        else:
            ctx.bad(rid, "new-locker:" + p, "function locks a frame-render handle mutex but is not a reviewed protocol function",
                    fn=ctx.prog.fn(p))
    for p in sorted(EXPECTED_LOCKERS - lockers):
        ctx.bad(rid, "locker-gone:" + p, "reviewed locker no longer locks the handle", fn=ctx.prog.fn(p))
    # try_lock / get_mut / into_inner on the handle mutex would bypass the protocol
    for f in handle_fns(ctx.prog):
        for b, t in f.calls():
            c = callee(t)
            if c and c["fn"].startswith("std::sync::poison::mutex::Mutex::<T>::") and c["args"] and c["args"][0].startswith(FR + "<"):
                m = c["fn"].split("::")[-1]
                if m not in ("lock", "new"):
                    ctx.bad(rid, "mutex-%s:%s" % (m, f.path), "Mutex<FrameRender>::%s used: outside the reviewed protocol" % m,
                            fn=f, pos=t[-2])


# ---------------------------------------------------------------------------------------
PUBLISHERS = {}    # id(prog) -> set of function paths that call done_render(self, ..) on every path to return


def publishers(prog):
    """functions (first parameter `self`) every normal path of which publishes through done_render on `self` or on a handle reached
    from `self`, directly or through another such function: a private helper that always publishes is as good as done_render for its
    callers"""
    key = id(prog)
    if key in PUBLISHERS:
        return PUBLISHERS[key]
    pub = {DONE}
    fns = [f for f in handle_fns(prog) if f.path != DONE and f.argc >= 1]
    for _ in range(4):
        grew = False
        for f in fns:
            if f.path in pub:
                continue
            defs = Defs(f)
            blocks = set()
            for b, t in f.calls():
                c = callee(t)
                if c and (c["fn"] in pub or c.get("res") in pub) and t[2]:
                    ap = access_path(f, defs, op_local(t[2][0])) if op_local(t[2][0]) is not None else None
                    if ap is not None and ap[0] == 1:      # `self`, or a handle owned by `self` (self.image.done_render(..))
                        blocks.add(b)
            if not blocks:
                continue
            rets = [b for b in range(len(f.blocks)) if f.term(b)[0] == "ret" and not f.is_cleanup(b)]
            if not rets:
                continue
            if find_path_edges(f, [0], lambda x: f.term(x)[0] == "ret", avoid_block=lambda x: x in blocks) is None and 0 not in blocks:
                pub.add(f.path)
                grew = True
        if not grew:
            break
    PUBLISHERS[key] = pub
    return pub


def done_blocks(fn, prog=None):
    out = set()
    pub = publishers(prog) if prog is not None else {DONE}
    for b, t in fn.calls():
        c = callee(t)
        if c and (c["fn"] in pub or c.get("res") in pub):
            out.add(b)
    return out


def rule_done_render(ctx, infos):
    """done_render stores its argument (never Rendering) and notifies while the guard is held"""
    rid = "R-PROTO-NOTIFY"
    ctx.rule(rid, "in done_render every path from the store of the new state to return passes Condvar::notify_all while the "
                  "guard is live; the stored value is the argument, and the store is unreachable when the argument is Rendering")
    info = infos.get(DONE)
    if info is None:
        ctx.anchor_missing(rid, DONE)
        return
    fn = info.fn
    variants = fr_variants(ctx.prog)
    if len(info.stores) != 1 or info.stores[0]["kind"] != "store":
        ctx.bad(rid, "done_render-shape", "done_render must contain exactly one plain store into the guard (found %d)" % len(info.stores), fn=fn)
        return
    st = info.stores[0]
    # the stored value is the argument `render` (local 2)
    src = st["vloc"]
    ok_arg = False
    seen = set()
    while src is not None and src not in seen:
        seen.add(src)
        if src == 2:
            ok_arg = True
            break
        d = info.defs.single(src)
        if d and d[2] == "assign" and d[3][2][0] == "use":
            src = op_local(d[3][2][1])
        else:
            src = None
    if ok_arg:
        ctx.ok(rid, "done_render-stores-argument", "*guard = move render", fn=fn)
    else:
        ctx.bad(rid, "done_render-stores-argument", "the value stored by done_render is not its argument", fn=fn, pos=st["pos"])
    # notify_all on every path store -> ret, before the guard is moved to the return place
    notify = set()
    for b, t in fn.calls():
        c = callee(t)
        if c and c["fn"] in ("std::sync::poison::condvar::Condvar::notify_all",):
            notify.add(b)
    if st["bb"] in notify:
        path = None
    else:
        path = find_path_edges(fn, [st["bb"]], lambda b: fn.term(b)[0] == "ret", avoid_block=lambda b: b in notify)
    if path is None and notify:
        ctx.ok(rid, "done_render-notify", "Condvar::notify_all post-dominates the store (normal edges)", nontrivial=True, fn=fn)
    else:
        ctx.bad(rid, "done_render-notify", "a path from the state store to return does not call Condvar::notify_all: waiters are never woken",
                fn=fn, pos=st["pos"], path=path)
    # guard still held at notify: no drop of the guard local between store and notify, and the guard is returned
    g = st["guard"]
    dropped = [b for b in range(len(fn.blocks)) if not fn.is_cleanup(b) and fn.term(b)[0] == "drop" and fn.term(b)[1] == [g]]
    early = [b for b in dropped if any(fn.reachable(b) & notify)]
    if early:
        ctx.bad(rid, "done_render-guard-held", "the guard is dropped before notify_all", fn=fn, pos=fn.term_pos(early[0]))
    else:
        ctx.ok(rid, "done_render-guard-held", "guard local is not dropped before notify_all", fn=fn)
    # unreachable when argument is Rendering (the assert)
    if variants is None or "Rendering" not in variants:
        ctx.anchor_missing(rid, FR + "::Rendering")
        return
    ridx = variants.index("Rendering")
    reached = []

    def on_block(bb, env):
        if bb == st["bb"]:
            reached.append(bb)
            return False
        return True

    def assume(place):
        if place == [2]:
            return ridx
        return None
    const_explore(fn, 0, {}, on_block, assume_discr=assume)
    if reached:
        ctx.bad("R-RENDERING", "done_render-accepts-Rendering", "done_render can store Rendering (the guarding assertion is gone): "
                "a waiter would block with nobody rendering", fn=fn, pos=st["pos"])
    else:
        ctx.ok("R-RENDERING", "done_render-rejects-Rendering", "with discriminant(render)==Rendering the store is unreachable "
               "(constant propagation through the matches!/assert! flags)", nontrivial=True, fn=fn)


def _token_edges(fn, defs, token):
    """edges that prove 'the acquire result carries no taken state': switch on discriminant of a token-carrying local
    along the None (Option: 0) or Err/Break (Result/ControlFlow: 1) value."""
    out = set()
    for b in range(len(fn.blocks)):
        sub = switch_subject(fn, defs, b)
        if not sub or sub[0] != "discr":
            continue
        pl = sub[1]
        if pl[0] not in token or len(pl) != 1:
            continue
        ty = fn.local_ty(pl[0])
        t = fn.term(b)
        vals = {v: x for v, x in t[2]}
        if ty.startswith("core::option::Option<"):
            # edges: explicit '0' is None; if only '1' listed then otherwise==None
            if "0" in vals:
                out.add((b, vals["0"], "0"))
            elif set(vals) == {"1"}:
                out.add((b, t[3], "otherwise"))
        elif ty.startswith("core::result::Result<") or ty.startswith("core::ops::control_flow::ControlFlow<"):
            if "1" in vals:
                out.add((b, vals["1"], "1"))
            elif set(vals) == {"0"}:
                out.add((b, t[3], "otherwise"))
    return out


def rule_rendering(ctx, infos):
    rid = "R-RENDERING"
    ctx.rule(rid, "typestate: every path (normal edges) from a store of FrameRender::Rendering, or from the Some-edge of an "
                  "acquire wrapper call, to a return passes through done_render on the same handle or an overwriting store "
                  "under the same guard")
    variants = fr_variants(ctx.prog)
    if not variants or "Rendering" not in variants:
        ctx.anchor_missing(rid, FR + "::Rendering")
        return
    ridx = str(variants.index("Rendering"))
    ok_acquire = {str(variants.index(v)) for v in ("None", "InProgress") if v in variants}

    nmarks = 0
    for p, info in sorted(infos.items()):
        fn = info.fn
        for m in info.marks():
            nmarks += 1
            ctx.count("R-RENDERING.marks")
            if p in WRAPPERS:
                check_wrapper(ctx, info, m, ridx, ok_acquire)
                continue
            # direct mark: must-pass-through done_render or an overwriting store under the same guard
            dn = done_blocks(fn, ctx.prog)
            over = {s["bb"] for s in info.stores
                    if s is not m and s["guard"] == m["guard"] and s["variant"] is not None and s["variant"] != "Rendering"
                    and not (s["bb"] == m["bb"])}
            stop = dn | over
            path = find_path_edges(fn, [m["bb"]], lambda b: fn.term(b)[0] == "ret", avoid_block=lambda b: b in stop)
            key = "mark:%s" % p
            if path is None:
                ctx.ok(rid, key, "mark at L%d: all %d return paths pass done_render/overwrite (blocks %s)"
                       % (pos_line(m["pos"]), len(ret_blocks(fn)), sorted(stop)), nontrivial=True, fn=fn)
            else:
                ctx.bad(rid, key + "|exit-without-done_render",
                        "a path from the Rendering mark (line %d) reaches return without done_render: the handle stays "
                        "Rendering and every later caller waits forever" % pos_line(m["pos"]),
                        fn=fn, pos=m["pos"], path=path)
    # wrapper call sites
    for f in handle_fns(ctx.prog):
        for b, t in f.calls():
            c = callee(t)
            if not c or c["fn"] not in WRAPPERS:
                continue
            ctx.count("R-RENDERING.wrapper-calls")
            defs = Defs(f)
            token = alias_closure(f, {t[3][0]})
            no_tok = _token_edges(f, defs, token)
            dn = done_blocks(f, ctx.prog)
            # done_render must be on the same handle as the acquire
            recv = access_path(f, defs, op_local(t[2][0])) if t[2] else None
            dn_same = set()
            for db in dn:
                dt = f.term(db)
                r2 = access_path(f, defs, op_local(dt[2][0])) if dt[2] else None
                if r2 == recv:
                    dn_same.add(db)
            start = t[4]
            key = "acquire:%s|%s" % (f.path, c["fn"].split("::")[-1])
            if start is None:
                continue
            path = find_path_edges(
                f, [start], lambda x: f.term(x)[0] == "ret",
                avoid_block=lambda x: x in dn_same,
                avoid_edge=lambda x, s, lab: (x, s, lab) in no_tok)
            # start block itself may be a done block / switch: handled since edges from start are filtered
            if path is None:
                ctx.ok(rid, key, "every return path after the acquire either proves the result is not Some "
                       "(%d discriminant edges) or calls done_render on the same handle (%d calls)"
                       % (len(no_tok), len(dn_same)), nontrivial=True, fn=f)
            else:
                ctx.bad(rid, key + "|exit-without-done_render",
                        "after a successful %s (line %d) a path reaches return without done_render on that handle"
                        % (c["fn"].split("::")[-1], pos_line(t[-2])), fn=f, pos=t[-2], path=path)
            # the state handed to done_render is never a Rendering aggregate
            for db in dn_same:
                dt = f.term(db)
                info = infos.get(f.path) or FnInfo(f)
                var = info.value_variant(dt[2][1]) if len(dt[2]) > 1 else None
                if var == "Rendering":
                    ctx.bad(rid, "done_render-arg-Rendering:" + f.path, "done_render is handed FrameRender::Rendering", fn=f, pos=dt[-2])
    # all done_render call sites (census)
    for f in handle_fns(ctx.prog):
        for db in done_blocks(f):
            ctx.count("R-RENDERING.done_render-calls")
    ctx.floor("R-RENDERING.marks", 2)
    ctx.floor("R-RENDERING.wrapper-calls", 2)
    ctx.floor("R-RENDERING.done_render-calls", 4)


def check_wrapper(ctx, info, m, ridx, ok_acquire):
    """acquire wrapper: old = replace(&mut *guard, Rendering); paths either return Some(old) with old in {None, InProgress}
    or overwrite the state under the same guard (restore old / terminal variant)."""
    rid = "R-PROTO-TAS"
    ctx.rule(rid, "acquire wrappers: reading the old state and storing Rendering is one mem::replace under one lock(); "
                  "Some(old) is returned only for old in {None, InProgress}; every other exit overwrites the mark "
                  "under the same guard with the old state or a terminal state")
    fn = info.fn
    p = fn.path
    if m["kind"] != "replace" or m["result"] is None:
        ctx.bad(rid, "wrapper-shape:" + p, "the mark in an acquire wrapper must be a mem::replace (atomic test-and-set under the lock)",
                fn=fn, pos=m["pos"])
        return
    defs = info.defs
    old = alias_closure(fn, {m["result"]}, through_try=False)
    # exactly one lock() in the wrapper and it dominates the replace
    locks = [b for b, t in fn.calls() if callee(t) and callee(t)["fn"] == "std::sync::poison::mutex::Mutex::<T>::lock"]
    if len(locks) != 1 or not fn.dominates(locks[0], m["bb"]):
        ctx.bad(rid, "wrapper-one-lock:" + p, "acquire wrapper must take the handle lock exactly once before the replace (found %d)" % len(locks), fn=fn)
    else:
        ctx.ok(rid, "wrapper-one-lock:" + p, "single lock() dominating the replace", fn=fn)
    # blocks that build a Some(old)
    some_blocks = set()
    for b, blk in enumerate(fn.blocks):
        for st in blk[0]:
            if st[0] == "=" and st[2][0] == "agg" and st[2][1][0] == "adt" and st[2][1][1] == "core::option::Option" and st[2][1][2] == "Some":
                if any(op_place(o) is not None and op_place(o)[0] in old for o in st[2][2]):
                    some_blocks.add(b)
    if not some_blocks:
        ctx.bad(rid, "wrapper-returns-state:" + p, "acquire wrapper never returns Some(old state)", fn=fn)
        return
    # (a) Some(old) is handed out only when the state was None / InProgress.  Decided per variant: fix the discriminant of the
    # handle's state = v, walk the CFG from the lock with constant propagation (so replace-then-match, test-then-replace,
    # `matches!(..)` and a bool flag computed from the match are all understood); a Some(old) block reachable for any other
    # variant is the violation.
    start = fn.term(m["bb"])[4]
    start0 = fn.term(locks[0])[4] if locks else start
    variants = fr_variants(ctx.prog)
    g_local = m["guard"]
    ridx_i = variants.index("Rendering")
    offending = []
    for vi, vname in enumerate(variants):
        if str(vi) in ok_acquire:
            continue
        hit = []

        def on_block(bb, env, hit=hit):
            if bb in some_blocks:
                hit.append(bb)
                return False
            return True

        def assume(pl, vi=vi):
            base = pl[0]
            for _ in range(6):
                if base in old:
                    return vi
                if base == g_local or is_guard_ty(fn.local_ty(base)):
                    return vi          # the state as seen through the guard before it is replaced
                d = defs.single(base)
                if d and d[2] == "assign" and d[3][2][0] == "ref":
                    base = d[3][2][2][0]
                    continue
                if d and d[2] == "assign" and d[3][2][0] == "use" and op_place(d[3][2][1]) is not None:
                    base = op_place(d[3][2][1])[0]
                    continue
                if d and d[2] == "call" and callee(d[3]) and callee(d[3])["fn"].split("::<")[0] in (
                        "core::ops::deref::Deref::deref", "core::ops::deref::DerefMut::deref_mut") and d[3][2]:
                    base = op_local(d[3][2][0])
                    if base is None:
                        break
                    continue
                break
            return None

        const_explore(fn, start0, {}, on_block, assume_discr=assume)
        if hit:
            offending.append((vname, hit[0]))
    if not offending:
        ctx.ok(rid, "wrapper-some-only-idle:%s" % p, "Some(old) is reachable only for a state in {None, InProgress} "
               "(%d other variants explored from the lock)" % (len(variants) - len(ok_acquire)), nontrivial=True, fn=fn)
    else:
        ctx.bad(rid, "wrapper-some-only-idle:%s" % p,
                "Some(old state) can be returned for state %s (Rendering: two renderers at once; Done/Blended/Err: a finished frame "
                "rendered again)" % ", ".join(v for v, _ in offending), fn=fn, pos=fn.term_pos(offending[0][1]))
    # (b) every path mark -> ret that does not go through a Some block passes an overwriting store under the same guard
    over = {s["bb"] for s in info.stores if s is not m and s["guard"] == m["guard"] and s["kind"] == "store"}
    path = None if (start in over or start in some_blocks) else \
        find_path_edges(fn, [start], lambda x: fn.term(x)[0] == "ret", avoid_block=lambda x: x in over or x in some_blocks)
    if path is None:
        ctx.ok(rid, "wrapper-restores:%s" % p, "every exit that does not hand out the state overwrites the mark under the guard "
               "(%d stores)" % len(over), nontrivial=True, fn=fn)
    else:
        ctx.bad("R-RENDERING", "wrapper-restores:%s|exit-with-mark" % p,
                "an exit of the acquire wrapper neither returns the taken state nor overwrites the Rendering mark", fn=fn,
                pos=m["pos"], path=path)
    # (c) overwriting stores put back the old value or a terminal variant
    for s in info.stores:
        if s is m or s["kind"] != "store":
            continue
        if s["variant"] is not None:
            if s["variant"] == "Rendering":
                ctx.bad(rid, "wrapper-store-Rendering:%s" % p, "wrapper stores Rendering on an exit path", fn=fn, pos=s["pos"])
            else:
                ctx.ok(rid, "wrapper-store:%s:%s" % (p, s["variant"]), "terminal variant", fn=fn)
        elif s["vloc"] in old:
            ctx.ok(rid, "wrapper-store:%s:restore" % p, "restores the state it took", fn=fn)
        else:
            ctx.bad(rid, "wrapper-store-unknown:%s" % p, "wrapper stores a value that is neither the old state nor a terminal variant",
                    fn=fn, pos=s["pos"])


def rule_placeholder(ctx, infos):
    """a state that was taken out of the handle (placeholder left behind) is not made visible while work goes on"""
    rid = "R-PROTO-PLACEHOLDER"
    ctx.rule(rid, "when a function takes the state out of a handle with mem::replace / mem::take (leaving a placeholder such as ErrTaken "
                  "or None) and keeps working, it does not release the handle lock before storing a real state into it: every path from "
                  "the take to a release of the guard that is followed by further calls passes a store through the same guard. "
                  "(A guard released at scope end on the way to `return` only ends the function: the placeholder is then the final, "
                  "terminal state.)  Otherwise concurrent callers observe the placeholder and report a failed frame")
    n = 0
    for p, info in sorted(infos.items()):
        fn = info.fn
        takes = [s_ for s_ in info.stores if s_["kind"] in ("replace", "take") and s_["variant"] != "Rendering" and s_["result"] is not None]
        if not takes:
            continue
        ctx.seen(fn)
        for tk in takes:
            n += 1
            g = tk["guard"]
            stores = {s_["bb"] for s_ in info.stores if s_ is not tk and s_["guard"] == g}
            # releases of the guard: drop terminators / mem::drop(guard) calls / moves of the guard into a call
            rel = []
            galias = alias_closure(fn, {g}, through_try=False)
            for b, blk in enumerate(fn.blocks):
                if blk[2]:
                    continue
                t = blk[1]
                if t[0] == "drop" and len(t[1]) == 1 and t[1][0] in galias:
                    rel.append(b)
                elif t[0] == "call":
                    c = callee(t)
                    if c and c["fn"].startswith("core::mem::drop") and t[2] and op_local(t[2][0]) in galias:
                        rel.append(b)
            start = fn.term(tk["bb"])[4] if tk["idx"] == "term" else tk["bb"]
            bad = None
            for r in rel:
                if find_path_edges(fn, [start], lambda x, r=r: x == r, avoid_block=lambda x: x in stores) is None and start != r:
                    continue
                # work after the release?
                after = fn.term(r)[4] if fn.term(r)[0] == "call" else (fn.term(r)[2] if fn.term(r)[0] == "drop" else None)
                if after is None:
                    continue
                seen = set()
                work = [after]
                real_call = None
                while work:
                    x = work.pop()
                    if x in seen or fn.is_cleanup(x):
                        continue
                    seen.add(x)
                    tt = fn.term(x)
                    if tt[0] == "call":
                        cc = callee(tt)
                        nm = cc["fn"] if cc else "?"
                        if not (nm.startswith("core::mem::drop") or nm.startswith("core::ptr::drop_in_place") or nm.startswith("core::panicking")
                                or nm.startswith("core::ops::try_trait") or nm.startswith("core::convert::")):
                            real_call = (x, nm)
                            break
                    work.extend(fn.succs(x))
                if real_call is not None:
                    bad = (r, real_call)
                    break
            key = "placeholder:%s:%s" % (p, tk["variant"] or "value")
            if bad is None:
                ctx.ok(rid, key, "the taken state is replaced under the guard before the guard is released ahead of further work "
                       "(%d releases examined)" % len(rel), nontrivial=True, fn=fn)
            else:
                ctx.bad(rid, key + "|released-with-placeholder",
                        "%s takes the state out of the handle (leaving %s) and releases the lock while it goes on to call %s: other "
                        "callers see the placeholder and fail or re-render" % (p.split("::")[-1], tk["variant"] or "a placeholder", bad[1][1].split("::")[-1]),
                        fn=fn, pos=fn.term_pos(bad[0]))
    ctx.counts[rid + ".takes"] = n
    ctx.floor(rid + ".takes", 2)


def rule_wait(ctx, infos):
    rid = "R-PROTO-WAIT"
    ctx.rule(rid, "Condvar::wait only inside wait_until_render, inside a CFG cycle that re-reads the state discriminant, "
                  "entered only on the Rendering edge and left only on a non-Rendering variant")
    variants = fr_variants(ctx.prog)
    ridx = str(variants.index("Rendering")) if variants and "Rendering" in variants else None
    nwait = 0
    for f in ctx.prog.all_fns():
        if f.crate.startswith("jxl_oxide_cli") or ":" in f.crate:
            continue
        for b, t in f.calls():
            c = callee(t)
            if not c or not c["fn"].startswith("std::sync::poison::condvar::Condvar::wait"):
                continue
            nwait += 1
            ctx.count(rid + ".waits")
            if f.path != WAIT:
                ctx.bad(rid, "wait-outside:" + f.path, "Condvar::wait outside wait_until_render", fn=f, pos=t[-2])
                continue
            info = infos.get(f.path) or FnInfo(f)
            defs = info.defs
            # cycle: wait block reachable from its own successor
            tgt = t[4]
            if tgt is None or b not in f.reachable(tgt):
                ctx.bad(rid, "wait-no-loop", "Condvar::wait is not inside a re-check loop (spurious wake-ups / missed states)", fn=f, pos=t[-2])
                continue
            # on every path from the wait's return back to the wait there is a switch on the discriminant of a value
            # taken from the guard (the replace result)
            taken = set()
            for s in info.stores:
                if s["result"] is not None:
                    taken |= alias_closure(f, {s["result"]}, through_try=False)
            sw = set()
            enter_edges = set()
            direct = False
            direct_edges = set()
            for x in range(len(f.blocks)):
                direct = False
                sub = switch_subject(f, defs, x)
                hit = bool(sub and sub[0] == "discr" and len(sub[1]) == 1 and sub[1][0] in taken)
                # the state read in place, through the guard (`while matches!(*guard, Rendering)`)
                if not hit and sub and sub[0] == "discr" and len(sub[1]) == 2 and sub[1][1] == "*" and info.guard_root(sub[1][0]) is not None:
                    hit = direct = True
                if hit:
                    sw.add(x)
                    tt = f.term(x)
                    for v, y in tt[2]:
                        if v == ridx:
                            # `matches!(state, Rendering)`: the arm only sets a bool that is branched on next; the edge that is
                            # taken exactly when the state is Rendering is the true edge of that branch
                            bl = [st[1][0] for st in f.stmts(y) if st[0] == "=" and len(st[1]) == 1 and st[2][0] == "use"
                                  and op_const_int(st[2][1]) == 1 and f.local_ty(st[1][0]) == "bool"]
                            z, hops = y, 0
                            while f.term(z)[0] == "goto" and hops < 3:
                                z, hops = f.term(z)[1], hops + 1
                            tz = f.term(z)
                            if direct and bl and tz[0] == "switch" and op_local(tz[1]) in bl and [vv for vv, _ in tz[2]] == ["0"]:
                                enter_edges.add((z, tz[3], "otherwise"))
                                direct_edges.add((z, tz[3], "otherwise"))
                            else:
                                enter_edges.add((x, y, v))
                                if direct:
                                    direct_edges.add((x, y, v))
                    if ridx is not None and not any(v == ridx for v, _ in tt[2]) and len(tt[2]) >= 1:
                        # `switch d [other variants ..] otherwise -> Rendering arm`
                        pass
            path = find_path_edges(f, [tgt], lambda x: x == b, avoid_block=lambda x: x in sw)
            if path is None and sw:
                ctx.ok(rid, "wait-recheck", "every path from wait's return back to wait re-reads the state discriminant", nontrivial=True, fn=f)
            else:
                ctx.bad(rid, "wait-recheck", "wait can be re-entered without re-reading the state", fn=f, pos=t[-2], path=path)
            # wait only reachable through the Rendering edge
            path = find_path_edges(f, [0], lambda x: x == b, avoid_edge=lambda x, s, lab: (x, s, lab) in enter_edges)
            if path is None and enter_edges:
                ctx.ok(rid, "wait-only-on-Rendering", "the wait is reachable only through discriminant==Rendering", nontrivial=True, fn=f)
            else:
                ctx.bad(rid, "wait-only-on-Rendering", "Condvar::wait reachable for a state other than Rendering: nobody will notify", fn=f, pos=t[-2], path=path)
            # before waiting, the Rendering state is put back (the taken value was replaced by None)
            over = {s["bb"] for s in info.stores if s["kind"] == "store"}
            for (x, y, v) in enter_edges:
                path = find_path_edges(f, [y], lambda z: z == b, avoid_block=lambda z: z in over)
                if y in over or (x, y, v) in direct_edges:
                    path = None         # read in place: nothing was taken out of the guard, nothing to restore
                if path is None:
                    ctx.ok(rid, "wait-restores-Rendering", "state restored before waiting", fn=f)
                else:
                    ctx.bad(rid, "wait-restores-Rendering", "wait_until_render waits after having replaced the state without restoring it", fn=f, pos=t[-2], path=path)
            # returns: every ret path that does not go through the wait passes through the discriminant switch on a non-Rendering edge
            # (i.e. the function cannot return claiming 'ready' while the state is Rendering): ret reachable from the Rendering edge only via wait
            for (x, y, v) in enter_edges:
                path = find_path_edges(f, [y], lambda z: f.term(z)[0] == "ret", avoid_block=lambda z: z == b)
                if path is None:
                    ctx.ok(rid, "wait-loop-exit", "from the Rendering arm the function can only continue through the wait", nontrivial=True, fn=f)
                else:
                    ctx.bad(rid, "wait-loop-exit", "wait_until_render can return while the state is Rendering", fn=f, pos=fn_pos(f, y), path=path)
    ctx.floor(rid + ".waits", 1)


def fn_pos(f, b):
    return f.term_pos(b)


NOLOCK_CALLEES = [
    HANDLE + "::<S>::run_with_image", HANDLE + "::<S>::run", HANDLE + "::<S>::wait_until_render",
    HANDLE + "::<S>::start_render", HANDLE + "::<S>::start_render_silent", HANDLE + "::<S>::done_render",
    HANDLE + "::<S>::reset", "jxl_render::image::RenderedImage::<S>::blend",
    "jxl_render::image::RenderedImage::<S>::try_take_blended", "jxl_render::image::composite",
    "jxl_render::blend::blend", "jxl_render::blend::patch", "std::sync::poison::mutex::Mutex::<T>::lock",
    "jxl_threadpool::JxlThreadPool::*", "jxl_threadpool::JxlScope::*",
    "core::ops::function::Fn::call", "core::ops::function::FnMut::call_mut", "core::ops::function::FnOnce::call_once",
    "std::sync::poison::condvar::Condvar::wait*",
]
# calls that may run while the handle guard is held, with the reason
NOLOCK_ALLOWED = {
    ("jxl_render::image::RenderedImage::<S>::blend", "jxl_render::image::composite_preprocess"):
        "runs under the guard with state ErrTaken; touches only the taken grid and the pool, never a handle",
    (HANDLE + "::<S>::wait_until_render", "std::sync::poison::condvar::Condvar::wait"):
        "Condvar::wait atomically releases the guard it is given",
}


def rule_nolock(ctx, infos):
    rid = "R-PROTO-NOLOCK"
    ctx.rule(rid, "no MutexGuard<FrameRender> is live (may-be-initialised, not moved/dropped) at a call that can take a "
                  "handle lock or run arbitrary render code; handles lock only themselves and call only lower-index frames")
    from ..mirutil import name_match
    n = 0
    for f in handle_fns(ctx.prog):
        guards = [i for i, l in enumerate(f.locals) if is_guard_ty(l[0])]
        if not guards:
            continue
        ctx.seen(f)
        live = guard_liveness(f, guards)
        for b, t in f.calls():
            c = callee(t)
            names = []
            if c:
                names = [c["fn"]] + ([c["res"]] if "res" in c else [])
            else:
                names = ["<indirect>"]
            hot = any(name_match(pat, nm) for pat in NOLOCK_CALLEES for nm in names) or not c
            if hot and c and "res" in c and "{closure" in c["res"]:
                # a call of a statically known closure (e.g. the one tracing's macros build): look inside it
                hot = closure_is_hot(ctx, c["res"], 0)
            if not hot:
                continue
            # guards live at the call, not counting a guard passed (moved) as an argument
            moved = {op_place(a)[0] for a in t[2] if a[0] == "m" and op_place(a) is not None and len(op_place(a)) == 1}
            held = [g for g in guards if g in live[b] and g not in moved]
            n += 1
            ctx.count(rid + ".calls")
            cname = c["fn"] if c else "<indirect>"
            if (f.path, cname) in NOLOCK_ALLOWED and held:
                ctx.ok(rid, "held-allowed:%s->%s" % (f.path, cname), NOLOCK_ALLOWED[(f.path, cname)], fn=f)
                continue
            if held:
                ctx.bad(rid, "lock-held-across:%s->%s" % (f.path, cname),
                        "guard %s is held across a call to %s, which can lock a frame-render handle (self-deadlock / lock-order cycle)"
                        % (", ".join(f.local_name(g) or "_%d" % g for g in held), cname), fn=f, pos=t[-2])
            else:
                ctx.ok(rid, "free:%s->%s@%d" % (f.path, cname, n), None, fn=f)
    ctx.floor(rid + ".calls", 12)


def closure_is_hot(ctx, path, depth):
    from ..mirutil import name_match
    f = ctx.prog.fn(path)
    if f is None or depth > 3:
        return True
    for b, t in f.calls():
        c = callee(t)
        if not c:
            return True
        names = [c["fn"]] + ([c["res"]] if "res" in c else [])
        if any(name_match(pat, nm) for pat in NOLOCK_CALLEES for nm in names):
            if "res" in c and "{closure" in c["res"] and not closure_is_hot(ctx, c["res"], depth + 1):
                continue
            return True
    return False


def guard_liveness(fn, guards):
    """forward may-be-initialised dataflow: live[b] = set of guard locals possibly initialised at the terminator of b"""
    gset = set(guards)
    n = len(fn.blocks)
    IN = [set() for _ in range(n)]
    OUT_T = [set() for _ in range(n)]   # state just before terminator executes
    OUT = [set() for _ in range(n)]

    def transfer_block(b, s):
        s = set(s)
        for st in fn.stmts(b):
            if st[0] == "=":
                rv = st[2]
                # moves out
                ops = []
                if rv[0] in ("use",):
                    ops = [rv[1]]
                elif rv[0] == "agg":
                    ops = rv[2]
                for o in ops:
                    if o[0] == "m" and len(o[1]) == 1 and o[1][0] in gset:
                        s.discard(o[1][0])
                if len(st[1]) == 1 and st[1][0] in gset:
                    s.add(st[1][0])
            elif st[0] == "dead" and st[1] in gset:
                s.discard(st[1])
        before_term = set(s)
        t = fn.term(b)
        if t[0] == "call":
            for a in t[2]:
                if a[0] == "m" and len(a[1]) == 1 and a[1][0] in gset:
                    s.discard(a[1][0])
            if len(t[3]) == 1 and t[3][0] in gset:
                s.add(t[3][0])
        elif t[0] == "drop":
            if len(t[1]) == 1 and t[1][0] in gset:
                s.discard(t[1][0])
        return before_term, s
    work = list(range(n))
    while work:
        b = work.pop()
        bt, out = transfer_block(b, IN[b])
        OUT_T[b] = bt
        if out != OUT[b] or True:
            OUT[b] = out
            for s in fn.succs(b):
                if not out <= IN[s]:
                    IN[s] |= out
                    work.append(s)
    return OUT_T


def rule_spawn(ctx):
    rid = "R-PROTO-SPAWN"
    ctx.rule(rid, "closures handed to the thread pool that touch a render handle only call FrameRenderHandle::run "
                  "(itself an R-RENDERING wrapper call site): a background render cannot leave the mark either")
    n = 0
    for f in handle_fns(ctx.prog):
        if f.kind != "Closure":
            continue
        # closures that mention a FrameRenderHandle method
        for b, t in f.calls():
            c = callee(t)
            if c and c["fn"].startswith(HANDLE + "::<S>::") and f.parent and (
                    "spawn_renderer" in f.parent or "do_render" in f.parent):
                n += 1
                ctx.count(rid + ".calls")
                m = c["fn"].split("::")[-1]
                if m in ("run", "run_with_image"):
                    ctx.ok(rid, "spawned:%s->%s" % (f.path, m), "protocol entry point", fn=f)
                else:
                    ctx.bad(rid, "spawned:%s->%s" % (f.path, m), "a pool task calls FrameRenderHandle::%s directly" % m, fn=f, pos=t[-2])
    ctx.floor(rid + ".calls", 1)


def rule_render_op_results(ctx):
    """the render_op closures never return Rendering"""
    rid = "R-RENDERING"
    n = 0
    for f in handle_fns(ctx.prog):
        if f.kind != "Closure":
            continue
        if not f.locals[0][0].startswith(FR + "<"):
            continue
        n += 1
        ctx.count("R-RENDERING.render_op-closures")
        ctx.seen(f)
        for b, blk in enumerate(f.blocks):
            for st in blk[0]:
                if st[0] == "=" and st[2][0] == "agg" and st[2][1][0] == "adt" and st[2][1][1] == FR and st[2][1][2] == "Rendering":
                    ctx.bad(rid, "render_op-returns-Rendering:" + f.path, "a render closure constructs FrameRender::Rendering", fn=f, pos=st[3])
        ctx.ok(rid, "render_op:%s" % f.path, "constructs no Rendering value", fn=f)
    # no function outside the wrappers/blend constructs Rendering at all
    for f in ctx.prog.all_fns():
        if ":" in f.crate:
            continue
        for b, blk in enumerate(f.blocks):
            if f.is_cleanup(b):
                continue
            for st in blk[0]:
                if st[0] == "=" and st[2][0] == "agg" and st[2][1][0] == "adt" and st[2][1][1] == FR and st[2][1][2] == "Rendering":
                    ctx.count("R-RENDERING.Rendering-constructions")
                    if f.path not in WRAPPERS and f.path != "jxl_render::image::RenderedImage::<S>::blend":
                        ctx.bad(rid, "Rendering-constructed:" + f.path, "FrameRender::Rendering is constructed outside the reviewed "
                                "mark sites", fn=f, pos=st[3])


def rule_publish_success(ctx):
    """a success state (Done / Blended) is only published where every fallible step computed before it is known to have succeeded"""
    rid = "R-PUBLISH-SUCCESS"
    ctx.rule(rid, "every place that publishes a finished frame - done_render(FrameRender::Done | Blended(..)) or a store of such a value "
                  "into the handle's guard - is dominated by the success edge of every fallible call whose outcome is examined at all: "
                  "for each call in the same function that returns a Result, dominates the publishing block and whose result (followed "
                  "through map_err / Try::branch / moves) is tested by a discriminant switch somewhere, one of those switches' Ok / "
                  "Continue targets dominates the publishing block.  Publishing first and looking at the error afterwards caches a "
                  "half-composited buffer as the frame: the failing call reports the error, every later call returns the wrong "
                  "picture as a success")
    sites = 0
    pubset = publishers(ctx.prog)       # done_render and the helpers that always publish through it
    for f in handle_fns(ctx.prog):
        if f.kind == "Promoted":
            continue
        pubs = []
        defs = None
        succ_locals = set()
        for b, blk in enumerate(f.blocks):
            if blk[2]:
                continue
            for st in blk[0]:
                if st[0] == "=" and st[2][0] == "agg" and st[2][1][0] == "adt" and st[2][1][1] == FR and st[2][1][2] in ("Done", "Blended"):
                    if len(st[1]) == 1:
                        succ_locals.add(st[1][0])
                    elif "*" in st[1][1:]:
                        pubs.append((b, st[3], "store of %s" % st[2][1][2]))
                elif st[0] == "=" and st[2][0] == "use" and op_local(st[2][1]) in succ_locals and len(st[1]) > 1 and "*" in st[1][1:]:
                    pubs.append((b, st[3], "store of a finished state"))
            t = blk[1]
            if t[0] == "call" and callee(t) and (callee(t)["fn"] in pubset or callee(t).get("res") in pubset) and len(t[2]) >= 2:
                if defs is None:
                    defs = Defs(f)
                for a in t[2][1:]:
                    l = op_local(a)
                    d = defs.single(l) if l is not None else None
                    if d and d[2] == "assign" and d[3][2][0] == "agg" and d[3][2][1][0] == "adt" and d[3][2][1][1] == FR and d[3][2][1][2] in ("Done", "Blended"):
                        pubs.append((b, t[-2], "done_render(%s)" % d[3][2][1][2]))
        if not pubs:
            continue
        if defs is None:
            defs = Defs(f)
        ctx.seen(f)
        # Result-returning calls and where their outcome is examined
        uses = {}
        for b, blk in enumerate(f.blocks):
            if blk[2]:
                continue
            for st in blk[0]:
                if st[0] == "=" and st[2][0] in ("use", "discr"):
                    src = op_local(st[2][1]) if st[2][0] == "use" else st[2][1][0]
                    if src is not None and len(st[1]) == 1:
                        uses.setdefault(src, []).append(("discr" if st[2][0] == "discr" else "copy", st[1][0], b))
            t = blk[1]
            if t[0] == "call" and t[3] and len(t[3]) == 1:
                for a in t[2]:
                    if op_local(a) is not None:
                        uses.setdefault(op_local(a), []).append(("call", t[3][0], b, callee(t)["fn"] if callee(t) else ""))
            if t[0] == "switch" and op_local(t[1]) is not None:
                uses.setdefault(op_local(t[1]), []).append(("switch", None, b))

        def ok_targets(r):
            """Ok / Continue targets of the discriminant switches that examine Result local r (through adaptors)"""
            out, seen, work = [], set(), [(r, False)]
            found_switch = False
            while work:
                x, is_discr = work.pop()
                if (x, is_discr) in seen:
                    continue
                seen.add((x, is_discr))
                if x == 0 and not is_discr:
                    found_switch = True         # handed back to the caller, who examines it - after the publication
                for u in uses.get(x, []):
                    if u[0] == "copy":
                        work.append((u[1], is_discr))
                    elif u[0] == "discr":
                        work.append((u[1], True))
                    elif u[0] == "call" and not is_discr:
                        last = u[3].split("::")[-1]
                        if last in ("map_err", "map", "branch", "and_then", "or_else", "inspect_err", "into", "from"):
                            work.append((u[1], False))
                    elif u[0] == "switch" and is_discr:
                        found_switch = True
                        t = f.term(u[2])
                        tg = [x2 for v, x2 in t[2] if int(v) == 0]
                        others = {x2 for v, x2 in t[2] if int(v) != 0}
                        if not tg and len(t[2]) >= 1:
                            tg = [t[3]]      # `switch d [1 -> err] otherwise ok`
                        else:
                            others.add(t[3])
                        out.extend(x2 for x2 in tg if x2 not in others or len(t[2]) == 1 and x2 == t[3])
            return found_switch, out

        for b, pos, what in pubs:
            sites += 1
            bad = None
            for cb, ct in f.calls():
                if cb == b or not f.dominates(cb, b) or not ct[3] or len(ct[3]) != 1:
                    continue
                ty = str(f.local_ty(ct[3][0]))
                if not ty.startswith("core::result::Result<") or "PoisonError" in ty or "MutexGuard" in ty and "Error" not in ty.split("MutexGuard")[0]:
                    continue
                examined, oks = ok_targets(ct[3][0])
                if not examined:
                    continue
                if not any(f.dominates(x, b) for x in oks):
                    bad = (cb, ct)
                    break
            key = "%s|%s" % (strip_generics(f.path), what)
            if bad:
                c = callee(bad[1])
                ctx.bad(rid, key + "|before-outcome", "%s is reached whether or not `%s` (line %d) succeeded: its result is only examined "
                        "elsewhere - a failed step is cached as a finished frame" % (what, (c.get("res") or c["fn"]) if c else "an indirect call",
                                                                                      pos_line(bad[1][-2])), fn=f, pos=pos)
            else:
                ctx.ok(rid, key, "dominated by the success edge of every examined fallible call before it", nontrivial=True, fn=f)
    ctx.count(rid + ".publish-sites", sites)
    ctx.floor(rid + ".publish-sites", 2)


def rule_pool_wait(ctx):
    """no task submitted to the thread pool blocks on a render handle"""
    import re
    rid = "R-POOL-WAIT"
    ctx.rule(rid, "a task submitted to the thread pool (a closure handed to JxlThreadPool::scope / spawn / for_each_*, or to JxlScope::spawn) "
                  "must not reach the Condvar wait of a render handle (FrameRenderHandle::wait_until_render, through run_with_image or "
                  "RenderedImage::blend): the frame it waits for may be rendering further down the stack of the very worker that, idle "
                  "inside a rayon scope, stole this task - then nobody can ever finish it.  Decided on the call graph of jxl_render "
                  "(resolved callees and the closures a function creates), depth 8, closure numbers stripped from the keys")
    cr = ctx.prog.crate("jxl_render")

    def callees_of(f):
        out = set()
        for b, t in f.calls():
            c = callee(t)
            if not c:
                continue
            for nm in (c.get("res"), c["fn"]):
                if nm and nm in cr.fns:
                    out.add(nm)
        for blk in f.blocks:
            for st in blk[0]:
                if st[0] == "=" and st[2][0] == "agg" and st[2][1][0] == "closure" and st[2][1][1] in cr.fns:
                    out.add(st[2][1][1])
        return out

    direct = {f.path for f in cr.fn_list if any(callee(t) and "wait_until_render" in (callee(t).get("res") or callee(t)["fn"]) for b, t in f.calls())}
    if not direct:
        ctx.anchor_missing(rid, "callers of FrameRenderHandle::wait_until_render")
        return

    def reaches(path, seen, depth=0):
        if path in seen or depth > 8:
            return None
        seen.add(path)
        if path in direct:
            return [path]
        f = cr.fns.get(path)
        if f is None:
            return None
        for c in sorted(callees_of(f)):
            r = reaches(c, seen, depth + 1)
            if r:
                return [path] + r
        return None

    n = 0
    reported = set()
    for f in cr.fn_list:
        if f.kind == "Promoted":
            continue
        defs = None
        for b, t in f.calls():
            c = callee(t)
            if not c:
                continue
            nm = c.get("res") or c["fn"]
            if "jxl_threadpool" not in nm or nm.split("::")[-1] not in ("spawn", "scope", "for_each_vec", "for_each_vec_with", "for_each_mut_with"):
                continue
            if defs is None:
                defs = Defs(f)
            for a in t[2]:
                l = op_local(a)
                dd = defs.single(l) if l is not None else None
                if not (dd and dd[2] == "assign" and dd[3][2][0] == "agg" and dd[3][2][1][0] == "closure"):
                    continue
                n += 1
                ctx.seen(f)
                r = reaches(dd[3][2][1][1], set())
                strip = lambda s_: re.sub(r"::\{closure#\d+\}", "", strip_generics(s_))
                if r:
                    key = "%s|%s" % (strip(f.path), strip(r[-1]))
                    if key in reported:
                        continue
                    reported.add(key)
                    ctx.bad(rid, key, "a pool task created in %s reaches %s, which waits on a render handle (%s): with a multi-threaded pool the "
                            "waited-for frame can be suspended on the same worker's stack - deadlock" % (strip(f.path), strip(r[-1]),
                                                                                                        " -> ".join(strip(x).split("::")[-1] for x in r)),
                            fn=f, pos=t[-2])
    ctx.count(rid + ".pool-closures", n)
    ctx.floor(rid + ".pool-closures", 10)
    if not reported:
        ctx.ok(rid, "no-wait-in-pool-tasks", "%d pool closures, none reaches a handle wait" % n, nontrivial=True)

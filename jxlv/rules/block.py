"""R-BLOCK: nothing in the library can block except the render-handle protocol; no lock is re-acquired while held.
R-EOF (bitstream half): the bit reader's remaining-bit counter is only decreased through checked_sub."""
from ..facts import callee, op_local, op_place, pos_line, place_fields
from ..mirutil import Defs, access_path, name_match

BLOCKING = [
    "std::sync::poison::condvar::Condvar::wait*", "std::thread::park*", "std::thread::sleep*", "std::thread::yield_now",
    "std::sync::mpsc::Receiver::<T>::recv*", "std::sync::mpmc::*", "std::sync::barrier::Barrier::wait", "std::thread::JoinHandle::<T>::join",
    "std::sync::once::Once::wait*", "std::sync::once_lock::OnceLock::<T>::wait", "std::io::stdio::*",
    "std::process::*", "std::net::*", "core::hint::spin_loop",
]
BLOCKING_ALLOWED = {
    ("jxl_render::state::FrameRenderHandle::<S>::wait_until_render", "std::sync::poison::condvar::Condvar::wait"):
        "the one blocking wait; waits only while the state is Rendering (C08/C20 rules)",
    ("jxl_oxide::JxlImageBuilder::read", "std::io::Read::read"): "reads the caller's reader: blocking is the caller's Read impl",
    ("jxl_oxide::JxlImageBuilder::read", "std::io::Read::read_exact"): "reads the caller's reader",
}
LOCK_FNS = {
    "std::sync::poison::mutex::Mutex::<T>::lock": "mutex",
    "std::sync::poison::rwlock::RwLock::<T>::read": "rwlock",
    "std::sync::poison::rwlock::RwLock::<T>::write": "rwlock",
}
GUARD_PREFIX = ("std::sync::poison::mutex::MutexGuard<", "std::sync::poison::rwlock::RwLockReadGuard<", "std::sync::poison::rwlock::RwLockWriteGuard<")


def run_block(ctx, crates):
    rid = "R-BLOCK"
    ctx.rule(rid, "who-may-call census of blocking primitives in the library crates (only Condvar::wait in wait_until_render and the "
                  "caller-supplied reader); at every Mutex/RwLock acquisition no guard obtained from the same lock (same access path) "
                  "is still live in that function (no self-deadlock)")
    for f in ctx.prog.all_fns(crates):
        lock_sites = []
        for b, t in f.calls():
            c = callee(t)
            if not c:
                continue
            names = [c["fn"]] + ([c["res"]] if "res" in c else [])
            for pat in BLOCKING:
                if any(name_match(pat, n) for n in names):
                    ctx.count(rid + ".blocking-sites")
                    k = (f.path, c["fn"])
                    if k in BLOCKING_ALLOWED:
                        ctx.ok(rid, "blocking-allowed:%s->%s" % k, BLOCKING_ALLOWED[k], fn=f)
                    else:
                        ctx.bad(rid, "blocking-call:%s->%s" % k, "%s calls the blocking primitive %s: a decode call could wait forever" % k, fn=f, pos=t[-2])
                    break
            if c["fn"] in LOCK_FNS:
                lock_sites.append((b, t))
        if not lock_sites:
            continue
        ctx.seen(f)
        defs = Defs(f)
        guards = [i for i, l in enumerate(f.locals) if l[0].startswith(GUARD_PREFIX)]
        from .proto import guard_liveness
        live = guard_liveness(f, guards)
        # origin lock path of each guard local
        origin = {}
        for g in guards:
            origin[g] = guard_origin(f, defs, g)
        for b, t in lock_sites:
            ctx.count(rid + ".lock-sites")
            recv = access_path(f, defs, op_local(t[2][0])) if t[2] and op_local(t[2][0]) is not None else None
            held = [g for g in guards if g in live[b] and origin.get(g) is not None and origin[g] == recv]
            if held:
                ctx.bad(rid, "relock:%s" % f.path, "a lock is acquired while a guard of the same lock (%s) is still held: self-deadlock"
                        % ", ".join(f.local_name(g) or "_%d" % g for g in held), fn=f, pos=t[-2])
            else:
                ctx.ok(rid, "lock:%s@%s" % (f.path, "/".join(recv[1]) if recv else "?"), None, fn=f)
    ctx.floor(rid + ".lock-sites", 15)


def guard_origin(f, defs, g):
    """access path of the lock a guard local came from (through unwrap / Try / moves)"""
    seen = set()
    l = g
    while l is not None and l not in seen:
        seen.add(l)
        d = defs.single(l)
        if not d:
            return None
        if d[2] == "call":
            c = callee(d[3])
            if c and c["fn"] in LOCK_FNS:
                a = op_local(d[3][2][0])
                return access_path(f, defs, a) if a is not None else None
            if c and d[3][2]:
                l = op_local(d[3][2][0])
                continue
            return None
        if d[2] == "assign" and d[3][2][0] == "use":
            p = op_place(d[3][2][1])
            l = p[0] if p is not None else None
            continue
        return None
    return None


def run_eof_bitstream(ctx):
    rid = "R-EOF"
    ctx.rule(rid, "Bitstream.remaining_buf_bits is never decreased by an unguarded subtraction: every decrement goes through "
                  "usize::checked_sub whose None case becomes Error::Io(UnexpectedEof), or is dominated by `remaining_buf_bits < n -> "
                  "Err(UnexpectedEof)` on the same n (end of data is a value, not a panic)")
    bs = ctx.prog.crate("jxl_bitstream")
    ADT = "jxl_bitstream::bitstream::Bitstream"
    n = 0
    for f in bs.fn_list:
        defs = None
        for b, blk in enumerate(f.blocks):
            if f.is_cleanup(b):
                continue
            for st in blk[0]:
                if st[0] != "=":
                    continue
                pf = place_fields(st[1])
                if not pf or pf[-1] != ("remaining_buf_bits", ADT):
                    continue
                n += 1
                ctx.count(rid + ".counter-stores")
                if defs is None:
                    defs = Defs(f)
                how = store_kind(f, defs, st[2])
                key = "counter-store:%s:%s" % (f.path, how)
                if how.startswith("sub") and guarded_sub(f, defs, st, b):
                    ctx.ok(rid, key + ":guarded", "plain subtraction behind `remaining_buf_bits < n -> Err`", nontrivial=True, fn=f)
                elif how.startswith("sub"):
                    ctx.bad(rid, "counter-plain-sub:%s" % f.path, "remaining_buf_bits is decreased with a plain subtraction: underflow (panic or wrap) "
                            "instead of an UnexpectedEof error when the data ends", fn=f, pos=st[3])
                else:
                    ctx.ok(rid, key, how, fn=f)
        ctx.seen(f)
    for nm in ("consume_bits", "consume_bits_const", "skip_bits"):
        fs = [f for f in bs.fn_list if f.path.endswith("Bitstream::<'_>::" + nm)]
        if not fs:
            ctx.anchor_missing(rid, "Bitstream::" + nm)
            continue
        f = fs[0]
        has_cs = any(callee(t) and callee(t)["fn"] == "core::num::<impl usize>::checked_sub" for _, t in f.calls())
        has_eof = any(st[0] == "=" and st[2][0] == "agg" and st[2][1][0] == "adt" and st[2][1][1] == "core::io::error::ErrorKind" and st[2][1][2] == "UnexpectedEof"
                      for blk in f.blocks for st in blk[0])
        if not has_cs and has_eof:
            # the explicit form: `if self.remaining_buf_bits < n { return Err(UnexpectedEof) }` dominating the decrement
            from .. import validation
            cs = [c for c in validation.checks(f) if "remaining_buf_bits" in str(c["subject"]) and c["op"] in ("<", "<=")
                  or "remaining_buf_bits" in str(c["other"]) and c["op"] in (">", ">=")]
            has_cs = bool(cs)
        if has_cs and has_eof:
            ctx.ok(rid, "eof-is-error:" + nm, "checked_sub (or an explicit `< n -> Err` test) + ErrorKind::UnexpectedEof", nontrivial=True, fn=f)
        else:
            ctx.bad(rid, "eof-is-error:" + nm, "Bitstream::%s no longer turns running out of bits into Error::Io(UnexpectedEof) (checked_sub %s, UnexpectedEof %s)" % (nm, has_cs, has_eof), fn=f)
    ctx.floor(rid + ".counter-stores", 4)


def guarded_sub(f, defs, st, bb):
    """`self.remaining_buf_bits -= n` is dominated by a compare->error check rejecting `remaining_buf_bits < n` (same n)"""
    from .. import validation
    from ..intervals import value_class
    # find the subtraction feeding the store
    l = op_local(st[2][1]) if st[2][0] == "use" else None
    sub = None
    seen = set()
    while l is not None and l not in seen:
        seen.add(l)
        d = defs.single(l)
        if not d or d[2] != "assign":
            break
        rv = d[3][2]
        if rv[0] == "bin" and rv[1] in ("Sub", "SubWithOverflow"):
            sub = rv
            break
        if rv[0] == "use":
            p = op_place(rv[1])
            l = p[0] if p is not None else None
            continue
        break
    if sub is None:
        return False
    n_name = validation.subject_name(f, defs, sub[3], use_names=False)
    for c in validation.checks(f):
        if not f.dominates(c["bb"], bb):
            continue
        subj, other, op = str(c["subject"]), c["other"], c["op"]
        if "remaining_buf_bits" in subj and op == "<" and str(other) == str(n_name):
            return True
        if "remaining_buf_bits" in str(other) and op == ">" and subj == str(n_name):
            return True
    return False


def store_kind(f, defs, rv, depth=0):
    if rv[0] == "use":
        l = op_local(rv[1])
        if rv[1][0] == "k":
            return "const"
        if l is None:
            p = op_place(rv[1])
            return "field-of:_%d" % p[0] if p is not None else "?"
        seen = set()
        while l is not None and l not in seen and depth < 20:
            seen.add(l)
            d = defs.single(l)
            if not d:
                # multiple defs (e.g. match arms): check all
                kinds = set()
                for dd in defs.of(l):
                    if dd[2] == "assign":
                        kinds.add(store_kind(f, defs, dd[3][2], depth + 1))
                    elif dd[2] == "call":
                        c = callee(dd[3])
                        kinds.add("call:" + (c["fn"].split("::")[-1] if c else "?"))
                if any(k.startswith("sub") for k in kinds):
                    return "sub"
                return "|".join(sorted(kinds)) or "param"
            if d[2] == "call":
                c = callee(d[3])
                nm = c["fn"].split("::")[-1] if c else "?"
                if nm in ("branch", "ok_or", "ok_or_else", "unwrap", "expect", "from", "into") and d[3][2]:
                    l = op_local(d[3][2][0])
                    continue
                return "call:" + nm
            rv2 = d[3][2]
            if rv2[0] == "use":
                p = op_place(rv2[1])
                if p is None:
                    return "const"
                l = p[0]
                continue
            return store_kind(f, defs, rv2, depth + 1)
        return "?"
    if rv[0] == "bin":
        op = rv[1]
        if op in ("Sub", "SubWithOverflow", "SubUnchecked"):
            return "sub"
        return "bin:" + op
    return rv[0]

"""C04 - entropy decoding inverts the specified coding (claimed narrowly: the format's tables, the acceptance checks, the LZ77 window
constants).  Round-trip equality over all codes and sequences is value-level and not decided."""
from .. import validation
from ..engine import Ctx
from ..facts import op_const_int, callee
from . import specconst

LZ = "jxl_coding::DecoderInner::read_varint_with_multiplier_clustered_lz77"
TABLE = [
    ("jxl_coding::Coder::finalize", "state != 1245184", 1, "ANS final state must be 0x130000 (the final-state check of the property)"),
    ("jxl_coding::prefix::Histogram::parse_complex", "bitacc != 32768", 1, "prefix code lengths form a complete code (Kraft sum 2^15)"),
    ("jxl_coding::prefix::Histogram::parse_complex", "bitacc != 32", 1, "code-length code is complete (Kraft sum 2^5)"),
    ("jxl_coding::prefix::Histogram::parse_complex", "bitacc > 32768", 1, "prefix code over-subscribed"),
    ("jxl_coding::prefix::Histogram::with_code_lengths", "current_bits != (1<<toplevel_bits)", 1, "lookup table exactly filled"),
    ("jxl_coding::prefix::Histogram::parse_simple", "sym >= alphabet_size", 1, "simple prefix code symbol inside the alphabet"),
    ("jxl_coding::ans::Histogram::parse", "acc > 4096", 2, "ANS distribution sums to at most 2^12 (twice: explicit and RLE forms)"),
    ("jxl_coding::ans::Histogram::parse", "v0 == v1", 1, "two-symbol ANS distribution names two different symbols"),
    ("jxl_coding::read_clusters", "num_actual_clusters != num_expected_clusters", 1, "cluster map has no hole"),
    ("jxl_coding::permutation::read_permutation", "val >= ((size-skip)-idx)", 1, "Lehmer code digit below its radix"),
]


def rule_checks(ctx):
    rid = "R-CODING-ACCEPT"
    ctx.rule(rid, "the acceptance conditions of the entropy coder (ANS final state 0x130000, complete prefix codes, distribution sum, "
                  "cluster map without holes, Lehmer digits below their radix) exist as compare -> error checks; reconstructed from MIR and "
                  "matched by meaning")
    prog = ctx.prog
    cache = {}
    for fpath, cond, n, why in TABLE:
        f = prog.fn(fpath)
        if f is None:
            ctx.anchor_missing(rid, fpath)
            continue
        if fpath not in cache:
            cache[fpath] = validation.checks_deep(ctx.prog, f)
            ctx.seen(f)
        cs = cache[fpath]
        if ("mt", fpath) not in cache:
            cache[("mt", fpath)] = validation.match_table(cs, [(c_, n_) for f_, c_, n_, _w in TABLE if f_ == fpath], validation.deep_ref("coding", fpath))
        have = cache[("mt", fpath)].get(cond, [])
        key = "%s|%s" % (fpath.split("::")[-1], cond)
        if len(have) >= n:
            ctx.ok(rid, key, "reject `%s` -> Err (%s)" % (cond, why), nontrivial=True, fn=f)
        else:
            subj = cond.split(" ")[0]
            near = sorted({validation.norm(c["subject"], c["op"], c["other"]) for c in cs if subj in str(c["subject"])})
            ctx.bad(rid, key + "|missing", "entropy-coder acceptance check `reject %s` (%s) is missing or changed (found %d of %d; checks on "
                    "that value now: %s)" % (cond, why, len(have), n, near or "none"), fn=f)


def rule_lz77_window(ctx):
    rid = "R-LZ77-WINDOW"
    ctx.rule(rid, "the LZ77 window is 2^20 symbols: every mask applied to a window position and the distance clamp use the same "
                  "constant 2^20 - 1 (writer index, reader index and maximum distance agree)")
    f = ctx.prog.fn(LZ)
    if f is None:
        ctx.anchor_missing(rid, LZ)
        return
    ctx.seen(f)
    masks = []
    clamps = []
    for b, blk in enumerate(f.blocks):
        if blk[2]:
            continue
        for st in blk[0]:
            if st[0] == "=" and st[2][0] == "bin" and st[2][1] == "BitAnd":
                for o in (st[2][2], st[2][3]):
                    k = op_const_int(o)
                    if k is not None and k >= 0xffff:
                        masks.append((k, st[3]))
        t = blk[1]
        if t[0] == "call":
            c = callee(t)
            if c and c["fn"] in ("core::cmp::Ord::min", "core::cmp::min"):
                for a in t[2]:
                    k = op_const_int(a)
                    if k is not None and k >= 0xffff:
                        clamps.append((k, t[-2]))
    # `(1 << 20) - 1` may be folded or computed: also accept the pair Shl(1, 20) / Sub(_, 1) feeding min
    W = (1 << 20) - 1
    if len(masks) < 3:
        ctx.bad(rid, "window-masks", "expected at least three window-position masks in the LZ77 decoder (copy source twice, write position), "
                "found %d" % len(masks), fn=f)
    elif any(k != W for k, _ in masks):
        k, pos = next((k, p) for k, p in masks if k != W)
        ctx.bad(rid, "window-masks", "a window position is masked with %#x, the window size is 2^20 (mask %#x): reader and writer disagree "
                "about where a symbol is stored" % (k, W), fn=f, pos=pos)
    else:
        ctx.ok(rid, "window-masks", "%d masks, all %#x" % (len(masks), W), nontrivial=True, fn=f)
    from ..validation import subject_name
    from ..mirutil import Defs
    defs = Defs(f)
    found = False
    for b, t in f.calls():
        c = callee(t)
        if c and c["fn"] in ("core::cmp::Ord::min", "core::cmp::min"):
            for a in t[2]:
                nm = subject_name(f, defs, a, use_names=False)
                if nm == W or str(nm) in ("((1<<20)-1)", str(W)):
                    found = True
    if found:
        ctx.ok(rid, "distance-clamp", "distance is clamped to 2^20 - 1", nontrivial=True, fn=f)
    else:
        ctx.bad(rid, "distance-clamp", "the LZ77 distance is not clamped to the window size 2^20 - 1", fn=f)


def rule_single_token(ctx):
    """the repeated-single-token shortcut is only offered when no LZ77 window has to be maintained"""
    from ..mirutil import const_walk
    from ..facts import op_place
    rid = "R-LZ77-SHORTCUT"
    ctx.rule(rid, "Decoder::single_token lets callers skip every read of a cluster that can only produce one token.  With LZ77 enabled the "
                  "skipped symbols would never enter the copy window (nor the decoded-symbol count), so a later copy reaching back into "
                  "them copies the wrong values: with the `lz77` field fixed to the Enabled variant, no path through single_token may "
                  "produce anything but None (constant propagation on MIR; calls that return an Option are treated as possibly Some)")
    cr = ctx.prog.crate("jxl_coding")
    f = cr.fn("jxl_coding::Decoder::single_token")
    adt = next((a for k, a in cr.adts.items() if k.endswith("::Lz77")), None)
    if f is None or adt is None:
        ctx.anchor_missing(rid, "jxl_coding::Decoder::single_token / Lz77")
        return
    ctx.seen(f)
    enabled = next((i for i, v in enumerate(adt["variants"]) if v["name"] == "Enabled"), None)
    if enabled is None:
        ctx.anchor_missing(rid, "Lz77::Enabled")
        return

    def last_field(p):
        fl = [e for e in p[1:] if isinstance(e, list) and e[0] == "."]
        return fl[-1][2] if fl else None

    seen_discr = [False]

    def discr(p):
        if last_field(p) == "lz77" or (len(p) >= 1 and "Lz77" in f.local_ty(p[0]) and not [e for e in p[1:] if isinstance(e, list) and e[0] == "."]):
            seen_discr[0] = True
            return enabled
        return None

    some_at = []

    def on_term(bb, t, e, val_of):
        for st in f.stmts(bb):
            if st[0] != "=" or st[1] != [0]:
                continue
            rv = st[2]
            if rv[0] == "agg" and rv[1][0] == "adt" and rv[1][1] == "core::option::Option" and rv[1][2] == "None":
                continue
            some_at.append((bb, st[3]))
        if t[0] == "call" and t[3] == [0]:
            some_at.append((bb, t[-2]))

    const_walk(f, 0, {}, on_term, discr=discr)
    if not seen_discr[0]:
        ctx.bad(rid, "shortcut-ignores-lz77", "Decoder::single_token no longer looks at the LZ77 mode before offering the shortcut", fn=f)
    elif some_at:
        ctx.bad(rid, "shortcut-with-lz77", "Decoder::single_token can answer Some(token) while LZ77 is enabled: callers then skip the reads of that "
                "cluster, the skipped symbols never enter the LZ77 window, and a later copy that reaches back into them is wrong",
                fn=f, pos=some_at[0][1])
    else:
        ctx.ok(rid, "shortcut-off-with-lz77", "with lz77 = Enabled every path returns None", nontrivial=True, fn=f)


def rule_finalize(ctx):
    """an entropy-coded stream that was read is finalised (ANS final-state check) on every successful exit"""
    from ..engine import LIB_CRATES
    from ..mirutil import find_path_edges, Defs, access_path
    from ..facts import op_local
    from .. import validation
    rid = "R-FINALIZE"
    ctx.rule(rid, "every function that owns a jxl_coding::Decoder (a local of that type, or the result of Decoder::parse kept in the "
                  "function) and reads from it reaches Decoder::finalize on every path from the first read to a successful return; the "
                  "two parsers that hand the decoder on inside the structure they return (MaConfig, HfPass) are exempt.  Without it a "
                  "corrupt ANS stream (wrong final state) is accepted")
    HANDED_ON = ("jxl_modular::ma::MaConfig", "jxl_vardct::hf_pass::HfPass")
    n = 0
    for f in ctx.prog.all_fns(LIB_CRATES):
        if f.kind == "Promoted":
            continue
        owned = {i for i, l in enumerate(f.locals) if l[0] == "jxl_coding::Decoder" and i > f.argc}
        if not owned:
            continue
        defs = Defs(f)
        uses, fins = [], set()
        for b, t in f.calls():
            c = callee(t)
            if not c or not c["fn"].startswith("jxl_coding::Decoder::") or not t[2]:
                continue
            a = op_local(t[2][0])
            ap = access_path(f, defs, a) if a is not None else None
            if not ap or ap[0] not in owned or ap[1]:
                continue
            m = c["fn"].split("::")[-1]
            if m == "finalize":
                fins.add(b)
            elif m not in ("parse", "parse_assume_no_lz77", "clone"):
                uses.append((b, m))
        if not uses:
            continue
        if any(h in f.path for h in HANDED_ON):
            ctx.ok(rid, "handed-on:%s" % f.path, "the decoder is stored in the parsed structure; its user finalises it", fn=f)
            continue
        n += 1
        ctx.seen(f)
        errs = validation.err_return_blocks(f)
        p = find_path_edges(f, [uses[0][0]], lambda x: f.term(x)[0] == "ret", avoid_block=lambda x: x in fins or x in errs)
        key = "finalize:%s" % f.path
        if p is None and fins:
            ctx.ok(rid, key, "%d reads, every successful exit passes finalize()" % len(uses), nontrivial=True, fn=f)
        else:
            ctx.bad(rid, key + "|exit-without-finalize", "%s reads from its entropy decoder and can return successfully without calling "
                    "Decoder::finalize(): the ANS final-state check is skipped on that path, so a corrupt stream is accepted" % f.path,
                    fn=f, path=p)
    ctx.count(rid + ".owners", n)
    ctx.floor(rid + ".owners", 2)


def rule_symbol_refill(ctx):
    """every symbol read goes through the table reader, which is what refills the bit buffer"""
    from ..mirutil import find_path_edges
    rid = "R-SYMBOL-REFILL"
    ctx.rule(rid, "Coder::read_symbol is followed by read_uint_prefilled, which takes the raw bits of a hybrid integer with "
                  "peek_bits_prefilled / consume_bits - readers that do not refill the bit buffer and rely on the symbol read having "
                  "done so.  Every path of Coder::read_symbol to a normal return therefore passes through prefix::Histogram::read_symbol or "
                  "ans::Histogram::read_symbol (or another Bitstream read); a shortcut that returns a symbol without touching the "
                  "stream (single-symbol histograms) lets consecutive raw-bit reads run the buffer dry: a spurious end-of-data on a "
                  "valid stream")
    f = ctx.prog.crate("jxl_coding").fn("jxl_coding::Coder::read_symbol")
    if f is None:
        ctx.anchor_missing(rid, "jxl_coding::Coder::read_symbol")
        return
    ctx.seen(f)
    readers = {b for b, t in f.calls() if callee(t) and (callee(t)["fn"].endswith("Histogram::read_symbol")
                                                          or ("Bitstream" in callee(t)["fn"] and callee(t)["fn"].split("::")[-1] in
                                                              ("read_bits", "peek_bits", "refill", "peek_bits_const", "read_bool")))}
    symbol_readers = {b for b, t in f.calls() if callee(t) and callee(t)["fn"].endswith("Histogram::read_symbol")}
    ctx.count(rid + ".table-readers", len(symbol_readers))
    if not symbol_readers:
        ctx.anchor_missing(rid, "calls of Histogram::read_symbol in Coder::read_symbol")
        return
    rets = [b for b, blk in enumerate(f.blocks) if not blk[2] and blk[1][0] == "ret"]
    # an error exit (`?` on the ANS state initialisation: FromResidual::from_residual, or an explicit Err) is a legitimate way out
    # without a symbol; MIR funnels all exits into one return block, so the error-propagation blocks are avoided rather than the return
    from .. import validation
    errs = set(validation.err_return_blocks(f))
    errs |= {b for b, t in f.calls() if callee(t) and callee(t)["fn"].endswith("FromResidual::from_residual")}
    p = find_path_edges(f, [0], lambda x: x in rets, avoid_block=lambda x: x in symbol_readers or x in errs)
    if p is None:
        ctx.ok(rid, "every-symbol-through-table-reader", "%d table readers; no successful return bypasses them" % len(symbol_readers), nontrivial=True, fn=f)
    else:
        ctx.bad(rid, "symbol-without-stream-read", "Coder::read_symbol can return a symbol without calling Histogram::read_symbol: nothing "
                "refills the bit buffer before the raw bits of the hybrid integer are taken", fn=f, path=p)
    ctx.floor(rid + ".table-readers", 2)


def rule_prevsym_commit(ctx):
    """the code-length decoder remembers every symbol it read as the previous symbol"""
    from ..facts import op_local, op_place
    from ..mirutil import Defs, find_path_edges
    rid = "R-PREVSYM-COMMIT"
    ctx.rule(rid, "prefix::Histogram::parse_complex: a repeat code (16 / 17) extends the running repeat only if the symbol read "
                  "immediately before it was the same repeat code (RFC 7932 3.5).  The decoder keeps that symbol in a local that is "
                  "compared with 16 and 17; every path from a read of a code-length symbol to the next read must pass the store of "
                  "that symbol into the local - for every symbol value, literal 0 included.  An arm that skips the store lets "
                  "`17, 0, 17` chain as if the zero had not been there and builds a different code")
    cr = ctx.prog.crate("jxl_coding")
    fs = [g for g in cr.fn_list if g.path.endswith("prefix::Histogram::parse_complex")]
    if len(fs) != 1:
        ctx.anchor_missing(rid, "jxl_coding::prefix::Histogram::parse_complex")
        return
    f = fs[0]
    ctx.seen(f)
    defs = Defs(f)
    reads = [(b, t) for b, t in f.calls() if callee(t) and callee(t)["fn"].endswith("Histogram::read_symbol") and t[4] is not None]
    # locals compared with both 16 and 17
    cmp16, cmp17 = set(), set()
    for b, blk in enumerate(f.blocks):
        if blk[2]:
            continue
        for st in blk[0]:
            if st[0] == "=" and st[2][0] == "bin" and st[2][1] in ("Eq", "Ne"):
                for x, y in ((st[2][2], st[2][3]), (st[2][3], st[2][2])):
                    k = op_const_int(y)
                    l = op_local(x)
                    if k in (16, 17) and l is not None:
                        d = defs.single(l)
                        src = op_local(d[3][2][1]) if d and d[2] == "assign" and d[3][2][0] == "use" else l
                        (cmp16 if k == 16 else cmp17).add(src if src is not None else l)
    prevs = cmp16 & cmp17
    found = 0
    for rb, rt in reads:
        # the symbol local: the read's result, through `?` and the narrowing cast
        syms, work = set(), [rt[3][0]] if rt[3] and len(rt[3]) == 1 else []
        while work:
            x = work.pop()
            if x in syms:
                continue
            syms.add(x)
            for b, blk in enumerate(f.blocks):
                if blk[2]:
                    continue
                for st in blk[0]:
                    if st[0] == "=" and len(st[1]) == 1 and st[2][0] in ("use", "cast"):
                        pl = op_place(st[2][1] if st[2][0] == "use" else st[2][2])
                        if pl and pl[0] == x:
                            work.append(st[1][0])
                t = blk[1]
                if t[0] == "call" and t[3] and len(t[3]) == 1 and callee(t) and callee(t)["fn"].split("::")[-1] in ("branch", "from", "into") and any(op_local(a) == x for a in t[2]):
                    work.append(t[3][0])
        commit = set()
        for p in prevs & syms:
            for d in defs.of(p):
                if not f.is_cleanup(d[0]) and d[2] == "assign" and d[3][2][0] == "use" and op_local(d[3][2][1]) in syms and op_local(d[3][2][1]) != p:
                    commit.add(d[0])
        if not commit:
            continue
        found += 1
        p = find_path_edges(f, [rt[4]], lambda x: x == rb, avoid_block=lambda x: x in commit)
        if p is None:
            ctx.ok(rid, "prev-symbol-stored", "every path from the symbol read to the next read passes the store of the previous-symbol local (%d store block(s))" % len(commit),
                   nontrivial=True, fn=f)
        else:
            ctx.bad(rid, "prev-symbol-stored|skipped", "a path from the code-length symbol read to the next read does not store the symbol as the previous "
                    "symbol: a repeat code after it chains with the repeat before it", fn=f, pos=rt[-2])
    ctx.count(rid + ".reads", found)
    if not found:
        ctx.anchor_missing(rid, "the previous-symbol local (compared with 16 and 17, assigned from the symbol read) in parse_complex")


def rule_hybrid_config(ctx):
    """IntegerConfig::parse, evaluated from MIR against a scripted bit source, reads the format's HybridUintConfig layout"""
    from .. import absint
    rid = "R-HYBRID-CONFIG"
    ctx.rule(rid, "jxl_coding::IntegerConfig::parse is evaluated from MIR (nothing is run) with Bitstream::read_bits replaced by a scripted "
                  "source, for every log_alphabet_size in {5, 6, 7, 8, 15} x every split_exponent the field can hold x every msb_in_token "
                  "x every lsb_in_token its field can hold, and compared with ISO/IEC 18181-1 C.2.3 (HybridUintConfig): "
                  "split_exponent = u(ceil(log2(log_alphabet_size + 1))); msb_in_token = u(ceil(log2(split_exponent + 1))) and "
                  "lsb_in_token = u(ceil(log2(split_exponent - msb_in_token + 1))) are present exactly when split_exponent != "
                  "log_alphabet_size - also when it is larger; msb > split and msb + lsb > split are rejected.  Both the number and "
                  "the widths of the reads and the resulting fields are compared: a field that is skipped leaves every later bit of "
                  "the stream misaligned")
    cr = ctx.prog.crate("jxl_coding")
    fs = [g for g in cr.fn_list if g.path.endswith("IntegerConfig::parse") and g.kind == "AssocFn"]
    adt = cr.adts.get("jxl_coding::IntegerConfig")
    if len(fs) != 1 or fs[0].argc != 2 or adt is None:
        ctx.anchor_missing(rid, "jxl_coding::IntegerConfig::parse(bitstream, log_alphabet_size)")
        return
    f = fs[0]
    ctx.seen(f)
    names = [x[0] for x in adt["variants"][0]["fields"]]
    if not {"split_exponent", "msb_in_token", "lsb_in_token"} <= set(names):
        ctx.anchor_missing(rid, "IntegerConfig { split_exponent, msb_in_token, lsb_in_token, .. }")
        return

    def clog(v):            # ceil(log2(v + 1))
        return v.bit_length()

    rows, bad, undec = 0, None, None
    for las in (5, 6, 7, 8, 15):
        for se in range(1 << clog(las)):
            variants = [None]
            if se != las:
                variants = [(m, l) for m in range(1 << clog(se)) for l in (range(1 << clog(se - m)) if m <= se else [0])]
            for ml in variants:
                script, widths = [se], [clog(las)]
                want = None
                if ml is None:
                    want = (se, 0, 0)
                else:
                    m, l = ml
                    script.append(m)
                    widths.append(clog(se))
                    if m <= se:
                        script.append(l)
                        widths.append(clog(se - m))
                        want = (se, m, l) if m + l <= se else None
                log, it = [], iter(script)

                def rb(args, log=log, it=it):
                    n = args[1] if len(args) > 1 else None
                    log.append(n)
                    try:
                        v = next(it)
                    except StopIteration:
                        return absint.Enum("core::result::Result", 0, "Ok", [0])
                    return absint.Enum("core::result::Result", 0, "Ok", [v])
                ev = absint.Evaluator(ctx.prog)
                ev.intercept = {"Bitstream::<'_>::read_bits": rb, "Bitstream::read_bits": rb}
                try:
                    r = ev.call_fn(f, [absint.Ref(("ext", "bitstream")), las])
                except absint.Unsupported as e:
                    undec = "log_alphabet_size %d, split_exponent %d: %s" % (las, se, e)
                    break
                rows += 1
                got = None
                if isinstance(r, absint.Enum) and r.name == "Ok" and isinstance(r.fields[0], absint.Struct):
                    d = dict(zip(names, r.fields[0].fields))
                    got = (d["split_exponent"], d["msb_in_token"], d["lsb_in_token"])
                elif not (isinstance(r, absint.Enum) and r.name == "Err"):
                    undec = "log_alphabet_size %d, split_exponent %d: result %r" % (las, se, r)
                    break
                if (got != want or log != widths) and bad is None:
                    bad = (las, se, ml, log, got, widths, want)
            if undec:
                break
        if undec:
            break
    ctx.count(rid + ".rows", rows)
    if undec:
        ctx.bad(rid, "parse|not-evaluable", "IntegerConfig::parse is no longer a function the evaluator can decide (%s)" % undec, fn=f)
        return
    ctx.floor(rid + ".rows", 400)
    if bad:
        las, se, ml, log, got, widths, want = bad
        ctx.bad(rid, "parse|layout", "log_alphabet_size %d, split_exponent %d%s: reads of widths %s give %s, the format reads widths %s and gives %s "
                "(None = rejected)" % (las, se, "" if ml is None else ", msb_in_token %d, lsb_in_token %d" % ml, log, got, widths, want), fn=f)
    else:
        ctx.ok(rid, "parse|layout", "%d field combinations: read widths and fields equal the format's HybridUintConfig" % rows, nontrivial=True, fn=f)


def rule_clusters_eval(ctx):
    """read_clusters, evaluated from MIR with scripted reads, decodes the context map of the format"""
    from .. import absint
    rid = "R-CLUSTER-MAP"
    ctx.rule(rid, "jxl_coding::read_clusters is evaluated from MIR (nothing is run) with the bit reads and the nested entropy decoder "
                  "replaced by scripted sources, and compared with ISO/IEC 18181-1 C.2.2 (distribution clustering): one distribution "
                  "-> one cluster without reading anything; the simple form reads nbits = u(2) and one u(nbits) per distribution; "
                  "the general form reads use_mtf and one symbol per distribution from a nested one-context decoder, rejects a symbol "
                  "above 255, and applies the inverse move-to-front transform when asked; the number of clusters is the largest "
                  "index + 1 and every index below it must occur")
    cr = ctx.prog.crate("jxl_coding")
    f = cr.fn("jxl_coding::read_clusters")
    if f is None or f.argc != 2:
        ctx.anchor_missing(rid, "jxl_coding::read_clusters(bitstream, num_dist)")
        return
    ctx.seen(f)

    def imtf(syms):
        m = list(range(256))
        out = []
        for s_ in syms:
            v = m[s_]
            out.append(v)
            del m[s_]
            m.insert(0, v)
        return out

    def verdict(cl):
        n = max(cl) + 1
        return ("ok", n, cl) if len(set(cl)) == n else ("err",)
    cases = [("one distribution", 1, [], [], ("ok", 1, [0]))]
    for nbits, vals in ((0, [0, 0, 0]), (1, [0, 1, 1, 0]), (2, [3, 0, 2, 1, 1]), (2, [0, 2, 2]), (3, [0, 1]), (1, [1, 1])):
        cases.append(("simple form, nbits %d, %s" % (nbits, vals), len(vals), [1, nbits] + [v & ((1 << nbits) - 1) for v in vals], [],
                      verdict([v & ((1 << nbits) - 1) for v in vals])))
    for mtf, syms in ((0, [0, 1, 2, 1, 0]), (0, [0, 0]), (0, [2, 0, 2]), (0, [0, 1, 255]), (1, [0, 1, 1, 2, 0, 3]), (1, [1, 1, 1]), (1, [0, 0, 0, 0]),
                      (1, [2, 2, 2, 0, 1]), (1, [1, 0]), (0, [0, 1, 256]), (1, [0, 300, 1]), (1, [3, 0, 3, 3, 1, 2, 0])):
        if max(syms) > 255:
            want = ("err",)
        else:
            want = verdict(imtf(syms) if mtf else list(syms))
        cases.append(("general form, use_mtf %d, symbols %s" % (mtf, syms), len(syms), [0, mtf], list(syms), want))
    rows, bad, undec = 0, None, None
    for name, nd, bits, syms, want in cases:
        bi, si = iter(bits), iter(syms)
        log = []

        def rb(args, bi=bi, log=log):
            log.append(args[1] if len(args) > 1 else "bool")
            try:
                v = next(bi)
            except StopIteration:
                v = 0       # reads past the script belong to the nested decoder's own header when its parser is inlined (benign N04)
            return absint.Enum("core::result::Result", 0, "Ok", [v])

        def rv(args, si=si):
            try:
                return absint.Enum("core::result::Result", 0, "Ok", [next(si)])
            except StopIteration:
                raise absint.Unsupported("more symbols read than there are distributions")
        okunit = lambda args: absint.Enum("core::result::Result", 0, "Ok", [()])
        okdec = lambda args: absint.Enum("core::result::Result", 0, "Ok", [absint.Struct([])])
        ev = absint.Evaluator(ctx.prog)
        ev.max_steps = 400000
        ev.intercept = {"Bitstream::<'_>::read_bits": rb, "Bitstream::read_bits": rb, "Bitstream::<'_>::read_bool": rb, "Bitstream::read_bool": rb,
                        "Decoder::parse": okdec, "Decoder::parse_assume_no_lz77": okdec, "DecoderInner::parse": okdec, "Decoder::begin": okunit, "Decoder::finalize": okunit,
                        "Decoder::read_varint": rv}
        try:
            r = ev.call_fn(f, [absint.Ref(("ext", "bitstream")), nd])
        except absint.Unsupported as e:
            undec = "case `%s`: %s" % (name, e)
            break
        rows += 1
        got = None
        if isinstance(r, absint.Enum) and r.name == "Err":
            got = ("err",)
        elif isinstance(r, absint.Enum) and r.name == "Ok" and isinstance(r.fields[0], tuple) and len(r.fields[0]) == 2:
            n_, cl = r.fields[0]
            cl = cl.items() if isinstance(cl, absint.BufView) else list(cl) if isinstance(cl, (tuple, list)) else None
            got = ("ok", n_, cl)
        if got is None:
            undec = "case `%s`: result %r" % (name, r)
            break
        leftover = (len(list(bi)) + len(list(si))) if want[0] == "ok" else 0      # a rejection may stop reading early
        if name.startswith("simple form") and want[0] == "ok":
            nb = bits[1]
            if log != ["bool", 2] + [nb] * nd:
                leftover = -1       # the simple form reads exactly u(1), u(2) and one u(nbits) per distribution
        if (got != want or leftover) and bad is None:
            bad = (name, got, want, leftover)
    ctx.count(rid + ".cases", rows)
    if undec:
        ctx.bad(rid, "read_clusters|not-evaluable", "read_clusters is no longer a function the evaluator can decide (%s)" % undec, fn=f)
        return
    ctx.floor(rid + ".cases", 19)
    if bad:
        ctx.bad(rid, "read_clusters|context-map", "%s: decodes to %s, the format gives %s (%d scripted reads left unread): every later symbol "
                "of the stream is read with the wrong distribution" % bad, fn=f)
    else:
        ctx.ok(rid, "read_clusters|context-map", "%d cases: cluster count and map equal the format's, holes and symbols above 255 rejected" % rows,
               nontrivial=True, fn=f)


def main(pid, tier, repo=None):
    ctx = Ctx(pid, tier, configs=("workspace",), repo=repo)
    specconst.run(ctx, pid, floor=2)
    rule_checks(ctx)
    rule_lz77_window(ctx)
    rule_single_token(ctx)
    rule_finalize(ctx)
    rule_symbol_refill(ctx)
    rule_prevsym_commit(ctx)
    rule_hybrid_config(ctx)
    rule_clusters_eval(ctx)
    ctx.not_decided("that decoding returns exactly the encoded sequence and consumes exactly the encoded bits for every distribution set "
                    "(alias table construction, two-level prefix tables, hybrid-integer expansion, RLE / single-token shortcuts): value-level")
    return ctx.finish(
        "Claimed narrowly: three structural necessary conditions. The format's tables used by the entropy decoder (LZ77 special distances, "
        "code-length order) have the specified values (rustc-evaluated constants vs references transcribed from the standards); the "
        "acceptance checks named by the property (ANS final state 0x130000, complete prefix codes, distribution sums, cluster holes, "
        "Lehmer digits) exist as compare->error; the LZ77 window constants agree between writer, reader and distance clamp; the single-token shortcut is "
        "never offered while LZ77 is enabled (R-LZ77-SHORTCUT). Round-trip equality is not decided.")

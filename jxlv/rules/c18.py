"""C18 — the embedded ICC profile is returned byte-exactly (claimed narrowly: the rejection clause):
R-ICC-REJECT — the consistency checks of the ICC stream decoder exist as compare -> error checks."""
from .. import validation
from ..engine import Ctx
from ..facts import callee
from ..mirutil import strip_generics

READ = "jxl_color::icc::decode::read_icc"
DEC = "jxl_color::icc::decode::decode_icc"
TABLE = [
    (READ, "enc_size > 268435456", 1, "encoded size limit"),
    (READ, "sym > 255", 2, "decoded symbols are bytes"),
    (READ, "(stream_offset+commands_size) > enc_size", 1, "command stream lies inside the encoded data"),
    (READ, "output_size > 268435456", 1, "declared profile size limit"),
    (READ, "(output_size+65536) < enc_size", 1, "encoded size consistent with the declared output size"),
    (DEC, "(stream_offset+commands_size) > len(stream)", 1, "command stream inside the buffer (slice split)"),
    (DEC, "output_size > 268435456", 1, "declared profile size limit"),
    (DEC, "len(data) < header_size", 1, "header bytes available"),
    (DEC, "((output_size-128)/12) < num_tags", 1, "tag count fits the declared size"),
    (DEC, "tagcode < 2", 1, "unknown tag code"),
    (DEC, "tagcode > 20", 1, "unknown tag code"),
    (DEC, "len(data) < 4", 1, "tag signature bytes available"),
    (DEC, "(tagstart+tagsize) > output_size", 1, "tag lies inside the profile"),
    (DEC, "command < 16", 1, "unknown main-content command"),
    (DEC, "command > 23", 1, "unknown main-content command"),
    (DEC, "num > len(data)", 2, "raw copy length available"),
    (DEC, "width == 3", 1, "predicted-run element width is 1, 2 or 4"),
    (DEC, "order == 3", 1, "predictor order is 0..2"),
    (DEC, "stride < width", 1, "stride at least the element width"),
    (DEC, "len(data) < num", 1, "predicted-run data available"),
    (DEC, "len(data) < 12", 1, "fixed-size command data available"),
    (DEC, "len(out) != output_size", 1, "decoded size equals the declared size"),
]


FIXED20 = [b"rXYZ", b"gXYZ", b"bXYZ", b"kXYZ", b"wtpt", b"bkpt", b"lumi"]
OTHER_NAMES = [b"rTRC", b"gTRC", b"bTRC", b"kTRC", b"cprt", b"chad", b"desc", b"chrm", b"dmnd", b"dmdd", b"XYZ ", b"abcd", b"wtpu", b"lumj"]


def rule_tagsize(ctx):
    """implicit tag size: a function of the tag *name* (ISO/IEC 18181-1: 20 for the seven XYZ-type tags, else the previous size)"""
    from ..facts import op_local, op_place, op_const_int, callee
    rid = "R-ICC-TAGSIZE"
    ctx.rule(rid, "decode_icc, tag list: when the command carries no explicit size, the size is 20 exactly for the tag names rXYZ, gXYZ, bXYZ, "
                  "kXYZ, wtpt, bkpt, lumi and the previous tag's size otherwise - whichever way the name was coded (shortcut code or raw "
                  "name). Decided by walking the MIR decision tree from the `no explicit size` edge with the bytes of `tag` fixed to each "
                  "of 21 candidate names; a decision that depends on anything else than the name forks and is reported")
    f = ctx.prog.fn(DEC)
    if f is None:
        ctx.anchor_missing(rid, DEC)
        return
    ctx.seen(f)
    # identify the locals structurally (names are not relied upon): `tagsize` is assigned the constant 20 in one place and a copy of
    # another local P elsewhere, where P is in turn assigned from it (the loop-carried previous size); `tag` is the byte slice whose
    # elements the decision tree switches on
    tsz = prev = tag = None
    for b, blk in enumerate(f.blocks):
        if blk[2]:
            continue
        for st in blk[0]:
            if st[0] == "=" and len(st[1]) == 1 and st[2][0] == "use" and op_const_int(st[2][1]) == 20 and f.local_ty(st[1][0]) == "u32":
                cand = st[1][0]
                for blk2 in f.blocks:
                    for st2 in blk2[0]:
                        if st2[0] == "=" and st2[1] == [cand] and st2[2][0] == "use" and op_local(st2[2][1]) is not None:
                            p_ = op_local(st2[2][1])
                            back = any(st3[0] == "=" and st3[1] == [p_] and st3[2][0] == "use" and
                                       (op_local(st3[2][1]) == cand or any(st4[0] == "=" and st4[1] == [op_local(st3[2][1])] and st4[2][0] == "use"
                                                                           and op_local(st4[2][1]) == cand for bl4 in f.blocks for st4 in bl4[0]))
                                       for bl3 in f.blocks for st3 in bl3[0])
                            if back:
                                tsz, prev = cand, p_
    if tsz is None or prev is None:
        ctx.anchor_missing(rid, "the implicit tag size decision (a u32 assigned 20 / the previous size) in decode_icc")
        return
    from ..mirutil import Defs
    defs = Defs(f)
    col = ctx.prog.crate("jxl_color")

    def aliases(g, seeds):
        """locals of g that are the same slice reference as one of `seeds` (copies, reborrows)"""
        out = set(seeds)
        changed = True
        while changed:
            changed = False
            for blk in g.blocks:
                for st in blk[0]:
                    if st[0] != "=" or len(st[1]) != 1 or st[1][0] in out:
                        continue
                    rv = st[2]
                    src = None
                    if rv[0] == "use":
                        pl = op_place(rv[1])
                        src = pl[0] if pl is not None and len(pl) == 1 else None
                    elif rv[0] == "ref" and len(rv[2]) == 2 and rv[2][1] == "*":
                        src = rv[2][0]
                    elif rv[0] == "cast":
                        pl = op_place(rv[2])
                        src = pl[0] if pl is not None and len(pl) == 1 else None
                    if src in out:
                        out.add(st[1][0])
                        changed = True
        return out

    def is_byte_place(pl):
        return pl is not None and len(pl) == 3 and pl[1] == "*" and isinstance(pl[2], list) and pl[2][0] == "[c]"

    def name_tests(g):
        """slice locals of g whose bytes g switches on (directly, or in a helper of this crate it passes the slice to)"""
        out = {}
        for bb, blk in enumerate(g.blocks):
            t = blk[1]
            if t[0] == "switch" and is_byte_place(op_place(t[1])):
                out.setdefault(op_place(t[1])[0], []).append(bb)
            elif t[0] == "call" and callee(t) and g is f:
                h = col.fn(callee(t).get("res") or callee(t)["fn"]) or col.fn(callee(t)["fn"])
                if h is not None and h.path != g.path and h.local_ty(0) == "bool":
                    inner = name_tests(h)
                    for i, a in enumerate(t[2]):
                        al = op_local(a)
                        if al is not None and any(x in aliases(h, {i + 1}) for x in inner):
                            out.setdefault(al, []).append(bb)
        return out

    c20 = [b for b, blk in enumerate(f.blocks) for st in blk[0] if st[0] == "=" and st[1] == [tsz] and st[2][0] == "use" and op_const_int(st[2][1]) == 20]
    reach20 = {}
    for l, bbs in name_tests(f).items():
        for bb in bbs:
            frontier, seen_ = [bb], set()
            for _ in range(8):
                nxt = []
                for x in frontier:
                    for y in f.succs(x):
                        if y not in seen_:
                            seen_.add(y)
                            nxt.append(y)
                frontier = nxt
            if any(x in seen_ for x in c20):
                reach20[l] = reach20.get(l, 0) + 1
    if not reach20:
        ctx.bad(rid, "implicit-size-by-name", "the implicit tag size 20 is no longer decided by examining the tag *name* (no test on the bytes of "
                "the tag leads to it): a tag spelled with a raw name, or a shortcut code, gets a different size than the format defines", fn=f)
        return
    tag0 = max(reach20, key=reach20.get)
    # root of the alias class: the local every alias was copied from
    root = tag0
    for _ in range(6):
        d = defs.single(root)
        if d and d[2] == "assign":
            rv = d[3][2]
            pl = op_place(rv[1]) if rv[0] == "use" else (rv[2] if rv[0] == "ref" and len(rv[2]) == 2 and rv[2][1] == "*" else None)
            if pl is not None and (len(pl) == 1 or rv[0] == "ref"):
                root = pl[0]
                continue
        break
    tagset = aliases(f, {root, tag0})
    # assignments of tagsize
    kinds = {}
    for b, blk in enumerate(f.blocks):
        if blk[2]:
            continue
        for st in blk[0]:
            if st[0] == "=" and st[1] == [tsz]:
                rv = st[2]
                if rv[0] == "use" and op_const_int(rv[1]) is not None:
                    kinds[b] = "const:%d" % op_const_int(rv[1])
                elif rv[0] == "use" and op_local(rv[1]) == prev:
                    kinds[b] = "prev"
                else:
                    kinds[b] = "explicit"
    # the `command & 128` decision (the flag may be tested where it is computed, or kept in a local and tested later)
    start = None
    for b, blk in enumerate(f.blocks):
        t = blk[1]
        if t[0] != "switch" or blk[2]:
            continue
        cur = op_local(t[1])
        cmp_rv = None
        for _ in range(5):
            d = defs.single(cur) if cur is not None else None
            if not d or d[2] != "assign":
                break
            rv = d[3][2]
            if rv[0] == "use":
                cur = op_local(rv[1])
                continue
            if rv[0] == "bin" and rv[1] in ("Ne", "Eq"):
                cmp_rv = rv
            break
        if cmp_rv is None or not (op_const_int(cmp_rv[3]) == 0 or op_const_int(cmp_rv[2]) == 0):
            continue
        ml = op_local(cmp_rv[2]) if op_const_int(cmp_rv[3]) == 0 else op_local(cmp_rv[3])
        md = defs.single(ml) if ml is not None else None
        if not (md and md[2] == "assign" and md[3][2][0] == "bin" and md[3][2][1] == "BitAnd"
                and 128 in (op_const_int(md[3][2][2]), op_const_int(md[3][2][3]))):
            continue
        zero = [x for v, x in t[2] if v == "0"]
        if zero:
            # Ne(..,0): '0' edge = flag clear ; Eq(..,0): '0' edge = flag set
            start = zero[0] if cmp_rv[1] == "Ne" else t[3]
    if start is None or not kinds:
        ctx.anchor_missing(rid, "the explicit-size flag test (command & 128) in decode_icc")
        return

    def walk(g, start_b, tags, name, stops, level=0):
        """labels reached from start_b with the bytes of the slice `tags` fixed to `name`: stops[block] labels, `return` (top level) or
        `ret:<value>` (helper)"""
        seen = set()
        out = set()
        work = [(start_b, ())]

        def tag_byte(p):
            if is_byte_place(p) and p[0] in tags and not p[2][3]:
                i = p[2][1]
                return name[i] if i < len(name) else None
            return None

        def opval(o, env):
            k = op_const_int(o)
            if k is not None:
                return k
            l = op_local(o)
            if l is not None:
                return env.get(l)
            return tag_byte(op_place(o))

        while work:
            b, envt = work.pop()
            if (b, envt) in seen or len(seen) > 4000:
                continue
            seen.add((b, envt))
            if b in stops:
                out.add(stops[b])
                continue
            env = dict(envt)
            blk = g.blocks[b]
            for st in blk[0]:
                if st[0] != "=" or len(st[1]) != 1:
                    continue
                rv = st[2]
                val = None
                if rv[0] == "un" and rv[1] == "PtrMetadata" and op_local(rv[2]) in tags:
                    val = len(name)
                elif rv[0] == "use":
                    val = op_const_int(rv[1])
                    if val is None:
                        l = op_local(rv[1])
                        if l is not None:
                            val = env.get(l)
                        else:
                            val = tag_byte(op_place(rv[1]))
                elif rv[0] == "un" and rv[1] == "Not":
                    x = opval(rv[2], env)
                    val = None if x is None else int(not x)
                elif rv[0] == "bin" and rv[1] in ("Eq", "Ne", "Lt", "Le", "Gt", "Ge"):
                    x = opval(rv[2], env)
                    y = opval(rv[3], env)
                    if x is not None and y is not None:
                        val = int({"Eq": x == y, "Ne": x != y, "Lt": x < y, "Le": x <= y, "Gt": x > y, "Ge": x >= y}[rv[1]])
                if val is None:
                    env.pop(st[1][0], None)
                else:
                    env[st[1][0]] = val
            t = blk[1]
            if t[0] == "switch":
                v = opval(t[1], env)
                et = tuple(sorted(env.items()))
                if v is not None:
                    tgt = t[3]
                    for val, x in t[2]:
                        if int(val) == v:
                            tgt = x
                    work.append((tgt, et))
                else:
                    for x in g.succs(b):
                        work.append((x, et))
            elif t[0] == "ret":
                out.add("return" if level == 0 else "ret:%s" % env.get(0))
            elif t[0] == "call" and t[4] is not None:
                dest = t[3][0] if t[3] and len(t[3]) == 1 else None
                if dest is not None:
                    env.pop(dest, None)
                c = callee(t)
                h = (col.fn(c.get("res") or c["fn"]) or col.fn(c["fn"])) if c else None
                if h is not None and level < 2 and dest is not None and h.path != g.path and len(h.blocks) < 300:
                    hargs = {i + 1 for i, a in enumerate(t[2]) if op_local(a) in tags}
                    if hargs:
                        rets = walk(h, 0, aliases(h, hargs), name, {}, level + 1)
                        if len(rets) == 1:
                            r = next(iter(rets))
                            if r.startswith("ret:") and r[4:].isdigit():
                                env[dest] = int(r[4:])
                work.append((t[4], tuple(sorted(env.items()))))
            else:
                et = tuple(sorted(env.items()))
                for x in g.succs(b):
                    if not g.is_cleanup(x):
                        work.append((x, et))
        return out

    def outcomes(name):
        return walk(f, start, tagset, name, kinds)

    bad = []
    for nm in FIXED20 + OTHER_NAMES:
        got = outcomes(nm)
        want = {"const:20"} if nm in FIXED20 else {"prev"}
        if got != want:
            bad.append((nm.decode(), sorted(got), sorted(want)))
    if bad:
        nm, got, want = bad[0]
        ctx.bad(rid, "implicit-size-by-name", "the implicit size of a tag is not a function of its name as the format defines it: for tag `%s` "
                "without an explicit size the decoder reaches %s, required %s (%d of %d candidate names differ): the tag table of the "
                "returned profile is wrong for some valid encodings" % (nm, got, want, len(bad), len(FIXED20 + OTHER_NAMES)), fn=f)
    else:
        ctx.ok(rid, "implicit-size-by-name", "21 candidate names: 20 exactly for the seven fixed-size tags, previous size otherwise", nontrivial=True, fn=f)


def rule_predshift(ctx):
    """predicted runs: the part of the prediction added to byte j of an element depends on the element width only"""
    from ..symexpr import Sym, show
    from ..facts import callee
    rid = "R-ICC-PREDSHIFT"
    ctx.rule(rid, "decode_icc, command 4 (predicted run): byte j of an element receives bits 8*(width-1-j).. of the predicted value, where "
                  "width is the element width coded in the command flags (flags & 3) + 1 - also for a trailing partial element, whose "
                  "bytes are the most significant ones.  The shift amount, in the symbolic normal form of the MIR expression, must be "
                  "derived from `flags & 3` and must not depend on the length of any slice (number of bytes present)")
    f = ctx.prog.fn(DEC)
    if f is None:
        ctx.anchor_missing(rid, DEC)
        return
    ctx.seen(f)
    sym = Sym(f)
    sites = []
    for b, t in f.calls():
        c = callee(t)
        if c and c["fn"].endswith("Shr::shr") and "Wrapping<u32>" in str(c.get("res", "")) and len(t[2]) == 2:
            sites.append((b, t, sorted(show(x) for x in sym.operand(t[2][1]))))
    if not sites:
        ctx.anchor_missing(rid, "the `prediction >> amount` of the predicted-run loop in decode_icc")
        return
    for b, t, forms in sites:
        txt = " | ".join(forms)
        if "len(" in txt:
            ctx.bad(rid, "shift-depends-on-length", "the shift applied to the predicted value depends on a slice length (%s): a trailing partial "
                    "element of a predicted run gets the low-order bytes of the prediction, not the high-order ones" % txt[:160], fn=f, pos=t[-2])
        elif "& 3" not in txt:
            ctx.bad(rid, "shift-not-from-width", "the shift applied to the predicted value is not derived from the element width of the command "
                    "(flags & 3): %s" % txt[:160], fn=f, pos=t[-2])
        else:
            ctx.ok(rid, "shift-from-width", "amount = %s" % txt[:120], nontrivial=True, fn=f)


def rule_headerpred(ctx):
    """the ICC header predictor, evaluated from MIR for every header position, equals the format's predictor"""
    from .. import absint
    rid = "R-ICC-HEADERPRED"
    ctx.rule(rid, "the first 128 bytes of an embedded profile are coded as residuals of a fixed prediction (ISO/IEC 18181-1 ICC header "
                  "prediction: output size in bytes 0..3, 4 at 8, `mntrRGB XYZ ` at 12..23, `acsp` at 36..39, the platform signature "
                  "completed from its first one or two bytes (A->APPL, M->MSFT, SG->SGI_, SU->SUNW), 246 214 . 1 at 70..73, 211 45 at "
                  "78..79, bytes 80..83 = bytes 4..7, everything else 0).  jxl_color::icc::decode::predict_header is evaluated from "
                  "MIR (nothing is run; the evaluator interprets integer comparisons, constant byte strings, to_be_bytes and slice "
                  "indexing) for every position 0..127 under ten residual vectors that exercise each platform rule and its negation, and "
                  "two output sizes, and compared with the reference predictor applied to the bytes decoded so far")
    col = ctx.prog.crate("jxl_color")
    f = col.fn("jxl_color::icc::decode::predict_header")
    if f is None:
        ctx.anchor_missing(rid, "jxl_color::icc::decode::predict_header")
        return
    ctx.seen(f)
    if f.argc != 3 or not (f.local_ty(1) == "usize" and f.local_ty(2) == "u32" and "[u8]" in f.local_ty(3)):
        ctx.anchor_missing(rid, "predict_header(idx: usize, output_size: u32, header: &[u8])")
        return
    # the caller hands the residual slice itself as `header` and adds the prediction to the residual at the same position
    dec = col.fn("jxl_color::icc::decode::decode_icc")
    fam = [dec] + [g for g in col.fn_list if g.path.startswith(dec.path + "::{closure")] if dec else []
    sites = [t for g in fam for b, t in g.calls() if callee(t) and callee(t)["fn"].endswith("predict_header")]
    if len(sites) != 1:
        ctx.anchor_missing(rid, "the single call of predict_header in decode_icc or one of its closures (found %d)" % len(sites))
        return
    ctx.seen(dec)

    INIT = [0] * 128
    INIT[8] = 4
    for i, ch in enumerate(b"mntrRGB XYZ "):
        INIT[12 + i] = ch
    for i, ch in enumerate(b"acsp"):
        INIT[36 + i] = ch
    INIT[70], INIT[71], INIT[73], INIT[78], INIT[79] = 246, 214, 1, 211, 45

    def reference(osize, resid):
        """decoded header and the per-position predictions, by the format's rule (prediction from the bytes decoded so far)"""
        pred = list(INIT)
        pred[0:4] = [(osize >> 24) & 255, (osize >> 16) & 255, (osize >> 8) & 255, osize & 255]
        out, used = [], []
        for pos in range(len(resid)):
            if pos == 8:
                pred[80:84] = out[4:8]
            if pos == 41:
                if out[40] == ord("A"):
                    pred[41:44] = list(b"PPL")
                if out[40] == ord("M"):
                    pred[41:44] = list(b"SFT")
            if pos == 42:
                if out[40] == ord("S") and out[41] == ord("G"):
                    pred[42:44] = list(b"I ")
                if out[40] == ord("S") and out[41] == ord("U"):
                    pred[42:44] = list(b"NW")
            used.append(pred[pos])
            out.append((pred[pos] + resid[pos]) & 255)
        return out, used

    def vec(b40, b41, seed, n=128):
        v = [((i * 37 + seed * 11) ^ (i >> 2)) & 255 for i in range(n)]
        if n > 40:
            v[40] = b40
        if n > 41:
            v[41] = b41
        return v

    vectors = [vec(ord("A"), 0, 1), vec(ord("M"), 0, 2), vec(ord("S"), ord("G"), 3), vec(ord("S"), ord("U"), 4), vec(ord("S"), ord("x"), 5),
               vec(ord("S"), 0, 6), vec(ord("Q"), ord("G"), 7), vec(0, 0, 8), vec(ord("A"), ord("P"), 9, n=44), vec(ord("S"), ord("G"), 10, n=42)]
    rows, bad, undec = 0, [], None
    for osize in (0x01020304, 131):
        for vi, resid in enumerate(vectors):
            _out, used = reference(osize, resid)
            for idx in range(len(resid)):
                ev = absint.Evaluator(ctx.prog, ext=lambda path, r=resid: tuple(r) if path == ("header",) else absint.UNKNOWN)
                try:
                    got = ev.call_fn(f, [idx, osize, absint.Ref(("ext", "header"))])
                except absint.Unsupported as e:
                    undec = "position %d: %s" % (idx, e)
                    break
                rows += 1
                if got != used[idx]:
                    bad.append((idx, vi, resid[40], resid[41], got, used[idx]))
            if undec:
                break
        if undec:
            break
    ctx.count(rid + ".rows", rows)
    if undec:
        ctx.bad(rid, "predict_header|not-evaluable", "predict_header is no longer a function the evaluator can decide (%s); the header prediction "
                "table cannot be compared with the format" % undec, fn=f)
        return
    ctx.floor(rid + ".rows", 2 * (8 * 128 + 44 + 42))
    if not bad:
        ctx.ok(rid, "predict_header|table", "%d evaluations: every position's prediction equals the format's, for each platform rule and its negation" % rows,
               nontrivial=True, fn=f)
    else:
        idx, vi, b40, b41, got, want = bad[0]
        ctx.bad(rid, "predict_header|table", "position %d with header bytes 40, 41 = %d, %d: predicts %d, the format says %d (%d of %d evaluations differ): "
                "the byte of every profile of that kind is decoded wrongly" % (idx, b40, b41, got, want, len(bad), rows), fn=f)


def _icc_reference(stream, check_size=True):
    """the ICC stream interpreter of ISO/IEC 18181-1 (ICC annex), written from the format; returns ("ok", bytes) or ("err",)"""
    class Bad(Exception):
        pass

    def varint(buf, pos):
        v, sh = 0, 0
        while sh < 63:
            if pos >= len(buf):
                raise Bad()
            b = buf[pos]
            pos += 1
            v |= (b & 0x7f) << sh
            if not b & 0x80:
                break
            sh += 7
        return v, pos

    def shuffle(bs, width):
        n = len(bs)
        height = -(-n // width)
        full = n - (height - 1) * width if n else 0
        rows, o = [], 0
        for r in range(width):
            ln = height if r < full else height - 1
            rows.append(bs[o:o + ln])
            o += ln
        return [row[c_] for c_ in range(height) for row in rows if c_ < len(row)]

    TAGS = [b"rTRC", b"rXYZ", b"cprt", b"wtpt", b"bkpt", b"rXYZ", b"gXYZ", b"bXYZ", b"kXYZ", b"rTRC", b"gTRC", b"bTRC", b"kTRC", b"chad", b"desc",
            b"chrm", b"dmnd", b"dmdd", b"lumi"]
    DATA = [b"XYZ ", b"desc", b"text", b"mluc", b"para", b"curv", b"sf32", b"gbd "]
    be = lambda v: [(v >> 24) & 255, (v >> 16) & 255, (v >> 8) & 255, v & 255]
    try:
        osize, pos = varint(stream, 0)
        csize, pos = varint(stream, pos)
        if pos + csize > len(stream) or osize > 1 << 28:
            raise Bad()
        cmds, data = list(stream[pos:pos + csize]), list(stream[pos + csize:])
        hs = min(osize, 128)
        if len(data) < hs:
            raise Bad()
        resid, data = data[:hs], data[hs:]
        init = [0] * 128
        init[8] = 4
        init[12:24] = list(b"mntrRGB XYZ ")
        init[36:40] = list(b"acsp")
        init[70], init[71], init[73], init[78], init[79] = 246, 214, 1, 211, 45
        out = []
        for i in range(hs):
            pred = list(init)
            pred[0:4] = be(osize & 0xffffffff)
            if True:
                d40 = out[40] if len(out) > 40 else None
                d41 = out[41] if len(out) > 41 else None
                if d40 == ord("A"):
                    pred[41:44] = list(b"PPL")
                if d40 == ord("M"):
                    pred[41:44] = list(b"SFT")
                if d40 == ord("S") and d41 == ord("G"):
                    pred[42:44] = list(b"I ")
                if d40 == ord("S") and d41 == ord("U"):
                    pred[42:44] = list(b"NW")
            if 80 <= i < 84:
                pred[i] = out[4 + i - 80]
            out.append((pred[i] + resid[i]) & 255)
        if osize <= 128:
            return ("ok", out)
        cp = 0
        v, cp = varint(cmds, cp)
        if v:
            nt = v - 1
            if (osize - 128) // 12 < nt:
                raise Bad()
            out += be(nt)
            pstart, psize = nt * 12 + 128, 0
            while True:
                if cp >= len(cmds):
                    break                       # the command stream may end inside the tag list
                c = cmds[cp]
                cp += 1
                code = c & 63
                if code == 0:
                    break
                if code == 1:
                    if len(data) < 4:
                        raise Bad()
                    tag, data = bytes(data[:4]), data[4:]
                elif code <= 20:
                    tag = TAGS[code - 2]
                else:
                    raise Bad()
                if c & 64:
                    start, cp = varint(cmds, cp)
                    start &= 0xffffffff
                else:
                    start = (pstart + psize) & 0xffffffff
                if c & 128:
                    size, cp = varint(cmds, cp)
                    size &= 0xffffffff
                elif tag in (b"rXYZ", b"gXYZ", b"bXYZ", b"kXYZ", b"wtpt", b"bkpt", b"lumi"):
                    size = 20
                else:
                    size = psize
                if start + size > osize:
                    raise Bad()
                pstart, psize = start, size
                out += list(tag) + be(start) + be(size)
                if code == 2:
                    out += list(b"gTRC") + be(start) + be(size) + list(b"bTRC") + be(start) + be(size)
                elif code == 3:
                    out += list(b"gXYZ") + be((start + size) & 0xffffffff) + be(size) + list(b"bXYZ") + be((start + 2 * size) & 0xffffffff) + be(size)
        while cp < len(cmds):
            c = cmds[cp]
            cp += 1
            if c in (1, 2, 3):
                n, cp = varint(cmds, cp)
                if n > len(data):
                    raise Bad()
                bs, data = data[:n], data[n:]
                out += bs if c == 1 else shuffle(bs, 2 if c == 2 else 4)
            elif c == 4:
                if cp >= len(cmds):
                    raise Bad()
                fl = cmds[cp]
                cp += 1
                width, order = (fl & 3) + 1, (fl >> 2) & 3
                if width == 3 or order == 3:
                    raise Bad()
                stride = width
                if fl & 16:
                    stride, cp = varint(cmds, cp)
                    if stride < width:
                        raise Bad()
                if stride * 4 >= len(out):
                    raise Bad()
                n, cp = varint(cmds, cp)
                if len(data) < n:
                    raise Bad()
                bs, data = data[:n], data[n:]
                if width > 1:
                    bs = shuffle(bs, width)
                for i in range(0, n, width):
                    prev = []
                    for j in range(order + 1):
                        o = len(out) - stride * (j + 1)
                        x = 0
                        for q in out[o:o + width]:
                            x = (x << 8) | q
                        prev.append(x)
                    p = prev[0] if order == 0 else (2 * prev[0] - prev[1]) if order == 1 else (3 * (prev[0] - prev[1]) + prev[2])
                    p &= 0xffffffff
                    for j in range(min(width, n - i)):
                        out.append((bs[i + j] + (p >> (8 * (width - 1 - j)))) & 255)
            elif c == 10:
                if len(data) < 12:
                    raise Bad()
                out += list(b"XYZ ") + [0, 0, 0, 0] + data[:12]
                data = data[12:]
            elif 16 <= c <= 23:
                out += list(DATA[c - 16]) + [0, 0, 0, 0]
            else:
                raise Bad()
        if check_size and len(out) != osize:
            raise Bad()
        return ("ok", out)
    except Bad:
        return ("err",)


def _icc_scripts():
    """(name, stream) pairs: each command of the ICC stream at least once, each rejection once"""
    def vi(v):
        o = []
        while True:
            b = v & 0x7f
            v >>= 7
            if v:
                o.append(b | 0x80)
            else:
                o.append(b)
                return o

    def hdr(seed, b40=0, b41=0):
        h = [((i * 29 + seed * 13) ^ (i >> 1)) & 255 for i in range(128)]
        h[40], h[41] = b40, b41
        return h

    def mk(cmds, data, osize=None, seed=1, b40=0, b41=0, header=True):
        full = (hdr(seed, b40, b41) if header else []) + list(data)
        if osize is None:
            # the output length does not depend on the declared size: take it from the reference run with a size that cannot be hit
            probe = vi(1 << 27) + vi(len(cmds)) + list(cmds) + full
            osize = _icc_len(probe)
        return vi(osize) + vi(len(cmds)) + list(cmds) + full

    dat = lambda n, s=5: [((i * 17 + s * 7) ^ (i >> 2)) & 255 for i in range(n)]
    S = []
    S.append(("header only, 5 bytes", vi(5) + vi(0) + [9, 8, 7, 6, 5]))
    S.append(("empty profile", vi(0) + vi(0)))
    S.append(("header only, 128 bytes, APPL", vi(128) + vi(0) + hdr(2, ord("A"))))
    S.append(("header short of data", vi(100) + vi(0) + [1] * 60))
    S.append(("commands_size beyond the stream", vi(200) + vi(9) + [0] * 4))
    S.append(("no tag list, raw copy", mk(vi(0) + [1] + vi(40), dat(40))))
    S.append(("no tag list, raw copy, size mismatch", mk(vi(0) + [1] + vi(40), dat(40), osize=169)))
    S.append(("raw copy longer than the data", mk(vi(0) + [1] + vi(50), dat(40), osize=178)))
    S.append(("shuffle2 9 bytes, shuffle4 16 bytes", mk(vi(0) + [2] + vi(9) + [3] + vi(16), dat(25))))
    S.append(("shuffle4 7 bytes", mk(vi(0) + [3] + vi(7), dat(7, 3))))
    S.append(("XYZ command and the eight type commands", mk(vi(0) + [10] + list(range(16, 24)), dat(12))))
    S.append(("XYZ command short of data", mk(vi(0) + [10], dat(11), osize=148)))
    for c in (0, 5, 9, 11, 15, 24, 255):
        S.append(("invalid main command %d" % c, mk(vi(0) + [c], dat(4), osize=132)))
    # tag list
    S.append(("tag list: unknown tag, offset + size flags; rTRC triple; rXYZ triple; implicit offsets",
              mk(vi(1 + 9) + [1 | 64 | 128] + vi(240) + vi(32) + [2] + [3] + [5 | 128] + vi(12) + [4] + [0] + [1] + vi(200), list(b"abcd") + dat(200))))
    S.append(("tag list: rXYZ triple with explicit offset, then an implicit offset",
              mk(vi(1 + 4) + [3 | 64] + vi(400) + [14] + [0] + [1] + vi(300), dat(300, 4))))
    S.append(("tag list: every common tag code", mk(vi(1 + 23) + [2 | 64 | 128] + vi(500) + vi(16) + list(range(3, 21)) + [0] + [1] + vi(600), dat(600, 2))))
    S.append(("tag list: common tags with explicit sizes and implicit 20",
              mk(vi(1 + 6) + [16 | 128] + vi(44) + [8] + [20] + [14 | 128] + vi(3) + [12, 13, 0] + [1] + vi(100), dat(100))))
    S.append(("tag list ends with the command stream (consistent length)", mk(vi(1 + 1) + [6 | 64] + vi(120), [])))
    S.append(("as many tags as the profile can hold", mk(vi(1 + 14) + [0] + [1] + vi(168), dat(168), osize=300)))
    S.append(("tag list ends with the command stream (declared length not reached)", mk(vi(1 + 2) + [6 | 64] + vi(144), [], osize=400)))
    S.append(("tag count only, command stream ends", mk(vi(1 + 2), [], osize=300)))
    S.append(("tag code 21", mk(vi(1 + 1) + [21], [], osize=300)))
    S.append(("tag code 63", mk(vi(1 + 1) + [63 | 64] + vi(1), [], osize=300)))
    S.append(("unknown tag short of data", mk(vi(1 + 1) + [1], [1, 2, 3], osize=300)))
    S.append(("tag beyond the profile", mk(vi(1 + 1) + [2 | 64 | 128] + vi(290) + vi(11), [], osize=300)))
    S.append(("tag exactly at the end of the profile", mk(vi(1 + 1) + [2 | 64 | 128] + vi(290) + vi(10) + [0] + [1] + vi(132), dat(132), osize=300)))
    S.append(("too many tags for the profile", mk(vi(1 + 15), [], osize=300)))
    S.append(("zero tags", mk(vi(1) + [0] + [1] + vi(6), dat(6))))
    # predicted runs
    for width in (1, 2, 4):
        for order in (0, 1, 2):
            fl = (width - 1) | (order << 2)
            S.append(("predict width %d order %d" % (width, order), mk(vi(0) + [1] + vi(24) + [4, fl] + vi(4 * width + 3), dat(24, order + 1) + dat(4 * width + 3, 9), seed=width + order)))
    S.append(("predict width 2 order 1 stride 6", mk(vi(0) + [1] + vi(30) + [4, 1 | (1 << 2) | 16] + vi(6) + vi(12), dat(30, 2) + dat(12, 4))))
    S.append(("predict width 4 order 2 stride 12", mk(vi(0) + [1] + vi(40) + [4, 3 | (2 << 2) | 16] + vi(12) + vi(21), dat(40, 6) + dat(21, 8))))
    S.append(("predict width 1 order 0 stride 3, twice", mk(vi(0) + [1] + vi(8) + [4, 16] + vi(3) + vi(7) + [4, 16 | 4] + vi(2) + vi(5), dat(8) + dat(7, 2) + dat(5, 3))))
    S.append(("predict width 3", mk(vi(0) + [4, 2] + vi(4), dat(4), osize=132)))
    S.append(("predict order 3", mk(vi(0) + [4, 12] + vi(4), dat(4), osize=132)))
    S.append(("predict stride below width", mk(vi(0) + [4, 3 | 16] + vi(3) + vi(4), dat(4), osize=132)))
    S.append(("predict stride * 4 == output so far", mk(vi(0) + [4, 16] + vi(32) + vi(4), dat(4), osize=132)))
    S.append(("predict stride * 4 just below output so far", mk(vi(0) + [4, 16] + vi(31) + vi(4), dat(4), osize=132)))
    S.append(("predict short of data", mk(vi(0) + [4, 0] + vi(9), dat(8), osize=137)))
    S.append(("predict flags missing", mk(vi(0) + [4], [], osize=132)))
    return S


def _icc_len(stream):
    """length the reference produces when the declared size is not compared (for building self-consistent scripts)"""
    r = _icc_reference(stream, check_size=False)
    return len(r[1]) if r[0] == "ok" else 0


def rule_interp_eval(ctx):
    """decode_icc, evaluated from MIR on scripted command streams, equals the reference interpreter"""
    from .. import absint
    rid = "R-ICC-INTERP"
    S = _icc_scripts()
    REJECTED = ("header short of data", "commands_size beyond", "size mismatch", "longer than the data", "short of data", "invalid main command",
                "declared length not reached", "tag count only", "tag code 21", "tag code 63", "tag beyond the profile", "too many tags",
                "predict width 3", "predict order 3", "stride below width", "stride * 4 == output", "flags missing")
    for name, stream in S:
        if (_icc_reference(stream)[0] == "err") != any(q in name for q in REJECTED):
            ctx.anchor_missing(rid, "self-check: the reference interpreter's verdict on script `%s` is not the intended one" % name)
            return
    ctx.rule(rid, "jxl_color::icc::decode::decode_icc is evaluated from MIR (nothing is run: the evaluator interprets the function, its "
                  "helpers varint / predict_header / shuffle2 / shuffle4, std::io::Cursor reads, Vec growth, Wrapping<u32> arithmetic "
                  "and slice operations over concrete bytes) on %d scripted ICC streams and compared with an interpreter written from "
                  "ISO/IEC 18181-1 (ICC annex): every main-section command (raw copy, 2- / 4-way shuffle, predicted runs of width "
                  "1 / 2 / 4 x order 0 / 1 / 2 with default and explicit stride, the XYZ and the eight type shortcuts), every tag-list "
                  "shortcut (unknown tag, the 19 common tags, the rTRC and rXYZ triples, explicit and implicit offsets and sizes), "
                  "and every rejection (sizes, codes, parameters, available data, final length).  The outcome must be the same "
                  "byte string, or an error where the reference rejects.  This decides the index arithmetic of each command on those "
                  "scripts, not byte-exactness for every stream" % len(S))
    col = ctx.prog.crate("jxl_color")
    f = col.fn("jxl_color::icc::decode::decode_icc")
    if f is None or f.argc != 1 or "[u8]" not in str(f.local_ty(1)):
        ctx.anchor_missing(rid, "jxl_color::icc::decode::decode_icc(&[u8])")
        return
    ctx.seen(f)
    rows, bad, undec = 0, [], None
    for name, stream in S:
        want = _icc_reference(stream)
        ev = absint.Evaluator(ctx.prog)
        ev.max_steps = 4_000_000
        try:
            r = ev.call_fn(f, [absint.BufView(list(stream))])
        except absint.Unsupported as e:
            undec = "script `%s`: %s" % (name, e)
            break
        rows += 1
        got = None
        if isinstance(r, absint.Enum) and r.name == "Err":
            got = ("err",)
        elif isinstance(r, absint.Enum) and r.name == "Ok":
            v = r.fields[0]
            v = v.items() if isinstance(v, absint.BufView) else v
            if isinstance(v, (list, tuple)) and all(isinstance(q, int) for q in v):
                got = ("ok", list(v))
        if got is None:
            undec = "script `%s`: result %r" % (name, r)
            break
        if got != want:
            bad.append((name, got, want))
    ctx.count(rid + ".scripts", rows)
    if undec:
        ctx.bad(rid, "decode_icc|not-evaluable", "decode_icc is no longer a function the evaluator can decide (%s); the ICC interpreter cannot be "
                "compared with the format" % undec, fn=f)
        return
    ctx.floor(rid + ".scripts", 53)
    if not bad:
        ctx.ok(rid, "decode_icc|scripts", "%d scripted streams: same bytes, or an error where the format rejects" % rows, nontrivial=True, fn=f)
    for name, got, want in bad[:4]:
        if got[0] != want[0]:
            what = "is accepted (%d bytes), the format rejects it" % len(got[1]) if got[0] == "ok" else "is rejected, the format decodes it to %d bytes" % len(want[1])
        elif len(got[1]) != len(want[1]):
            what = "decodes to %d bytes, the format gives %d" % (len(got[1]), len(want[1]))
        else:
            k = next(i for i in range(len(got[1])) if got[1][i] != want[1][i])
            what = "byte %d of the profile is %d, the format gives %d" % (k, got[1][k], want[1][k])
        ctx.bad(rid, "decode_icc|script:" + name, "ICC stream `%s`: %s (%d of %d scripts differ)" % (name, what, len(bad), rows), fn=f)


def rule_ctx_history(ctx):
    """the two-byte context history of the ICC byte stream starts once per profile"""
    from ..facts import op_const, op_const_int, op_local, op_place
    from ..mirutil import Defs
    rid = "R-ICC-HISTORY"
    ctx.rule(rid, "every byte of the encoded ICC stream is read with a context chosen from the two bytes before it (get_icc_ctx(idx, b1, "
                  "b2)); that history starts at (0, 0) once, at the beginning of the stream.  The rule follows the b1 / b2 arguments of "
                  "every get_icc_ctx call back to their definitions - through copies, tuple / struct fields and `&mut` parameters into "
                  "the callers - and requires each place where the history is started afresh (a constant 0, a zero tuple, "
                  "Default::default()) to sit in code that runs once per read_icc: in read_icc itself outside any loop, or in a "
                  "function with a single call site that does.  A helper that restarts the history and is called per chunk "
                  "(seed C18n) decodes the bytes after each seam with the wrong context")
    col = ctx.prog.crate("jxl_color")
    fam = [g for g in col.fn_list if g.path.startswith("jxl_color::icc::decode::") and g.kind != "Promoted"]
    top = col.fn("jxl_color::icc::decode::read_icc")
    sites = [(g, b, t) for g in fam for b, t in g.calls() if callee(t) and callee(t)["fn"].endswith("get_icc_ctx") and len(t[2]) == 3]
    if top is None or not sites:
        ctx.anchor_missing(rid, "read_icc and the get_icc_ctx(idx, b1, b2) call")
        return
    dcache = {}

    def defs_of(g):
        if g.path not in dcache:
            dcache[g.path] = Defs(g)
        return dcache[g.path]

    def in_loop(g, b):
        return any(b in g.reachable(x) for x in g.succs(b) if not g.is_cleanup(x))

    def call_sites(g):
        out = []
        for h in fam:
            for b, t in h.calls():
                c = callee(t)
                if c and (ctx.prog.fn(c.get("res", c["fn"])) is g or ctx.prog.fn(c["fn"]) is g):
                    out.append((h, b, t))
        return out

    def once(g, depth=0):
        """does g run at most once per read_icc (and outside loops)?"""
        if g is top:
            return True
        cs = call_sites(g)
        return depth < 4 and len(cs) == 1 and not in_loop(cs[0][0], cs[0][1]) and once(cs[0][0], depth + 1)

    fresh, problems = [], []

    def trace(g, l, seen, depth=0):
        """collect the fresh starts of the value held in local l of g"""
        if (g.path, l) in seen or depth > 6:
            return
        seen.add((g.path, l))
        ds = [d for d in defs_of(g).of(l) if not g.is_cleanup(d[0])]
        if l <= g.argc and l >= 1:
            # a parameter: by value or by reference - follow it into every caller
            for h, b, t in call_sites(g):
                a = t[2][l - 1] if l - 1 < len(t[2]) else None
                al = op_local(a) if a is not None else None
                if al is None:
                    if a is not None and op_const_int(a) == 0:
                        fresh.append((h, b))
                    continue
                trace(h, al, seen, depth + 1)
            return
        for d in ds:
            if d[2] == "call":
                c = callee(d[3])
                nm = c["fn"] if c else ""
                if nm.startswith("core::default::Default::default") or nm.endswith("::default") or nm.endswith("::new"):
                    fresh.append((g, d[0]))
                elif nm.startswith("core::mem::replace") or nm.startswith("core::mem::take"):
                    continue
                else:
                    for a in d[3][2]:
                        if op_local(a) is not None:
                            trace(g, op_local(a), seen, depth + 1)
                continue
            if d[2] != "assign":
                continue            # partial writes are updates of a history that already exists
            rv = d[3][2]
            if rv[0] == "use":
                if op_const(rv[1]) is not None:
                    if op_const_int(rv[1]) == 0:
                        fresh.append((g, d[0]))
                    continue
                pl = op_place(rv[1])
                if pl:
                    trace(g, pl[0], seen, depth + 1)
            elif rv[0] == "ref":
                trace(g, rv[2][0], seen, depth + 1)
            elif rv[0] == "agg":
                ops = rv[2]
                if ops and all(op_const(o) is not None for o in ops):
                    fresh.append((g, d[0]))
                else:
                    for o in ops:
                        if op_local(o) is not None:
                            trace(g, op_local(o), seen, depth + 1)
            elif rv[0] == "cast":
                pl = op_place(rv[2])
                if pl:
                    trace(g, pl[0], seen, depth + 1)
    for g, b, t in sites:
        ctx.seen(g)
        for a in t[2][1:]:
            l = op_local(a)
            if l is None:
                if op_const_int(a) is None:
                    problems.append("an argument of get_icc_ctx in %s that is neither a local nor a constant" % g.path.split("::")[-1])
                continue
            trace(g, l, set())
    ctx.count(rid + ".ctx-calls", len(sites))
    ctx.floor(rid + ".ctx-calls", 1)
    if problems or not fresh:
        ctx.anchor_missing(rid, "the start of the two-byte history behind get_icc_ctx's arguments (%s)" % (problems[0] if problems else "no constant start found"))
        return
    badk = set()
    for g, b in fresh:
        if in_loop(g, b) or not once(g):
            k = g.path.split("::")[-1]
            if k not in badk:
                badk.add(k)
                ctx.bad(rid, "history-restarted:" + strip_generics(g.path), "the context history of the ICC byte stream is started afresh in %s, %s: the "
                        "bytes after every restart but the first are decoded with the context of (0, 0) instead of the two bytes before them"
                        % (k, "inside a loop" if in_loop(g, b) else "which read_icc reaches through more than one call or from a loop"), fn=g)
    if not badk:
        ctx.ok(rid, "history-starts-once", "%d get_icc_ctx call(s); the history starts at %d place(s), each run once per profile" % (len(sites), len(set((g.path, b) for g, b in fresh))),
               nontrivial=True, fn=top)


def rule_icc_ctx_eval(ctx):
    """get_icc_ctx, evaluated from MIR, is the format's 41-context function"""
    from .. import absint
    rid = "R-ICC-CTX"
    ctx.rule(rid, "the entropy-coded ICC byte stream uses 41 contexts: 0 for the first 129 bytes, then 1 + kind1(previous byte) + 8 * "
                  "kind2(the byte before it), with kind1 in 0..7 (letters; digits . ,; 0; 1; 2..15; 241..254; 255; other) and kind2 in "
                  "0..4 (letters; digits . ,; 0..15; 241..255; other) - ISO/IEC 18181-1, ICC annex.  jxl_color::icc::decode::get_icc_ctx "
                  "is evaluated from MIR for every previous byte against 14 representative second bytes, every second byte against 14 "
                  "representative previous bytes, and the index boundary 127 / 128 / 129 / 130, and compared with that definition.  "
                  "A context that differs for one byte value decodes every profile containing it wrongly")
    col = ctx.prog.crate("jxl_color")
    f = col.fn("jxl_color::icc::decode::get_icc_ctx")
    if f is None or f.argc != 3:
        ctx.anchor_missing(rid, "jxl_color::icc::decode::get_icc_ctx(idx, b1, b2)")
        return
    ctx.seen(f)

    def letter(b):
        return 97 <= b <= 122 or 65 <= b <= 90

    def digit(b):
        return 48 <= b <= 57 or b in (46, 44)

    def k1(b):
        return 0 if letter(b) else 1 if digit(b) else 2 if b == 0 else 3 if b == 1 else 4 if b < 16 else 6 if b == 255 else 5 if b > 240 else 7

    def k2(b):
        return 0 if letter(b) else 1 if digit(b) else 2 if b < 16 else 3 if b > 240 else 4
    reps = [0, 1, 2, 15, 16, 44, 46, 48, 65, 97, 122, 240, 241, 255]
    cases = [(500, a, b) for a in range(256) for b in reps] + [(500, a, b) for a in reps for b in range(256)]
    cases += [(i, a, b) for i in (0, 127, 128, 129, 130, 1 << 20) for a in (0, 65, 200) for b in (1, 250)]
    rows, bad, undec = 0, None, None
    for idx, b1, b2 in cases:
        ev = absint.Evaluator(ctx.prog)
        try:
            got = ev.call_fn(f, [idx, b1, b2])
        except absint.Unsupported as e:
            undec = "idx %d, b1 %d, b2 %d: %s" % (idx, b1, b2, e)
            break
        rows += 1
        want = 0 if idx <= 128 else 1 + k1(b1) + 8 * k2(b2)
        if got != want and bad is None:
            bad = (idx, b1, b2, got, want)
    ctx.count(rid + ".rows", rows)
    if undec:
        ctx.bad(rid, "get_icc_ctx|not-evaluable", "get_icc_ctx is no longer a function the evaluator can decide (%s)" % undec, fn=f)
        return
    ctx.floor(rid + ".rows", 7000)
    if bad:
        ctx.bad(rid, "get_icc_ctx|table", "byte index %d, previous bytes %d, %d: context %s, the format says %d" % bad, fn=f)
    else:
        ctx.ok(rid, "get_icc_ctx|table", "%d evaluations equal the format's context function" % rows, nontrivial=True, fn=f)


def rule_shuffle_eval(ctx):
    """shuffle2 / shuffle4, evaluated from MIR on byte strings of every small length, are the format's transpositions"""
    from .. import absint
    rid = "R-ICC-SHUFFLE"
    ctx.rule(rid, "the 2- and 4-way shuffle commands of the ICC stream (ISO/IEC 18181-1 ICC main-section commands 2 / 3 and the shuffled "
                  "predicted runs) read their input as `width` rows and emit it column by column.  jxl_color::icc::decode::shuffle2 and "
                  "shuffle4 are evaluated from MIR (nothing is run) on strings of distinct bytes of every length 0..=17 (and 64, 65): "
                  "the result must be a permutation of the input for every length, and must equal the column-major read-out for "
                  "shuffle2 at every length and for shuffle4 at the lengths where all rows are full or only the last row is one "
                  "short (length mod 4 in {0, 3}; for the other lengths the row split follows the implementation and only the "
                  "permutation clause is decided).  Seed C18g (second column of an odd-length shuffle2 starts one byte early)")
    col = ctx.prog.crate("jxl_color")
    rows = 0
    for name, width in (("shuffle2", 2), ("shuffle4", 4)):
        f = col.fn("jxl_color::icc::decode::" + name)
        if f is None or f.argc != 1 or "[u8]" not in str(f.local_ty(1)):
            ctx.anchor_missing(rid, "jxl_color::icc::decode::%s(&[u8])" % name)
            continue
        ctx.seen(f)
        bad = undec = None
        n_ok = 0
        for n in list(range(0, 18)) + [64, 65]:
            data = [(i * 7 + 3) & 255 for i in range(n)]
            ev = absint.Evaluator(ctx.prog)
            try:
                r = ev.call_fn(f, [absint.BufView(list(data))])
            except absint.Unsupported as e:
                undec = "length %d: %s" % (n, e)
                break
            got = r.items() if isinstance(r, absint.BufView) else (list(r) if isinstance(r, (tuple, list)) else None)
            if got is None or not all(isinstance(q, int) for q in got):
                undec = "length %d: result %r is not a byte vector" % (n, r)
                break
            rows += 1
            n_ok += 1
            height = -(-n // width)
            full = n - (height - 1) * width if n else 0        # rows that have `height` entries (balanced split)
            want = None
            if width == 2 or n % width in (0, width - 1):
                starts, o = [], 0
                for rr in range(width):
                    ln = height if rr < full else height - 1
                    starts.append((o, ln))
                    o += ln
                want = [data[o + c_] for c_ in range(height) for o, ln in starts if c_ < ln]
            if sorted(got) != sorted(data):
                bad = bad or (n, "is not a permutation of its input (got %s)" % got[:12])
            elif want is not None and got != want:
                k = next(i for i in range(n) if got[i] != want[i])
                bad = bad or (n, "output byte %d is input byte %d, the format's transposition takes input byte %d" % (k, data.index(got[k]), data.index(want[k])))
        if undec:
            ctx.bad(rid, name + "|not-evaluable", "%s is no longer a function the evaluator can decide (%s); its permutation cannot be compared with "
                    "the format" % (name, undec), fn=f)
        elif bad:
            ctx.bad(rid, name + "|permutation", "%s on %d bytes: %s: profiles using this command are not returned byte-exactly" % (name, bad[0], bad[1]), fn=f)
        else:
            ctx.ok(rid, name + "|permutation", "%d lengths: a permutation everywhere, equal to the column-major read-out of %d rows where the format "
                   "fixes it" % (n_ok, width), nontrivial=True, fn=f)
    ctx.count(rid + ".rows", rows)
    ctx.floor(rid + ".rows", 40)


def main(pid, tier, repo=None):
    ctx = Ctx(pid, tier, configs=("workspace",), repo=repo)
    rid = "R-ICC-REJECT"
    ctx.rule(rid, "every consistency condition of the ICC stream encoding (sizes, offsets, command and tag codes, predictor parameters, "
                  "available data, final length) is present in read_icc / decode_icc as a comparison whose reject edge leads to an error "
                  "return; conditions are reconstructed from MIR and matched by meaning (constants folded, operand order and >=/> forms "
                  "normalised)")
    col = ctx.prog.crate("jxl_color")
    cache = {}
    for fpath, cond, n, why in TABLE:
        f = col.fn(fpath)
        if f is None:
            ctx.anchor_missing(rid, fpath)
            continue
        if fpath not in cache:
            cache[fpath] = validation.checks_deep(ctx.prog, f)
            ctx.seen(f)
        cs = cache[fpath]
        if ("mt", fpath) not in cache:
            cache[("mt", fpath)] = validation.match_table(cs, [(c_, n_) for f_, c_, n_, _w in TABLE if f_ == fpath], validation.deep_ref("icc", fpath))
        have = cache[("mt", fpath)].get(cond, [])
        key = "%s|%s" % (fpath.split("::")[-1], cond)
        if len(have) >= n:
            ctx.ok(rid, key, "reject `%s` -> Err (%s)" % (cond, why), nontrivial=True, fn=f)
        else:
            subj = cond.split(" ")[0]
            near = sorted({validation.norm(c["subject"], c["op"], c["other"]) for c in cs if subj in str(c["subject"])})
            ctx.bad(rid, key + "|missing", "ICC consistency check `reject %s` (%s) is missing or changed (found %d of %d; checks on that value now: %s): an "
                    "inconsistent encoding is accepted or panics later" % (cond, why, len(have), n, near or "none"), fn=f)
    from . import specconst
    specconst.run(ctx, pid)
    rule_tagsize(ctx)
    rule_predshift(ctx)
    rule_headerpred(ctx)
    rule_shuffle_eval(ctx)
    rule_interp_eval(ctx)
    rule_ctx_history(ctx)
    rule_icc_ctx_eval(ctx)
    # no unwrap/expect/index panic on the error path: decode_icc returns Result and converts slice errors
    ctx.not_decided("byte equality of the decoded profile with the embedded one for EVERY encoding (value-level round trip): the interpreter is "
                    "compared with the format on 53 scripted streams and the shuffles on 20 lengths, not on all streams; the entropy-coded "
                    "byte stream in front of it (read_icc / get_icc_ctx context modelling) is covered only by its rejection checks")
    return ctx.finish(
        "Two clauses. (1) Rejection: the 24 consistency conditions of the ICC stream decoder are reconstructed from MIR as "
        "compare -> error checks and compared with a reviewed table, so a dropped or relaxed condition is reported with the checks that "
        "are there now. (2) The interpreter on scripts: predict_header (every position), shuffle2 / shuffle4 (every small length) and the "
        "whole of decode_icc (53 scripted command streams that use every command, shortcut and rejection) are evaluated from MIR by the "
        "abstract evaluator over concrete bytes and compared with an interpreter written from the format; found D62 (a stream ending "
        "inside the tag list skipped the final size check). Byte-exactness for every stream is not decided.")

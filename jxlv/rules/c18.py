"""C18 — the embedded ICC profile is returned byte-exactly (claimed narrowly: the rejection clause):
R-ICC-REJECT — the consistency checks of the ICC stream decoder exist as compare -> error checks."""
from .. import validation
from ..engine import Ctx

READ = "jxl_color::icc::decode::read_icc"
DEC = "jxl_color::icc::decode::decode_icc"
TABLE = [
    (READ, "enc_size > 268435456", 1, "encoded size limit"),
    (READ, "sym > 255", 2, "decoded symbols are bytes"),
    (READ, "(stream_offset+commands_size) > enc_size", 1, "command stream lies inside the encoded data"),
    (READ, "output_size > 268435456", 1, "declared profile size limit"),
    (READ, "(output_size+65536) < enc_size", 1, "encoded size consistent with the declared output size"),
    (DEC, "(stream_offset+commands_size) > len(stream)", 1, "command stream inside the buffer (slice split)"),
    (DEC, "output_size > 268435456", 1, "declared profile size limit"),
    (DEC, "len(data) < header_size", 1, "header bytes available"),
    (DEC, "((output_size-128)/12) < num_tags", 1, "tag count fits the declared size"),
    (DEC, "tagcode < 2", 1, "unknown tag code"),
    (DEC, "tagcode > 20", 1, "unknown tag code"),
    (DEC, "len(data) < 4", 1, "tag signature bytes available"),
    (DEC, "(tagstart+tagsize) > output_size", 1, "tag lies inside the profile"),
    (DEC, "command < 16", 1, "unknown main-content command"),
    (DEC, "command > 23", 1, "unknown main-content command"),
    (DEC, "num > len(data)", 2, "raw copy length available"),
    (DEC, "width == 3", 1, "predicted-run element width is 1, 2 or 4"),
    (DEC, "order == 3", 1, "predictor order is 0..2"),
    (DEC, "stride < width", 1, "stride at least the element width"),
    (DEC, "len(data) < num", 1, "predicted-run data available"),
    (DEC, "len(data) < 12", 1, "fixed-size command data available"),
    (DEC, "len(out) != output_size", 1, "decoded size equals the declared size"),
]


def main(pid, tier, repo=None):
    ctx = Ctx(pid, tier, configs=("workspace",), repo=repo)
    rid = "R-ICC-REJECT"
    ctx.rule(rid, "every consistency condition of the ICC stream encoding (sizes, offsets, command and tag codes, predictor parameters, "
                  "available data, final length) is present in read_icc / decode_icc as a comparison whose reject edge leads to an error "
                  "return; conditions are reconstructed from MIR and matched by meaning (constants folded, operand order and >=/> forms "
                  "normalised)")
    col = ctx.prog.crate("jxl_color")
    cache = {}
    for fpath, cond, n, why in TABLE:
        f = col.fn(fpath)
        if f is None:
            ctx.anchor_missing(rid, fpath)
            continue
        if fpath not in cache:
            cache[fpath] = validation.checks_deep(ctx.prog, f)
            ctx.seen(f)
        cs = cache[fpath]
        have = [c for c in cs if validation.norm(c["subject"], c["op"], c["other"]) == cond]
        if len(have) < n:
            parts = cond.rsplit(" ", 2)
            if len(parts) == 3 and parts[2].lstrip("-").isdigit() and abs(int(parts[2])) >= 2:
                alt = [c for c in cs if validation.norm("_", c["op"], c["other"]) == "_ %s %s" % (parts[1], parts[2])]
                if len(alt) == n:
                    have = alt
        key = "%s|%s" % (fpath.split("::")[-1], cond)
        if len(have) >= n:
            ctx.ok(rid, key, "reject `%s` -> Err (%s)" % (cond, why), nontrivial=True, fn=f)
        else:
            subj = cond.split(" ")[0]
            near = sorted({validation.norm(c["subject"], c["op"], c["other"]) for c in cs if subj in str(c["subject"])})
            ctx.bad(rid, key + "|missing", "ICC consistency check `reject %s` (%s) is missing or changed (found %d of %d; checks on that value now: %s): an "
                    "inconsistent encoding is accepted or panics later" % (cond, why, len(have), n, near or "none"), fn=f)
    from . import specconst
    specconst.run(ctx, pid)
    # no unwrap/expect/index panic on the error path: decode_icc returns Result and converts slice errors
    ctx.not_decided("byte equality of the decoded profile with the embedded one for every encoding (value-level round trip); the predictor "
                    "arithmetic and the shuffle permutations")
    return ctx.finish(
        "Claimed narrowly: the rejection clause. The 24 consistency conditions of the ICC stream decoder are reconstructed from MIR as "
        "compare -> error checks and compared with a reviewed table, so a dropped or relaxed condition is reported with the checks that "
        "are there now. Byte-exactness of accepted profiles is not decided.")

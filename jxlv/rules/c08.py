"""C08 — a failed render never wedges the image (the wedge clause): R-RENDERING + the acquire/release contracts."""
from ..engine import Ctx
from . import proto


def main(pid, tier, repo=None):
    configs = ("workspace",) if tier == "quick" else ("workspace", "norayon")
    ctx = Ctx(pid, tier, configs=configs, repo=repo)
    for cfg in configs:
        ctx.use_config(cfg)
        infos = proto.scan_all(ctx)
        proto.rule_rendering(ctx, infos)
        proto.rule_done_render(ctx, infos)
        proto.rule_render_op_results(ctx)
        proto.rule_wait(ctx, infos)
        proto.rule_placeholder(ctx, infos)
        proto.rule_writers(ctx, infos)
        proto.rule_nolock(ctx, infos)     # a guard held across a call that locks the same handle never returns
        proto.rule_publish_success(ctx)
        from . import block
        from ..engine import LIB_CRATES
        block.run_block(ctx, LIB_CRATES)      # no blocking primitive besides the handle wait; no lock re-acquired while its guard is held
    ctx.assume("unwind edges are excluded: a panic inside the render closure is out of scope (C01 is the property about panics)")
    ctx.not_decided("that a later successful call yields the samples of a never-failed decode (value-level)")
    return ctx.finish(
        "Typestate check on MIR: the FrameRender::Rendering marker is resolved on every exit path. For each of the mark "
        "sites and acquire-wrapper call sites, all CFG paths (normal edges, i.e. every `?`/early return) to a return "
        "are searched for one that avoids done_render / an overwriting store; wait_until_render is the only blocking "
        "wait and waits only while the state is Rendering, inside a re-check loop; done_render provably rejects "
        "Rendering (constant propagation) and notifies under the guard. This quantifies over every failure point at "
        "once because each fallible step is an exit edge of the CFG.")

"""C02 — no memory-unsafe access is reachable (claimed in part): R-TF, R-UNSAFE census/obligations, type-level witnesses."""
from ..engine import Ctx, LIB_CRATES
from . import tf


def main(pid, tier, repo=None):
    configs = ("workspace",) if tier == "quick" else ("workspace", "norayon")
    ctx = Ctx(pid, tier, configs=configs, repo=repo)
    for cfg in configs:
        ctx.use_config(cfg)
        tf.run(ctx, LIB_CRATES)
    ctx.not_decided("bounds of SIMD kernels and scratch buffers (class h), std::arch itself")
    return ctx.finish("R-TF + R-UNSAFE on MIR/HIR facts")

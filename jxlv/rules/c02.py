"""C02 — no memory-unsafe access is reachable (claimed in part): R-TF, R-UNSAFE census/obligations, type-level witnesses."""
from ..engine import Ctx, LIB_CRATES
from . import tf, unsafe_rules, kernel_sub


def main(pid, tier, repo=None):
    configs = ("workspace",) if tier == "quick" else ("workspace", "norayon")
    ctx = Ctx(pid, tier, configs=configs, repo=repo)
    for cfg in configs:
        ctx.use_config(cfg)
        tf.run(ctx, LIB_CRATES)
        unsafe_rules.rule_census(ctx, LIB_CRATES)
        unsafe_rules.rule_grid(ctx)
        unsafe_rules.rule_ans(ctx)
        unsafe_rules.rule_refill(ctx)
        unsafe_rules.rule_transmute(ctx)
        unsafe_rules.rule_grouped(ctx)
        unsafe_rules.rule_cast_align(ctx)
        unsafe_rules.rule_type_census(ctx, "grid")
        kernel_sub.run(ctx, [k for k, v in unsafe_rules.CENSUS.items() if v[0] == "h"])
        kernel_sub.run_var_sub(ctx)
    if tier == "thorough":
        from .. import witness
        witness.rule(ctx, ["MutableViewIsNotClone", "MutableViewIsNotCopy", "RawViewConstructionIsUnsafe", "SplitHalvesBorrowParent"])
    ctx.not_decided("bounds of SIMD kernels and scratch buffers (class h), std::arch itself")
    ctx.not_decided("wrapped integer arithmetic feeding safe indexing (a panic, i.e. C01, not UB)")
    return ctx.finish(
        "Two mechanisms, decided for every input and every CPU: (R-TF) a #[target_feature] function is entered only where the features "
        "are enabled on the caller or detected on every feasible path (must-dataflow over MIR with call-graph summaries for "
        "attribute-less unsafe fns and closures); (R-UNSAFE) every unsafe site belongs to a reviewed class, and the classes that guard "
        "raw indexing re-check their guard: bounded index arguments in the grid views, mask/table-size agreement of the unchecked "
        "ANS lookup, length tests dominating raw slices, the range test before the enum transmute, exact Send/Sync impl bounds. "
        "SIMD kernel index arithmetic (class h) is inventoried, not decided.")

"""R-SPECCONST: the constant tables the format defines have the specified values.
The value compared is what rustc evaluates for the named `const` of /repo (semantic value, independent of how the source
spells it); the reference is /verif/tables/spec_consts.json (basis: standard / derived / snapshot, see tools/gen_spec_consts.py).
A renamed or moved constant is found again by value (unique match in the crate)."""
import json
import os

from .. import constval
from ..engine import VERIF

TABLE = os.path.join(VERIF, "tables", "spec_consts.json")


def norm_ref(v, as_bytes):
    """reference values written as str stand for byte strings"""
    if as_bytes:
        if isinstance(v, str):
            return v.encode("latin-1")
        if isinstance(v, list) and v and all(isinstance(x, int) for x in v):
            return bytes(v)
        if isinstance(v, list):
            return [norm_ref(x, True) for x in v]
        if isinstance(v, dict):
            d = dict(v)
            if "args" in d:
                d["args"] = [norm_ref(x, True) for x in d["args"]]
            return d
    return v


def differ(ref, got, compare, ulps, rel, path=""):
    """first difference between reference and evaluated value, or None"""
    if isinstance(ref, dict) or isinstance(got, dict):
        if not (isinstance(ref, dict) and isinstance(got, dict)):
            return "%s: shape differs" % path
        if ref.get("ctor", "").split("::")[-1] != got.get("ctor", "").split("::")[-1]:
            return "%s: constructor %s, specified %s" % (path, got.get("ctor"), ref.get("ctor"))
        return differ(ref.get("args", ref.get("fields")), got.get("args", got.get("fields")), compare, ulps, rel, path)
    if isinstance(ref, list) or isinstance(got, list):
        if isinstance(got, (bytes, bytearray)) and isinstance(ref, list):
            got = list(got)
        if isinstance(ref, (bytes, bytearray)) and isinstance(got, list):
            ref = list(ref)
        if not (isinstance(ref, list) and isinstance(got, list)):
            return "%s: shape differs (%r vs %r)" % (path, type(got).__name__, type(ref).__name__)
        if len(ref) != len(got):
            return "%s: %d entries, specified %d" % (path or "table", len(got), len(ref))
        for i, (r, g) in enumerate(zip(ref, got)):
            d = differ(r, g, compare, ulps, rel, "%s[%d]" % (path, i))
            if d:
                return d
        return None
    if isinstance(ref, (bytes, bytearray)) or isinstance(got, (bytes, bytearray)):
        rb = bytes(ref) if not isinstance(ref, str) else ref.encode("latin-1")
        gb = bytes(got) if not isinstance(got, str) else got.encode("latin-1")
        return None if rb == gb else "%s: %r, specified %r" % (path or "value", gb, rb)
    if isinstance(ref, str) or isinstance(got, str):
        return None if str(ref).split("::")[-1] == str(got).split("::")[-1] else "%s: %s, specified %s" % (path or "value", got, ref)
    if compare == "f32" and isinstance(got, (int, float)):
        r32 = constval.f32_round(float(ref))
        if constval.f32_ulps(r32, constval.f32_round(float(got))) <= ulps:
            return None
        return "%s: %r, specified %r" % (path or "value", got, r32)
    if compare == "f64" and isinstance(got, (int, float)):
        if abs(float(got) - float(ref)) <= rel * max(1.0, abs(float(ref))):
            return None
        return "%s: %r, specified %r" % (path or "value", got, ref)
    return None if ref == got else "%s: %r, specified %r" % (path or "value", got, ref)


def run(ctx, pid, floor=None):
    rid = "R-SPECCONST"
    ctx.rule(rid, "the constant tables of the format have the specified values: for every entry of tables/spec_consts.json that belongs to "
                  "this property, the value rustc evaluates for the constant equals the reference (exact for integers, byte strings and "
                  "enum values; within a few ulps for floats); references are transcribed from the cited standard, computed from a "
                  "formula, or - where marked snapshot - copied from the repository and only guarded against change")
    ents = [e for e in json.load(open(TABLE))["entries"] if pid in e["properties"]]
    n_ind = 0
    for e in ents:
        cr = ctx.prog.crates.get(e["crate"])
        if cr is None:
            ctx.anchor_missing(rid, e["crate"])
            continue
        ref = norm_ref(e["value"], e.get("bytes", False))
        ulps = e.get("ulps", 2)
        rel = e.get("rel", 1e-12)
        k = cr.consts.get(e["path"])
        where = e["path"]
        if k is None:
            # renamed / moved: unique constant of the crate with the specified value
            cands = []
            for p, kk in cr.consts.items():
                try:
                    if differ(ref, constval.parse(kk["value"]), e["compare"], ulps, rel) is None:
                        cands.append(p)
                except ValueError:
                    pass
            if len(cands) >= 1:
                k = cr.consts[cands[0]]
                where = cands[0]
        key = "%s" % e["id"]
        if k is None:
            ctx.bad(rid, key + "|missing", "no constant with the specified value of `%s` (%s) exists in %s any more (looked for %s and for any "
                    "constant of equal value): the table was changed or is now computed in a way this rule cannot read"
                    % (e["id"], e["source"], e["crate"], e["path"].split("::")[-1]))
            continue
        try:
            got = constval.parse(k["value"])
        except ValueError as ex:
            ctx.bad(rid, key + "|unreadable", "cannot read the evaluated value of %s: %s" % (where, ex))
            continue
        if e.get("unordered") and isinstance(ref, list) and isinstance(got, list) and len(ref) == len(got):
            # a lookup table: the order of its rows carries no meaning
            rest = list(got)
            d = None
            for r in ref:
                hit = next((g for g in rest if differ(r, g, e["compare"], ulps, rel) is None), None)
                if hit is None:
                    d = "no row equals the specified row %r" % (r,)
                    break
                rest.remove(hit)
        else:
            d = differ(ref, got, e["compare"], ulps, rel)
        if d is None:
            if e["basis"] != "snapshot":
                n_ind += 1
            ctx.ok(rid, key, "%s == reference (%s; %s)" % (where.split("::")[-1], e["basis"], e["source"][:80]), nontrivial=e["basis"] != "snapshot")
        else:
            ctx.bad(rid, key + "|changed", "format constant `%s` (%s) differs from its specified value - %s [%s reference]"
                    % (where.split("::")[-1], e["source"][:100], d, e["basis"]))
    ctx.counts[rid + ".entries"] = len(ents)
    ctx.counts[rid + ".independent-references"] = n_ind
    if floor:
        ctx.floor(rid + ".entries", floor)
    snaps = [e["id"] for e in ents if e["basis"] == "snapshot"]
    if snaps:
        ctx.assume("R-SPECCONST snapshot entries (copied from the repository, guarded against change only, not independently confirmed): "
                   + ", ".join(snaps))

"""C09 — feeding the stream in any chunks gives the same image (claimed narrowly: the carry-over plumbing):
R-FEED-CONSUMED, R-CARRY, plus the shared rules that make a chunk boundary invisible (R-CONSUMED, R-BOXHDR, R-AUXBOX,
R-EOF-FORWARD, R-EOF-SITES, R-EOF-DROP)."""
from ..engine import Ctx
from ..facts import callee, op_local, op_place, pos_line, place_fields
from ..mirutil import Defs, access_path, find_path_edges, alias_closure
from . import c10, c11

INNER = "jxl_oxide::JxlImageInner::feed_bytes_inner"
FEEDS = ["jxl_oxide::UninitializedJxlImage::feed_bytes", "jxl_oxide::JxlImage::feed_bytes"]


def ok_return_blocks(f):
    out = set()
    for b, blk in enumerate(f.blocks):
        if f.is_cleanup(b):
            continue
        for st in blk[0]:
            if st[0] == "=" and st[1] == [0] and st[2][0] == "agg" and st[2][1][0] == "adt" and st[2][1][1] == "core::result::Result" and st[2][1][2] == "Ok":
                out.add(b)
    return out


def rule_feed_consumed(ctx):
    rid = "R-FEED-CONSUMED"
    ctx.rule(rid, "both public feed_bytes functions return, on success, exactly ContainerParser::previous_consumed_bytes() (the number the "
                  "re-feed contract is defined by), and route Codestream events to the codestream buffer / frame loader")
    ox = ctx.prog.crate("jxl_oxide")
    for path in FEEDS:
        f = ox.fn(path)
        if f is None:
            ctx.anchor_missing(rid, path)
            continue
        ctx.seen(f)
        defs = Defs(f)
        good = False
        for b in ok_return_blocks(f):
            for st in f.stmts(b):
                if st[0] == "=" and st[1] == [0]:
                    l = op_local(st[2][2][0])
                    seen = set()
                    while l is not None and l not in seen:
                        seen.add(l)
                        d = defs.single(l)
                        if not d:
                            break
                        if d[2] == "call":
                            c = callee(d[3])
                            if c and c["fn"].endswith("ContainerParser::previous_consumed_bytes"):
                                good = True
                            break
                        if d[2] == "assign" and d[3][2][0] == "use":
                            l = op_local(d[3][2][1])
                        else:
                            break
        if good:
            ctx.ok(rid, "%s|returns-consumed" % path.split("::")[-2], "Ok(self.reader.previous_consumed_bytes())", nontrivial=True, fn=f)
        else:
            ctx.bad(rid, "%s|returns-consumed" % path, "%s no longer returns the parser's consumed-byte count: callers re-feed the wrong bytes" % path, fn=f)
        # Codestream payloads are forwarded
        names = [callee(t)["fn"] for _, t in f.calls() if callee(t)]
        want = "alloc::vec::Vec::<T, A>::extend_from_slice" if "Uninitialized" in path else INNER
        if want in names:
            ctx.ok(rid, "%s|forwards-codestream" % path.split("::")[-2], "Codestream(buf) -> %s" % want.split("::")[-1], fn=f)
        else:
            ctx.bad(rid, "%s|forwards-codestream" % path, "Codestream events are no longer forwarded to %s" % want, fn=f)


def rule_carry(ctx):
    rid = "R-CARRY"
    ctx.rule(rid, "in JxlImageInner::feed_bytes_inner, after bytes of the carry-over buffer have been consumed (a frame header was loaded or "
                  "bytes were fed to a frame), every successful return re-stores the unconsumed remainder into self.buffer (assignment or "
                  "clear()); otherwise already-consumed bytes would be parsed again, or unconsumed ones lost, at the next chunk")
    ox = ctx.prog.crate("jxl_oxide")
    f = ox.fn(INNER)
    if f is None:
        ctx.anchor_missing(rid, INNER)
        return
    ctx.seen(f)
    defs = Defs(f)
    oks = ok_return_blocks(f)
    # blocks that (re)store self.buffer
    stores = set()
    for b, blk in enumerate(f.blocks):
        if f.is_cleanup(b):
            continue
        for st in blk[0]:
            if st[0] == "=":
                pf = place_fields(st[1])
                if pf and pf[-1][0] == "buffer" and pf[-1][1].endswith("JxlImageInner") and st[1][-1][2] == "buffer":
                    stores.add(b)
        t = blk[1]
        if t[0] == "call":
            c = callee(t)
            if c and c["fn"] in ("alloc::vec::Vec::<T, A>::clear",) and t[2]:
                l = op_local(t[2][0])
                ap = access_path(f, defs, l) if l is not None else None
                if ap and ap[1] and ap[1][-1] == "buffer":
                    stores.add(b)
    # is_empty() true edges on the input slice
    empty_edges = set()
    for b, t in f.calls():
        c = callee(t)
        if c and c["fn"] == "core::slice::<impl [T]>::is_empty" and t[4] is not None and len(t[3]) == 1:
            sb = t[4]
            tt = f.term(sb)
            if tt[0] == "switch" and op_local(tt[1]) == t[3][0] and any(v == "0" for v, _ in tt[2]):
                empty_edges.add((sb, tt[3], "otherwise"))
    consume = []
    for b, t in f.calls():
        c = callee(t)
        if c and (c["fn"].endswith("RenderContext::load_frame_header") or c["fn"].endswith("Frame::feed_bytes") or c["fn"].endswith("IndexedFrame::feed_bytes")):
            consume.append((b, c["fn"].split("::")[-1]))
    if len(consume) < 2 or not stores or not oks:
        ctx.bad(rid, "feed_bytes_inner|shape", "feed_bytes_inner no longer has the consume / re-store structure (consumption calls %d, buffer stores %d, Ok returns %d)"
                % (len(consume), len(stores), len(oks)), fn=f)
        return
    for b, nm in consume:
        start = f.term(b)[4]
        if start is None:
            continue
        ctx.count(rid + ".consumption-points")
        p = find_path_edges(f, [start], lambda x: x in oks, avoid_block=lambda x: x in stores,
                            avoid_edge=lambda x, s, lab: (x, s, lab) in empty_edges) if start not in stores else None
        if p is None:
            ctx.ok(rid, "after-%s@%d" % (nm, len([1 for k in ctx.nontrivial if "after-" + nm in k])), "every Ok return after this consumption re-stores self.buffer (or the input is empty)",
                   nontrivial=True, fn=f)
        else:
            ctx.bad(rid, "feed_bytes_inner|return-without-carry:after-%s" % nm,
                    "after %s consumed bytes (line %d) a path returns Ok without re-storing the unconsumed remainder into self.buffer" % (nm, pos_line(f.term_pos(b))),
                    fn=f, pos=f.term_pos(b), path=p)
    # the absolute offset of the carry-over buffer moves with every consumption
    off_stores = set()
    for b, blk in enumerate(f.blocks):
        if f.is_cleanup(b):
            continue
        for st in blk[0]:
            if st[0] == "=":
                pf = place_fields(st[1])
                if pf and pf[-1][0] == "buffer_offset" and pf[-1][1].endswith("JxlImageInner"):
                    off_stores.add(b)
    if not off_stores:
        ctx.anchor_missing("R-OFFSET-COMMIT", "stores to JxlImageInner.buffer_offset in feed_bytes_inner")
    else:
        ctx.rule("R-OFFSET-COMMIT", "feed_bytes_inner reports frame offsets as buffer_offset + position in the carry-over buffer; after a frame's "
                 "bytes have been consumed (Frame::feed_bytes) every path to a successful return passes a store to buffer_offset - an "
                 "exit that keeps the consumed amount in a local (the early return on an incomplete next header) leaves every later "
                 "frame_offset() short")
        for b, nm in consume:
            if nm != "feed_bytes":
                continue
            start = f.term(b)[4]
            if start is None:
                continue
            p = find_path_edges(f, [start], lambda x: x in oks, avoid_block=lambda x: x in off_stores) if start not in off_stores else None
            if p is None:
                ctx.ok("R-OFFSET-COMMIT", "offset-committed-after-feed_bytes", "every Ok return after a frame consumed bytes has updated buffer_offset",
                       nontrivial=True, fn=f)
            else:
                ctx.bad("R-OFFSET-COMMIT", "feed_bytes_inner|return-without-offset", "after a frame consumed bytes (line %d) a path returns Ok "
                        "without updating buffer_offset: the offsets of all later frames are short by those bytes" % pos_line(f.term_pos(b)),
                        fn=f, pos=f.term_pos(b), path=p)
    # try_init drains what it consumed
    ti = ox.fn("jxl_oxide::UninitializedJxlImage::try_init")
    if ti is not None:
        ctx.seen(ti)
        dr = [t for _, t in ti.calls() if callee(t) and callee(t)["fn"].endswith("::drain")]
        if dr:
            ctx.ok(rid, "try_init|drains-consumed-prefix", "self.buffer.drain(..bytes_read) on the Initialized path", fn=ti)
        else:
            ctx.bad(rid, "try_init|drains-consumed-prefix", "try_init no longer removes the header bytes it consumed from the carry-over buffer", fn=ti)


def rule_jbrd_accumulate(ctx):
    """the jbrd header parser retries from the start: what it could not parse yet must be kept"""
    from ..facts import op_local, op_place
    from ..mirutil import Defs
    rid = "R-JBRD-ACCUMULATE"
    ctx.rule(rid, "Jbrd::feed_bytes, header not parsed yet: JpegBitstreamData::try_parse answers None while the header is incomplete and is "
                  "called again from the first byte with the next piece, so every piece offered before has to be in the buffer by then.  "
                  "On every path from entry to a normal return that called try_parse and neither switched to the parsed state (a store "
                  "of Jbrd::Init) nor returns an error, Vec::extend_from_slice with the offered bytes has been called (product walk over "
                  "block x {parsed, appended, initialised, error}).  A fast path that parses the offered slice in place and forgets it "
                  "on `need more` loses the beginning of a header that arrives in pieces")
    cr = ctx.prog.crate("jxl_oxide")
    f = cr.fns.get("jxl_oxide::aux_box::jbrd::Jbrd::feed_bytes")
    if f is None or f.argc != 2:
        ctx.anchor_missing(rid, "jxl_oxide::aux_box::jbrd::Jbrd::feed_bytes(&mut self, bytes)")
        return
    ctx.seen(f)
    defs = Defs(f)

    def from_param(l, param=2):
        seen = set()
        while l is not None and l not in seen:
            if l == param:
                return True
            seen.add(l)
            d = defs.single(l)
            if not d or d[2] != "assign":
                return False
            rv = d[3][2]
            pl = op_place(rv[1]) if rv[0] == "use" else (rv[2] if rv[0] == "ref" else (op_place(rv[2]) if rv[0] == "cast" else None))
            if pl is None:
                return False
            l = pl[0]
        return False

    ev = {}
    n_parse = 0
    for b, t in f.calls():
        c = callee(t)
        if not c:
            continue
        nm = c.get("res") or c["fn"]
        if nm.endswith("JpegBitstreamData::try_parse"):
            ev[b] = "parsed"
            n_parse += 1
        elif c["fn"].endswith("Vec::<T, A>::extend_from_slice") and len(t[2]) == 2 and from_param(op_local(t[2][1])):
            ev[b] = "appended"
        elif c["fn"].endswith("FromResidual::from_residual"):
            ev[b] = "error"
    if not n_parse:
        ctx.anchor_missing(rid, "the call of JpegBitstreamData::try_parse in Jbrd::feed_bytes")
        return
    inits = set()
    for b, blk in enumerate(f.blocks):
        for st in blk[0]:
            if st[0] == "=" and st[2][0] == "agg" and st[2][1][0] == "adt" and st[2][1][1].endswith("jbrd::Jbrd") and st[2][1][2] == "Init":
                inits.add(b)
    start = (0, frozenset())
    seen, work, bad = {start}, [start], False
    while work:
        b, fl = work.pop()
        fl = set(fl)
        if b in inits:
            fl.add("initialised")
        if b in ev:
            fl.add(ev[b])
        t = f.term(b)
        if t[0] == "ret":
            if "parsed" in fl and not ({"appended", "initialised", "error"} & fl):
                bad = True
            continue
        for x in f.succs(b):
            if f.is_cleanup(x):
                continue
            s2 = (x, frozenset(fl))
            if s2 not in seen:
                seen.add(s2)
                work.append(s2)
    ctx.count(rid + ".states", len(seen))
    if bad:
        ctx.bad(rid, "need-more-keeps-bytes|lost", "a path calls try_parse, gets `need more data` and returns Ok without having appended the offered "
                "bytes to the buffer: the next call parses from the middle of the header", fn=f)
    else:
        ctx.ok(rid, "need-more-keeps-bytes", "every `need more data` return has appended the offered bytes", nontrivial=True, fn=f)


def rule_preview_len(ctx):
    """try_init waits for the whole preview frame, measured from where its header ended"""
    rid = "R-INIT-PREVIEW-LEN"
    ctx.rule(rid, "UninitializedJxlImage::try_init skips a preview frame by draining `position after the preview frame's header and TOC + "
                  "the TOC's total size` bytes.  The test that answers `need more data` until that many bytes are buffered must compare "
                  "the buffer length with the same quantity: the other side of the comparison is computed from a "
                  "Bitstream::num_read_bits() call made AFTER the preview Frame::parse (dominated by it) and from "
                  "Toc::total_byte_size().  A position taken before the frame header was parsed, or a size relative to the frame start, "
                  "is short by the header in front: try_init then drains past the end of the buffer (panic) when a chunk ends inside "
                  "the last bytes of the preview frame")
    ox = ctx.prog.crate("jxl_oxide")
    f = ox.fns.get("jxl_oxide::UninitializedJxlImage::try_init")
    if f is None:
        ctx.anchor_missing(rid, "jxl_oxide::UninitializedJxlImage::try_init")
        return
    def parse_calls(g):
        return [(b, t) for b, t in g.calls() if callee(t) and "jxl_frame::Frame as " in (callee(t).get("res") or callee(t)["fn"])
                and (callee(t).get("res") or callee(t)["fn"]).endswith("::parse")]
    if not parse_calls(f):
        # the preview skip may live in a private helper of try_init
        for b, t in f.calls():
            c = callee(t)
            h = ox.fns.get(c.get("res") or c["fn"]) or ox.fns.get(c["fn"]) if c else None
            if h is not None and h.kind != "Promoted" and parse_calls(h):
                f = h
                break
    ctx.seen(f)
    defs = Defs(f)
    parse = parse_calls(f)
    if len(parse) != 1 or parse[0][1][4] is None:
        ctx.anchor_missing(rid, "the preview Frame::parse call in try_init (found %d)" % len(parse))
        return
    after = parse[0][1][4]

    def slice_calls(l, seen=None, depth=0):
        """names and blocks of the calls in the backward slice of local l (through arithmetic, casts, copies, `?`)"""
        seen = seen if seen is not None else set()
        out = []
        if l is None or l in seen or depth > 14:
            return out
        seen.add(l)
        for d in defs.of(l):
            if f.is_cleanup(d[0]):
                continue
            if d[2] == "call":
                c = callee(d[3])
                nm = (c.get("res") or c["fn"]) if c else ""
                out.append((nm, d[0]))
                if nm.split("::")[-1] in ("branch", "from", "into", "unwrap", "min", "max", "saturating_add", "checked_add", "wrapping_add"):
                    for a in d[3][2]:
                        out += slice_calls(op_local(a), seen, depth + 1)
                continue
            if d[2] != "assign":
                continue
            rv = d[3][2]
            ops = [rv[1]] if rv[0] == "use" else ([rv[2]] if rv[0] in ("cast", "un") else ([rv[2], rv[3]] if rv[0] == "bin" else []))
            for o in ops:
                p = op_place(o)
                if p is not None:
                    out += slice_calls(p[0], seen, depth + 1)
        return out

    found = good = 0
    for b, blk in enumerate(f.blocks):
        if blk[2] or not f.dominates(after, b):
            continue
        for st in blk[0]:
            if st[0] != "=" or st[2][0] != "bin" or st[2][1] not in ("Lt", "Le", "Gt", "Ge"):
                continue
            sides = [op_local(st[2][2]), op_local(st[2][3])]
            sl = [slice_calls(x) for x in sides]
            # the side that is the end of the preview frame: it mentions the TOC's size (the other side is the buffered length,
            # read from the buffer here or handed to a helper as a parameter)
            for other in sl:
                if not any(nm.endswith("total_byte_size") or nm.endswith("Toc::bookmark") for nm, _ in other):
                    continue
                found += 1
                pos_ok = any(nm.endswith("num_read_bits") and f.dominates(after, bb) for nm, bb in other)
                size_ok = any(nm.endswith("total_byte_size") for nm, _ in other)
                if pos_ok and size_ok:
                    good += 1
    ctx.count(rid + ".length-tests", found)
    if good >= 1:
        ctx.ok(rid, "preview-length-test", "the buffer length is compared with (position after the preview header) + (TOC size)", nontrivial=True, fn=f)
    elif found == 0:
        ctx.bad(rid, "preview-length-test|missing", "try_init no longer compares the buffered length with the end of the preview frame before draining it", fn=f)
    else:
        ctx.bad(rid, "preview-length-test|wrong-base", "the test that waits for the whole preview frame does not use the position after the preview frame's "
                "header (a num_read_bits() call made after Frame::parse) plus Toc::total_byte_size(): it is short by what precedes, and the "
                "drain that follows runs past the end of the buffer", fn=f)


def main(pid, tier, repo=None):
    ctx = Ctx(pid, tier, configs=("workspace",), repo=repo)
    rule_feed_consumed(ctx)
    rule_carry(ctx)
    rule_refeed(ctx)
    rule_init_offsets(ctx)
    rule_jbrd_accumulate(ctx)
    rule_preview_len(ctx)
    bs = ctx.prog.crate("jxl_bitstream")
    c10.rule_consumed(ctx, bs)
    c10.rule_retry(ctx, bs)
    c10.rule_boxhdr(ctx, bs)
    c10.rule_auxbox(ctx)
    c11.rule_forward(ctx)
    c11.rule_sites(ctx)
    c11.rule_drop(ctx)
    from . import fixguards
    fixguards.run(ctx, pid)
    ctx.not_decided("equality of headers, frame offsets, auxiliary data and samples between two executions (relational, value-level); "
                    "the offset arithmetic of the frame loader")
    return ctx.finish(
        "Claimed narrowly: the plumbing that makes a chunk boundary invisible, each a necessary condition of chunking-independence and "
        "decided on MIR for every way of cutting the stream: the consumed-byte contract of the container parser and of the public "
        "feed functions, re-storing of the unconsumed remainder on every successful exit of the frame loader, prefix-closedness of "
        "the box-header parser, end-of-input finalisation of auxiliary boxes, and the classification of end-of-data as "
        "need-more-data on every wrapping route. Equality of the two executions' results is not decided.")


def rule_refeed(ctx):
    """the library's own read loops honour the re-feed contract of feed_bytes"""
    rid = "R-REFEED"
    ctx.rule(rid, "feed_bytes returns how many bytes it consumed and requires the rest to be offered again, first, in the next call.  In "
                  "every function of jxl_oxide that calls UninitializedJxlImage::feed_bytes / JxlImage::feed_bytes on a window of a "
                  "buffer it also refills (std::io::Read::read), every path from a successful feed to the next read or feed passes "
                  "through a call that moves the unconsumed tail to the front (copy_within; drain / rotate_left / split_off accepted): "
                  "otherwise the next read lands behind stale bytes and a box header that straddles a read boundary is parsed from "
                  "garbage")
    from ..mirutil import helper_reaches
    ox = ctx.prog.crate("jxl_oxide")
    MOVE = ("copy_within", "drain", "rotate_left", "split_off")
    n = 0
    for f in ox.fn_list:
        if f.kind == "Promoted":
            continue
        feeds, reads, moves = [], set(), set()
        for b, t in f.calls():
            c = callee(t)
            if not c:
                continue
            nm = c["fn"]
            if nm.endswith("UninitializedJxlImage::feed_bytes") or nm.endswith("JxlImage::feed_bytes"):
                feeds.append((b, t))
            elif nm.endswith("io::Read::read") or nm.endswith("io::Read::read_exact") or nm.endswith("io::Read::read_buf"):
                reads.add(b)
            elif nm.split("::")[-1] in MOVE and ("slice" in nm or "Vec" in nm or "vec" in nm):
                moves.add(b)
            else:
                # a private helper that moves the tail (`discard_consumed(&mut buf, &mut buf_valid, consumed)`)
                h = ox.fns.get(c.get("res") or nm) or ox.fns.get(nm)
                if h is not None and h is not f and helper_reaches(
                        ox, h, lambda n: n.split("::")[-1] in MOVE and ("slice" in n or "Vec" in n or "vec" in n), depth=1):
                    moves.add(b)
        if not feeds or not reads:
            continue
        ctx.seen(f)
        targets = reads | {b for b, _ in feeds}
        for b, t in feeds:
            n += 1
            key = "%s|bb-order%d" % (f.path, sorted(x for x, _ in feeds).index(b))
            if t[4] is None:
                continue
            # breadth-first from the normal successor, not entering a block that moves the tail
            seen, todo, hit = set(), [t[4]], None
            while todo:
                x = todo.pop()
                if x in seen or f.is_cleanup(x):
                    continue
                seen.add(x)
                if x in moves:
                    continue
                if x in targets:
                    hit = x
                    break
                todo.extend(f.succs(x))
            if hit is None:
                ctx.ok(rid, key, "the tail is moved to the front before the next read / feed", nontrivial=True, fn=f)
            else:
                ctx.bad(rid, key, "after this feed_bytes call the next read / feed (line %d) can be reached without moving the unconsumed tail "
                        "to the front of the buffer" % pos_line(f.term_pos(hit)), fn=f, pos=t[-2])
    ctx.count(rid + ".feed-sites", n)
    ctx.floor(rid + ".feed-sites", 4)


TRY_INIT = "jxl_oxide::UninitializedJxlImage::try_init"


def rule_init_offsets(ctx):
    """try_init: what is removed from the carry-over buffer is covered by a length check and is what is recorded as the offset"""
    from .. import validation
    from ..symexpr import Sym, show
    rid = "R-INIT-OFFSETS"
    ctx.rule(rid, "UninitializedJxlImage::try_init: (a) the amount drained from the carry-over buffer is `bytes the bit reader consumed` "
                  "(+ the size of a skipped preview frame); whenever it includes more than the reader consumed, a dominating check "
                  "`buffer.len() < the same amount -> NeedMoreData` exists (otherwise drain panics on a partial feed); (b) the offset "
                  "recorded for the frame loader (JxlImageInner.buffer_offset) is the same amount that was drained (frame offsets are "
                  "reported relative to it).  Amounts are compared in a symbolic normal form of the MIR expressions (sums flattened, "
                  "alternatives of if/match expressions expanded)")
    f = ctx.prog.fn(TRY_INIT)
    if f is None:
        ctx.anchor_missing(rid, TRY_INIT)
        return
    ctx.seen(f)
    sym = Sym(f)
    defs = sym.defs
    drains = [(b, t) for b, t in f.calls() if callee(t) and callee(t)["fn"].endswith("::drain") and "Vec" in callee(t)["fn"]]
    if len(drains) != 1:
        ctx.anchor_missing(rid, "the single Vec::drain in try_init (found %d)" % len(drains))
        return
    db, dt = drains[0]
    # the range argument `..n`
    rl = op_local(dt[2][1]) if len(dt[2]) > 1 else None
    d = defs.single(rl) if rl is not None else None
    if not (d and d[2] == "assign" and d[3][2][0] == "agg" and "RangeTo" in str(d[3][2][1][1])):
        ctx.bad(rid, "drain-range-shape", "the carry-over buffer is not drained with a `..n` range", fn=f, pos=dt[-2])
        return
    D = sym.operand(d[3][2][2][0])
    reader = [x for x in D if "ret:num_read_bits" in repr(x)]
    if not reader or len(reader) != len(D):
        ctx.bad(rid, "drain-amount", "the drained amount is not derived from Bitstream::num_read_bits(): %s" % sorted(show(x) for x in D), fn=f, pos=dt[-2])
        return
    # (a) alternatives with an extra term need the same bound in a dominating reject check
    # comparisons `buffer.len() < E` whose "too short" edge leaves the function without reaching the drain
    bounds = set()
    reach_cache = {}
    for gb, blk in enumerate(f.blocks):
        if blk[2] or blk[1][0] != "switch":
            continue
        cl = op_local(blk[1][1])
        cmp_st = None
        for st in blk[0]:
            if st[0] == "=" and st[1] == [cl] and st[2][0] == "bin" and st[2][1] in ("Lt", "Gt", "Le", "Ge"):
                cmp_st = st
        if cmp_st is None:
            continue
        A, B = sym.operand(cmp_st[2][2]), sym.operand(cmp_st[2][3])
        op = cmp_st[2][1]
        is_len = lambda X: any("len(" in show(x) and "buffer" in show(x) for x in X)
        if is_len(A) and op == "Lt":
            E, short_when_true = B, True
        elif is_len(B) and op == "Gt":
            E, short_when_true = A, True
        elif is_len(A) and op == "Ge":
            E, short_when_true = B, False
        elif is_len(B) and op == "Le":
            E, short_when_true = A, False
        else:
            continue
        t = blk[1]
        zero = [x for v, x in t[2] if v == "0"]
        if not zero:
            continue
        short_edge = t[3] if short_when_true else zero[0]
        if short_edge not in reach_cache:
            reach_cache[short_edge] = f.reachable(short_edge)
        if db in reach_cache[short_edge]:
            continue        # the short-buffer edge can still reach the drain: not a guard
        bounds |= E
    ok = True
    # a term that is the answer of a helper of this crate (`ret:helper`): the helper may hold the length check itself.  Its summary:
    # the payload it returns (Some(n) / Ok(n)) and the amounts E of its own `len_argument < E -> no payload` checks, where the
    # argument compared is the buffer length at the call site.
    from ..symexpr import _join_sum

    def helper_summary(g, t):
        gs = Sym(g)
        len_args = set()
        for i, a in enumerate(t[2]):
            if any("len(" in show(x) and "buffer" in show(x) for x in sym.operand(a)):
                len_args.add("arg%d" % (i + 1))
        payload, pay_blocks = set(), set()
        for b, blk in enumerate(g.blocks):
            if blk[2]:
                continue
            for st in blk[0]:
                if st[0] == "=" and st[2][0] == "agg" and st[2][1][0] == "adt" and st[2][1][1] in ("core::option::Option", "core::result::Result") \
                        and st[2][1][2] in ("Some", "Ok") and st[2][2]:
                    ol = op_local(st[2][2][0])
                    if ol is not None and g.local_ty(ol) == "usize":
                        payload |= gs.operand(st[2][2][0])
                        pay_blocks.add(b)
        gb_ = set()
        for b, blk in enumerate(g.blocks):
            if blk[2] or blk[1][0] != "switch":
                continue
            cl = op_local(blk[1][1])
            cmp_st = next((st for st in blk[0] if st[0] == "=" and st[1] == [cl] and st[2][0] == "bin" and st[2][1] in ("Lt", "Gt", "Le", "Ge")), None)
            if cmp_st is None:
                continue
            A, B = gs.operand(cmp_st[2][2]), gs.operand(cmp_st[2][3])
            op = cmp_st[2][1]
            isl = lambda X: bool(X) and all(x in len_args for x in X)
            if isl(A) and op in ("Lt", "Ge"):
                E, short_when_true = B, op == "Lt"
            elif isl(B) and op in ("Gt", "Le"):
                E, short_when_true = A, op == "Gt"
            else:
                continue
            zero = [x for v, x in blk[1][2] if v == "0"]
            if not zero:
                continue
            short_edge = blk[1][3] if short_when_true else zero[0]
            if g.reachable(short_edge) & pay_blocks:
                continue
            gb_ |= E
        return payload, gb_

    helpers = {}
    for hb, ht in f.calls():
        c = callee(ht)
        g = (ctx.prog.fn(c.get("res") or c["fn"]) or ctx.prog.fn(c["fn"])) if c else None
        if g is not None and g.path.startswith("jxl_oxide::") and g.path != f.path and len(g.blocks) < 400:
            helpers.setdefault("ret:" + g.path.split("::")[-1].split("<")[0], []).append((g, ht))

    def covered_by_helper(alt):
        terms_ = alt[1]
        for i, x in enumerate(terms_):
            for g, ht in helpers.get(x, []) if isinstance(x, str) else []:
                payload, gb_ = helper_summary(g, ht)
                for pl in payload:
                    e = pl
                    for j, y in enumerate(terms_):
                        if j != i:
                            e = _join_sum(e, y)
                    if e in gb_:
                        return g, show(e)
        return None

    for alt in sorted(D, key=repr):
        plain = not (isinstance(alt, tuple) and alt[0] == "+")
        if plain:
            continue      # exactly what the reader consumed: always within the buffer the reader was created over
        hv = covered_by_helper(alt) if alt not in bounds else None
        if hv is not None:
            ctx.ok(rid, "drain-covered:" + show(alt), "the helper %s returns its part of the amount only after `buffer length < %s` has been ruled out"
                   % (hv[0].path.split("::")[-1], hv[1]), nontrivial=True, fn=f)
            continue
        if alt in bounds:
            ctx.ok(rid, "drain-covered:" + show(alt), "a dominating `buffer.len() < %s -> NeedMoreData` covers this amount" % show(alt), nontrivial=True, fn=f)
        else:
            ok = False
            ctx.bad(rid, "drain-uncovered", "try_init drains %s bytes but the only length checks before it bound %s: on a feed that ends inside "
                    "the skipped preview frame the drain range exceeds the buffer (panic)"
                    % (show(alt), sorted(show(x) for x in bounds) or "nothing"), fn=f, pos=dt[-2])
    if ok and all(not (isinstance(a, tuple) and a[0] == "+") for a in D):
        ctx.ok(rid, "drain-covered:reader-only", "only what the bit reader consumed is drained", fn=f)
    # (b) recorded offset == drained amount
    INNER_ADT = "jxl_oxide::JxlImageInner"
    adt = ctx.prog.crate("jxl_oxide").adts.get(INNER_ADT)
    recorded = None
    if adt:
        names = [x[0] for x in adt["variants"][0]["fields"]]
        for b, blk in enumerate(f.blocks):
            if blk[2]:
                continue
            for st in blk[0]:
                if st[0] == "=" and st[2][0] == "agg" and st[2][1][0] == "adt" and st[2][1][1] == INNER_ADT and "buffer_offset" in names:
                    recorded = (sym.operand(st[2][2][names.index("buffer_offset")]), st[3])
    if recorded is None:
        ctx.anchor_missing(rid, "JxlImageInner { buffer_offset: .. } in try_init")
        return
    if recorded[0] == D:
        ctx.ok(rid, "offset-equals-drained", "buffer_offset = %s = drained amount" % sorted(show(x) for x in D), nontrivial=True, fn=f)
    else:
        ctx.bad(rid, "offset-differs-from-drained", "try_init removes %s bytes from the buffer but records %s as the offset of what follows: "
                "every frame offset reported later is shifted" % (sorted(show(x) for x in D), sorted(show(x) for x in recorded[0])), fn=f, pos=recorded[1])

"""C09 — feeding the stream in any chunks gives the same image (claimed narrowly: the carry-over plumbing):
R-FEED-CONSUMED, R-CARRY, plus the shared rules that make a chunk boundary invisible (R-CONSUMED, R-BOXHDR, R-AUXBOX,
R-EOF-FORWARD, R-EOF-SITES, R-EOF-DROP)."""
from ..engine import Ctx
from ..facts import callee, op_local, op_place, pos_line, place_fields
from ..mirutil import Defs, access_path, find_path_edges, alias_closure
from . import c10, c11

INNER = "jxl_oxide::JxlImageInner::feed_bytes_inner"
FEEDS = ["jxl_oxide::UninitializedJxlImage::feed_bytes", "jxl_oxide::JxlImage::feed_bytes"]


def ok_return_blocks(f):
    out = set()
    for b, blk in enumerate(f.blocks):
        if f.is_cleanup(b):
            continue
        for st in blk[0]:
            if st[0] == "=" and st[1] == [0] and st[2][0] == "agg" and st[2][1][0] == "adt" and st[2][1][1] == "core::result::Result" and st[2][1][2] == "Ok":
                out.add(b)
    return out


def rule_feed_consumed(ctx):
    rid = "R-FEED-CONSUMED"
    ctx.rule(rid, "both public feed_bytes functions return, on success, exactly ContainerParser::previous_consumed_bytes() (the number the "
                  "re-feed contract is defined by), and route Codestream events to the codestream buffer / frame loader")
    ox = ctx.prog.crate("jxl_oxide")
    for path in FEEDS:
        f = ox.fn(path)
        if f is None:
            ctx.anchor_missing(rid, path)
            continue
        ctx.seen(f)
        defs = Defs(f)
        good = False
        for b in ok_return_blocks(f):
            for st in f.stmts(b):
                if st[0] == "=" and st[1] == [0]:
                    l = op_local(st[2][2][0])
                    seen = set()
                    while l is not None and l not in seen:
                        seen.add(l)
                        d = defs.single(l)
                        if not d:
                            break
                        if d[2] == "call":
                            c = callee(d[3])
                            if c and c["fn"].endswith("ContainerParser::previous_consumed_bytes"):
                                good = True
                            break
                        if d[2] == "assign" and d[3][2][0] == "use":
                            l = op_local(d[3][2][1])
                        else:
                            break
        if good:
            ctx.ok(rid, "%s|returns-consumed" % path.split("::")[-2], "Ok(self.reader.previous_consumed_bytes())", nontrivial=True, fn=f)
        else:
            ctx.bad(rid, "%s|returns-consumed" % path, "%s no longer returns the parser's consumed-byte count: callers re-feed the wrong bytes" % path, fn=f)
        # Codestream payloads are forwarded
        names = [callee(t)["fn"] for _, t in f.calls() if callee(t)]
        want = "alloc::vec::Vec::<T, A>::extend_from_slice" if "Uninitialized" in path else INNER
        if want in names:
            ctx.ok(rid, "%s|forwards-codestream" % path.split("::")[-2], "Codestream(buf) -> %s" % want.split("::")[-1], fn=f)
        else:
            ctx.bad(rid, "%s|forwards-codestream" % path, "Codestream events are no longer forwarded to %s" % want, fn=f)


def rule_carry(ctx):
    rid = "R-CARRY"
    ctx.rule(rid, "in JxlImageInner::feed_bytes_inner, after bytes of the carry-over buffer have been consumed (a frame header was loaded or "
                  "bytes were fed to a frame), every successful return re-stores the unconsumed remainder into self.buffer (assignment or "
                  "clear()); otherwise already-consumed bytes would be parsed again, or unconsumed ones lost, at the next chunk")
    ox = ctx.prog.crate("jxl_oxide")
    f = ox.fn(INNER)
    if f is None:
        ctx.anchor_missing(rid, INNER)
        return
    ctx.seen(f)
    defs = Defs(f)
    oks = ok_return_blocks(f)
    # blocks that (re)store self.buffer
    stores = set()
    for b, blk in enumerate(f.blocks):
        if f.is_cleanup(b):
            continue
        for st in blk[0]:
            if st[0] == "=":
                pf = place_fields(st[1])
                if pf and pf[-1][0] == "buffer" and pf[-1][1].endswith("JxlImageInner") and st[1][-1][2] == "buffer":
                    stores.add(b)
        t = blk[1]
        if t[0] == "call":
            c = callee(t)
            if c and c["fn"] in ("alloc::vec::Vec::<T, A>::clear",) and t[2]:
                l = op_local(t[2][0])
                ap = access_path(f, defs, l) if l is not None else None
                if ap and ap[1] and ap[1][-1] == "buffer":
                    stores.add(b)
    # is_empty() true edges on the input slice
    empty_edges = set()
    for b, t in f.calls():
        c = callee(t)
        if c and c["fn"] == "core::slice::<impl [T]>::is_empty" and t[4] is not None and len(t[3]) == 1:
            sb = t[4]
            tt = f.term(sb)
            if tt[0] == "switch" and op_local(tt[1]) == t[3][0] and any(v == "0" for v, _ in tt[2]):
                empty_edges.add((sb, tt[3], "otherwise"))
    consume = []
    for b, t in f.calls():
        c = callee(t)
        if c and (c["fn"].endswith("RenderContext::load_frame_header") or c["fn"].endswith("Frame::feed_bytes") or c["fn"].endswith("IndexedFrame::feed_bytes")):
            consume.append((b, c["fn"].split("::")[-1]))
    if len(consume) < 2 or not stores or not oks:
        ctx.bad(rid, "feed_bytes_inner|shape", "feed_bytes_inner no longer has the consume / re-store structure (consumption calls %d, buffer stores %d, Ok returns %d)"
                % (len(consume), len(stores), len(oks)), fn=f)
        return
    for b, nm in consume:
        start = f.term(b)[4]
        if start is None:
            continue
        ctx.count(rid + ".consumption-points")
        p = find_path_edges(f, [start], lambda x: x in oks, avoid_block=lambda x: x in stores,
                            avoid_edge=lambda x, s, lab: (x, s, lab) in empty_edges) if start not in stores else None
        if p is None:
            ctx.ok(rid, "after-%s@%d" % (nm, len([1 for k in ctx.nontrivial if "after-" + nm in k])), "every Ok return after this consumption re-stores self.buffer (or the input is empty)",
                   nontrivial=True, fn=f)
        else:
            ctx.bad(rid, "feed_bytes_inner|return-without-carry:after-%s" % nm,
                    "after %s consumed bytes (line %d) a path returns Ok without re-storing the unconsumed remainder into self.buffer" % (nm, pos_line(f.term_pos(b))),
                    fn=f, pos=f.term_pos(b), path=p)
    # try_init drains what it consumed
    ti = ox.fn("jxl_oxide::UninitializedJxlImage::try_init")
    if ti is not None:
        ctx.seen(ti)
        dr = [t for _, t in ti.calls() if callee(t) and callee(t)["fn"].endswith("::drain")]
        if dr:
            ctx.ok(rid, "try_init|drains-consumed-prefix", "self.buffer.drain(..bytes_read) on the Initialized path", fn=ti)
        else:
            ctx.bad(rid, "try_init|drains-consumed-prefix", "try_init no longer removes the header bytes it consumed from the carry-over buffer", fn=ti)


def main(pid, tier, repo=None):
    ctx = Ctx(pid, tier, configs=("workspace",), repo=repo)
    rule_feed_consumed(ctx)
    rule_carry(ctx)
    bs = ctx.prog.crate("jxl_bitstream")
    c10.rule_consumed(ctx, bs)
    c10.rule_boxhdr(ctx, bs)
    c10.rule_auxbox(ctx)
    c11.rule_forward(ctx)
    c11.rule_sites(ctx)
    c11.rule_drop(ctx)
    ctx.not_decided("equality of headers, frame offsets, auxiliary data and samples between two executions (relational, value-level); "
                    "the offset arithmetic of the frame loader")
    return ctx.finish(
        "Claimed narrowly: the plumbing that makes a chunk boundary invisible, each a necessary condition of chunking-independence and "
        "decided on MIR for every way of cutting the stream: the consumed-byte contract of the container parser and of the public "
        "feed functions, re-storing of the unconsumed remainder on every successful exit of the frame loader, prefix-closedness of "
        "the box-header parser, end-of-input finalisation of auxiliary boxes, and the classification of end-of-data as "
        "need-more-data on every wrapping route. Equality of the two executions' results is not decided.")

"""R-API-UNWRAP: every `Option::unwrap` / `expect` in the API crate (jxl_oxide) is a reviewed one.
The public decoding calls of jxl_oxide must return a value or an error for every byte string and every moment of a partial load
(C01, C11).  An unwrap there is a claim that a lookup cannot fail; each such claim is listed below with where the value comes from
(the callee or field the Option was produced by, followed back through copies, `?`, and the Option adaptors) and why it cannot be
None.  A new (function, source) pair is reported: it is a new claim nobody has reviewed - typically a lookup by a count that is only
valid once loading has progressed far enough.  Keys do not contain line numbers or local names."""
import re

from ..facts import callee, op_local, op_place
from ..mirutil import Defs, strip_generics

ADAPTORS = ("map", "copied", "cloned", "as_ref", "as_mut", "and_then", "filter", "or", "or_else", "inspect", "as_deref", "as_deref_mut",
            "take", "zip", "xor", "get_or_insert_with", "branch", "from_residual")

# (function suffix, source) -> reason
REVIEWED = {
    ("PreparedTransform<C> as jxl_color::cms::PreparedTransform>::transform", "core::iter::traits::iterator::Iterator::min"):
        "CMS glue (feature-gated): minimum over the channel slices' lengths; the slice of channels is never empty (3 or 4 channels)",
    ("PreparedTransform as jxl_color::cms::PreparedTransform>::transform", "core::iter::traits::iterator::Iterator::min"):
        "CMS glue (feature-gated), as above",
    ("JxlImage::render_frame_cropped", "jxl_render::RenderContext::keyframe"):
        "render_keyframe(keyframe_index)? succeeded on the line before, which looked the same keyframe up",
    ("JxlImage::reconstruct_jpeg", "jxl_oxide::JxlImage::frame"): "jbrd availability was checked; frame 0 exists once the status says Available",
    # jxl_render::RenderContext - the context API that jxl_oxide forwards to
    ("RenderContext::load_frame_header", "field:loading_frame"): "assigned Some(..) on the line before",
    ("RenderContext::render_loading_keyframe", "jxl_render::RenderContext::loading_frame"):
        "only on the branch where render_loading_frame() produced a grid, which is entered under `loading_frame().is_some()`",
    ("RenderContext::render_loading_frame", "jxl_render::RenderContext::loading_frame"):
        "private; its only caller tests `loading_frame().is_some()` first, and nothing in between takes the frame",
    ("RenderContext::postprocess_keyframe::{closure}", "*"):
        "the cached transform was stored by cache_color_transform() just before; planes were converted to float by convert_modular_color",
}


def source_of(f, defs, l):
    seen = set()
    while l is not None and l not in seen:
        seen.add(l)
        ds = [d for d in defs.of(l) if d[2] in ("assign", "call") and not f.is_cleanup(d[0])]
        if len(ds) != 1:
            return "multi"
        d = ds[0]
        if d[2] == "call":
            c = callee(d[3])
            if not c:
                return "indirect"
            nm = strip_generics(c.get("res") or c["fn"])
            last = nm.split("::")[-1]
            if (nm.startswith("core::option::Option") or nm.startswith("core::ops::") or nm.startswith("<core::option::Option")) and last in ADAPTORS and d[3][2]:
                l = op_local(d[3][2][0])
                continue
            return nm
        rv = d[3][2]
        if rv[0] in ("use", "ref", "cast"):
            p = op_place(rv[1]) if rv[0] == "use" else (rv[2] if rv[0] == "ref" else op_place(rv[2]))
            if p is None:
                return "const"
            fl = [e[2] for e in p[1:] if isinstance(e, list) and e[0] == "." and e[2]]
            if fl:
                return "field:" + str(fl[-1])
            l = p[0]
            continue
        return rv[0]
    return "?"


def run(ctx):
    rid = "R-API-UNWRAP"
    ctx.rule(rid, "every Option::unwrap / expect in the API crate jxl_oxide and in jxl_render::RenderContext (the context API it forwards to) is in the reviewed table, keyed by (function, where the Option "
                  "comes from: the producing callee or field, followed back through copies, `?` and the Option adaptors); a new pair is "
                  "an unreviewed claim that a lookup cannot fail - on untrusted or partially loaded input it is a reachable panic")
    ox = ctx.prog.crate("jxl_oxide")
    rc = [f for f in ctx.prog.crate("jxl_render").fn_list if f.path.startswith("jxl_render::RenderContext")]
    n = 0
    for f in list(ox.fn_list) + rc:
        if f.kind == "Promoted":
            continue
        defs = None
        for b, t in f.calls():
            c = callee(t)
            if not c:
                continue
            nm = c["fn"]
            if not (nm.startswith("core::option::Option::<T>::") and nm.split("::")[-1] in ("unwrap", "expect")) or t[-1] is True:      # macro expansions (tracing's field iterators) are not the crate's claims
                continue
            if defs is None:
                defs = Defs(f)
                ctx.seen(f)
            src = source_of(f, defs, op_local(t[2][0]) if t[2] else None)
            n += 1
            reason = None
            for (suffix, s), why in REVIEWED.items():
                fp = re.sub(r"::\{closure#\d+\}", "::{closure}", f.path)
                if fp.endswith(suffix) and (s == "*" or s == src):
                    reason = why
                    break
            key = "%s<-%s" % (strip_generics(re.sub(r"::\{closure#\d+\}", "::{closure}", f.path)), src)
            if reason:
                ctx.ok(rid, key, reason, fn=f)
            else:
                ctx.bad(rid, key, "Option::%s on a value produced by `%s`: not in the reviewed table - nothing establishes that it cannot be None "
                        "for every input and every moment of a partial load" % (nm.split("::")[-1], src), fn=f, pos=t[-2])
    ctx.count(rid + ".unwraps", n)
    ctx.floor(rid + ".unwraps", 7)

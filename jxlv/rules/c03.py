"""C03 - lossless Modular images decode exactly (claimed narrowly: format tables, predictor codes, and the one partition every channel
goes through).  Sample-exact equality with an independent encoder is value-level and not decided."""
from ..engine import Ctx
from ..facts import callee, op_const_int, op_place, place_fields, pos_line
from . import specconst, enummap

GM = "jxl_modular::image::ModularImageDestination::<S>::prepare_gmodular"
GR = "jxl_modular::image::ModularImageDestination::<S>::prepare_groups"


def closure_sig(f, prog=None, depth=0):
    """operators, loaded field names and constants of a (small) predicate closure; calls to functions of the same crate are replaced
    by the callee's own signature (a predicate moved into a shared helper is still the same predicate)"""
    out = []
    for blk in f.blocks:
        if blk[2]:
            continue
        for st in blk[0]:
            if st[0] != "=":
                continue
            rv = st[2]
            if rv[0] == "bin":
                out.append("op:" + rv[1])
                for o in (rv[2], rv[3]):
                    k = op_const_int(o)
                    if k is not None:
                        out.append("k:%d" % k)
            ps = []
            if rv[0] == "use":
                p = op_place(rv[1])
                if p is not None:
                    ps.append(p)
            elif rv[0] == "ref":
                ps.append(rv[2])
            for p in ps:
                for n, a in place_fields(p):
                    if n is not None and not str(n).isdigit():
                        out.append("field:" + str(n))
        t = blk[1]
        if t[0] == "call" and callee(t):
            c = callee(t)
            g = prog.fn(c.get("res") or c["fn"]) if prog is not None and depth < 3 else None
            if g is not None and g.path.split("::")[0].lstrip("<&") == f.path.split("::")[0].lstrip("<&") and len(g.blocks) < 60:
                out.extend(closure_sig(g, prog, depth + 1))
            else:
                out.append("call:" + c["fn"].split("::")[-1])
    return sorted(out)


def rule_chansplit(ctx):
    rid = "R-CHANSPLIT"
    ctx.rule(rid, "every channel of a Modular image is decoded exactly once: the predicate that keeps a channel in the global section "
                  "(take_while in prepare_gmodular) and the predicate that skips it when the group sections are laid out (skip_while in "
                  "prepare_groups) are the same function of (index, nb_meta_channels, width, height, group_dim): identical operators, "
                  "fields and constants; and the LF-group / pass-group threshold is one constant used consistently (shift < 3 vs shift - 3)")
    md = ctx.prog.crate("jxl_modular")
    fams = {}
    for f in md.fn_list:
        for root in (GM, GR):
            if f.path.startswith(root + "::{closure"):
                fams.setdefault(root, []).append(f)
    if GM not in fams or GR not in fams:
        ctx.anchor_missing(rid, "closures of prepare_gmodular / prepare_groups")
        return
    preds = {}
    for root, fs in fams.items():
        for f in fs:
            if f.local_ty(0) == "bool":
                sig = closure_sig(f, ctx.prog)
                if any(x == "field:width" for x in sig) and any(x == "field:height" for x in sig):
                    preds[root] = (f, sig)
    if GM not in preds or GR not in preds:
        ctx.bad(rid, "split-predicates-missing", "cannot find the width/height predicate closures of prepare_gmodular and prepare_groups")
        return
    (f1, s1), (f2, s2) = preds[GM], preds[GR]
    ctx.seen(f1)
    ctx.seen(f2)
    if s1 == s2:
        ctx.ok(rid, "split-predicates-agree", "take_while / skip_while predicates: %d identical operations" % len(s1), nontrivial=True, fn=f1)
    else:
        d1 = [x for x in s1 if s1.count(x) != s2.count(x)]
        d2 = [x for x in s2 if s1.count(x) != s2.count(x)]
        ctx.bad(rid, "split-predicates-differ", "the global-section predicate and the group-section predicate differ (global only: %s; groups "
                "only: %s): some channel is decoded twice or never" % (sorted(set(d1)) or "-", sorted(set(d2)) or "-"), fn=f2)
    # LF / pass threshold: constants compared with the shifts and subtracted from them in prepare_groups agree
    g = md.fn(GR)
    if g is None:
        ctx.anchor_missing(rid, GR)
        return
    ctx.seen(g)
    cmp_k, sub_k = set(), set()
    for blk in g.blocks:
        if blk[2]:
            continue
        for st in blk[0]:
            if st[0] == "=" and st[2][0] == "bin":
                op = st[2][1]
                k = op_const_int(st[2][3])
                if k is None or k <= 0 or k > 16:
                    continue
                nm = None
                p = op_place(st[2][2])
                l = p[0] if p is not None and len(p) == 1 else None
                if l is not None:
                    nm = g.local_name(l)
                    if nm is None:
                        for blk2 in g.blocks:
                            for st2 in blk2[0]:
                                if st2[0] == "=" and st2[1] == [l] and st2[2][0] == "use" and op_place(st2[2][1]) is not None and len(op_place(st2[2][1])) == 1:
                                    nm = g.local_name(op_place(st2[2][1])[0]) or nm
                if nm in ("hshift", "vshift"):
                    if op in ("Lt", "Ge", "Le", "Gt"):
                        cmp_k.add(k if op in ("Lt", "Ge") else k + 1)
                    elif op in ("Sub", "SubWithOverflow"):
                        sub_k.add(k)
    if cmp_k and sub_k and cmp_k == sub_k and len(cmp_k) == 1:
        ctx.ok(rid, "lf-threshold-consistent", "channels with hshift, vshift >= %d go to LF groups sized by shift - %d" % (min(cmp_k), min(sub_k)), nontrivial=True, fn=g)
    elif not cmp_k or not sub_k:
        ctx.ok(rid, "lf-threshold-consistent", "threshold not expressed through hshift/vshift locals (not checked)", fn=g)
    else:
        ctx.bad(rid, "lf-threshold-inconsistent", "the shift threshold that sends a channel to the LF groups (%s) differs from the amount "
                "subtracted when its LF-group size is computed (%s)" % (sorted(cmp_k), sorted(sub_k)), fn=g)


def rule_rle_scope(ctx):
    """the run state of the RLE-mode (libjxl fast-lossless) decoder lives exactly as long as the RLE decoder it belongs to"""
    rid = "R-RLE-SCOPE"
    ctx.rule(rid, "a run of the RLE entropy mode may continue from one channel into the next, so the state that carries it (RleState) must "
                  "have the scope of the RLE decoder (DecoderRleMode): every RleState is constructed in the function that obtains the "
                  "DecoderRleMode, and not inside a loop that the decoder's creation is outside of.  A per-channel state drops the rest of "
                  "a run at every channel boundary")
    md = ctx.prog.crate("jxl_modular")
    adt = next((k for k in md.adts if k.endswith("::RleState")), None)
    if adt is None:
        ctx.anchor_missing(rid, "jxl_modular::..::RleState")
        return
    sites = []
    for f in md.fn_list:
        if f.kind == "Promoted":
            continue
        own = f.path.startswith(adt + "::") or ("<" + adt) in f.path
        for b, t in f.calls():
            c = callee(t)
            if c and c["fn"].split("::<")[0] == adt and c["fn"].endswith("::new") and not own:
                sites.append((f, b, t[-2]))
        if not own:
            for b, blk in enumerate(f.blocks):
                if blk[2]:
                    continue
                for st in blk[0]:
                    if st[0] == "=" and st[2][0] == "agg" and st[2][1][0] == "adt" and st[2][1][1] == adt:
                        sites.append((f, b, st[3]))
    if not sites:
        ctx.anchor_missing(rid, "a construction of RleState outside its own impl")
        return
    for f, b, pos in sites:
        ctx.seen(f)
        created = [cb for cb, t in f.calls() if t[3] and len(t[3]) == 1 and "jxl_coding::DecoderRleMode" in f.local_ty(t[3][0]) and not f.local_ty(t[3][0]).startswith("&")]
        key = "rle-state:%s" % f.path
        if not created:
            ctx.bad(rid, key + "|not-decoder-scope", "%s constructs an RleState but does not obtain the RLE decoder itself (it is handed one): the "
                    "run state is reset whenever this function is called again for the same stream, so a run that continues into the next "
                    "channel is lost" % f.path, fn=f, pos=pos)
            continue
        in_loop = any(b in f.reachable(x) for x in f.succs(b))
        loop = (f.reachable(b) & {x for x in range(len(f.blocks)) if b in f.reachable(x)}) | {b} if in_loop else set()
        if in_loop and not any(cb in loop for cb in created):
            ctx.bad(rid, key + "|per-iteration", "%s constructs the RleState inside a loop that the RLE decoder's creation is outside of: the run "
                    "state is reset on every iteration" % f.path, fn=f, pos=pos)
        else:
            ctx.ok(rid, key, "constructed once next to the DecoderRleMode it belongs to", nontrivial=True, fn=f)


def rule_prevchan(ctx):
    """a decoder that resets the predictor state without previous channels is never used for a tree that tests one"""
    from .. import validation
    from ..mirutil import Defs
    from ..facts import op_local
    rid = "R-PREVCHAN"
    ctx.rule(rid, "properties 16 and above read samples of previous channels; PredictorState::reset(width, prev_channels, ..) decides which "
                  "previous channels exist, and a missing one reads as 0.  Every function that resets with an *empty* previous-channel "
                  "list must be unable to evaluate such a property: it decodes a single leaf (no decisions), or it decodes a "
                  "SimpleMaTable and FlatMaTree::simple_table() refuses (returns None for) tables whose decision property is >= 16")
    md = ctx.prog.crate("jxl_modular")
    sites = []
    for f in md.fn_list:
        if f.kind == "Promoted":
            continue
        d = None
        for b, t in f.calls():
            c = callee(t)
            if not c or not ("predictor::PredictorState::<" in c["fn"] and c["fn"].endswith(">::reset")) or len(t[2]) < 3:
                continue
            if d is None:
                d = Defs(f)
            # is the previous-channel argument a constant empty slice?
            l = op_local(t[2][2])
            empty = False
            seen = set()
            while l is not None and l not in seen:
                seen.add(l)
                df = d.single(l)
                if not df or df[2] != "assign":
                    break
                rv = df[3][2]
                o = rv[1] if rv[0] == "use" else (rv[2] if rv[0] == "cast" else None)
                if rv[0] == "ref":
                    l = rv[2][0]
                    continue
                if o is None:
                    break
                if o[0] == "k" and isinstance(o[1], dict):
                    empty = "; 0]" in str(o[1].get("ty", ""))
                    break
                p = op_place(o)
                l = p[0] if p is not None else None
            sites.append((f, b, t, empty))
    ctx.count(rid + ".reset-sites", len(sites))
    ctx.floor(rid + ".reset-sites", 3)
    st_fn = next((g for g in md.fn_list if g.path.endswith("FlatMaTree::simple_table")), None)
    guard = None
    if st_fn is not None:
        nones = validation.none_return_blocks(st_fn)
        for c in validation.checks(st_fn, errs=nones):
            txt = validation.norm(c["subject"], c["op"], c["other"])
            if c["op"] in (">", ">=") and isinstance(c["other"], int) and "prop" in str(c["subject"]):
                k = c["other"] if c["op"] == ">=" else c["other"] + 1
                if k <= 16:
                    guard = txt
    for f, b, t, empty in sites:
        ctx.seen(f)
        key = "reset:%s" % f.path
        if not empty:
            ctx.ok(rid, key, "resets with the previous channels it was given", fn=f)
            continue
        tys = [f.local_ty(i) for i in range(1, f.argc + 1)]
        if any("SimpleMaTable" in x for x in tys):
            if guard:
                ctx.ok(rid, key, "empty previous channels; simple_table() refuses tables on previous-channel properties (`%s` -> None)" % guard,
                       nontrivial=True, fn=f)
            else:
                ctx.bad(rid, key + "|table-on-prev-channel", "%s resets the predictor state without previous channels and decodes a SimpleMaTable, but "
                        "FlatMaTree::simple_table() does not refuse tables whose decision property is >= 16: such a property always reads 0, the "
                        "wrong context is chosen and a valid lossless image fails to decode or decodes wrongly" % f.path, fn=f, pos=t[-2])
        elif not any("FlatMaTree" in x for x in tys) and not any("FlatMaTree" in l[0] for l in f.locals):
            ctx.ok(rid, key, "empty previous channels; no MA tree with decisions is evaluated here (single leaf / no tree)", nontrivial=True, fn=f)
        else:
            ctx.bad(rid, key + "|general-tree-without-prev", "%s resets the predictor state without previous channels but is not restricted to "
                    "single-leaf or refused-table trees" % f.path, fn=f, pos=t[-2])


def rule_prevdepth(ctx):
    """the number of previous channels kept for a tree covers every previous-channel property the tree tests"""
    from ..mirutil import const_walk, Defs
    from ..facts import op_local, op_const_int
    rid = "R-PREVDEPTH"
    ctx.rule(rid, "property 16 + e reads previous channel e / 4 (Properties::get_extra), so a tree that tests it needs e / 4 + 1 previous "
                  "channels.  In FlatMaTree::new (and the closures it creates) every integer computed from `prop.checked_sub(16)` that "
                  "feeds the maximum stored as max_prev_channel_depth is evaluated for e = 0..11 by constant propagation (division, "
                  "shifts, +, div_ceil, casts) and must be >= e / 4 + 1 for each e.  One channel too few makes the property read 0 "
                  "silently")
    md = ctx.prog.crate("jxl_modular")
    root = next((g for g in md.fn_list if g.path.endswith("FlatMaTree::new")), None)
    if root is None:
        ctx.anchor_missing(rid, "jxl_modular::ma::FlatMaTree::new")
        return
    fam = [g for g in md.fn_list if g.kind != "Promoted" and (g.path == root.path or g.path.startswith(root.path + "::{closure"))]
    # private helpers the constructor calls directly (the depth formula may live in one)
    known = {g.path for g in fam}
    for g in list(fam):
        for _, t in g.calls():
            c = callee(t)
            h = md.fn(c.get("res") or c["fn"]) if c else None
            if h is not None and h.path not in known and h.kind != "Promoted" and len(h.blocks) < 60 and h.path.startswith("jxl_modular::ma::"):
                known.add(h.path)
                fam.append(h)
    ctx.seen(root)

    def pure_call(t, e, val_of):
        c = callee(t)
        if not c or not t[3] or len(t[3]) != 1:
            return
        nm = c["fn"].split("::")[-1].split("<")[0]
        args = [val_of(a, e) for a in t[2]]
        if any(a is None for a in args):
            return
        r = None
        if nm == "div_ceil" and len(args) == 2 and args[1]:
            r = -(-args[0] // args[1])
        elif nm == "next_multiple_of" and len(args) == 2 and args[1]:
            r = -(-args[0] // args[1]) * args[1]
        elif nm in ("from", "into", "try_from", "unwrap", "unwrap_or") and args:
            r = args[0]
        elif nm == "saturating_add" and len(args) == 2:
            r = args[0] + args[1]
        if r is not None:
            e[t[3][0]] = r

    results = []       # (fn, description, {e: value})
    for g in fam:
        d = Defs(g)
        # (a) payload of checked_sub(_, 16)
        for b, t in g.calls():
            c = callee(t)
            if not (c and c["fn"].split("::")[-1] == "checked_sub" and len(t[2]) == 2 and op_const_int(t[2][1]) == 16 and t[3] and len(t[3]) == 1):
                continue
            opt = t[3][0]
            vals = {}
            for x in range(12):
                got = []

                def on_term(bb, tt, e, val_of):
                    if tt[0] == "call":
                        cc = callee(tt)
                        nm = cc["fn"].split("::")[-1] if cc else ""
                        if nm == "max" and len(tt[2]) == 2:
                            known = [val_of(a, e) for a in tt[2]]
                            known = [k for k in known if k is not None]
                            if known:
                                got.append(max(known))
                            return False
                        pure_call(tt, e, val_of)
                    if tt[0] == "ret":
                        # in a helper the depth is what it returns
                        if g.path != root.path and "{closure" not in g.path and e.get(0) is not None:
                            got.append(e[0])
                        return False

                pv = lambda p, x=x: x if (p[0] == opt and any(isinstance(q, list) and q[0] == "as" and q[1] == "Some" for q in p[1:])) else None
                try:
                    const_walk(g, t[4], {}, on_term, place_value=pv, discr=lambda p: 1 if p == [opt] else None, limit=3000)
                except RuntimeError:
                    pass
                if len(set(got)) == 1:
                    vals[x] = got[0]
            if vals:
                results.append((g, "checked_sub(16) at line %d" % pos_line(t[-2]), vals))
        # (b) a closure of one integer argument that contains a quartering operation and returns an integer
        if g.kind == "Closure" and g.argc == 2 and g.local_ty(2) in ("u32", "usize") and g.local_ty(0) in ("u32", "usize"):
            quarter = any((st[0] == "=" and st[2][0] == "bin" and ((st[2][1].startswith("Div") and op_const_int(st[2][3]) == 4)
                                                                  or (st[2][1].startswith("Shr") and op_const_int(st[2][3]) == 2)))
                          for blk in g.blocks if not blk[2] for st in blk[0]) \
                or any(callee(t) and callee(t)["fn"].split("::")[-1] in ("div_ceil", "next_multiple_of") for _, t in g.calls())
            if quarter:
                vals = {}
                for x in range(12):
                    got = []

                    def on_ret(bb, tt, e, val_of):
                        if tt[0] == "call":
                            pure_call(tt, e, val_of)
                        if tt[0] == "ret" and e.get(0) is not None:
                            got.append(e[0])

                    try:
                        const_walk(g, 0, {2: x}, on_ret, limit=3000)
                    except RuntimeError:
                        pass
                    if len(set(got)) == 1:
                        vals[x] = got[0]
                if vals:
                    results.append((g, "closure over the extra-property index", vals))
    ctx.count(rid + ".depth-expressions", len(results))
    if not results:
        ctx.anchor_missing(rid, "an evaluable depth expression derived from checked_sub(16) in FlatMaTree::new")
        return
    for g, what, vals in results:
        bad = {x: v for x, v in vals.items() if v < x // 4 + 1}
        key = "depth:%s|%s" % (g.path, what.split(" at ")[0])
        if bad:
            x = min(bad)
            ctx.bad(rid, key + "|too-small", "%s (%s): for property 16 + %d the tree is given %d previous channel(s), but the property reads "
                    "previous channel %d (needs %d): it silently reads 0 and the wrong context is used (%d of %d values of the extra "
                    "index are short)" % (g.path.split("::")[-2] + "::" + g.path.split("::")[-1], what, x, bad[x], x // 4, x // 4 + 1,
                                            len(bad), len(vals)), fn=g)
        else:
            ctx.ok(rid, key, "%s: depth(e) >= e / 4 + 1 for e = %s" % (what, sorted(vals)), nontrivial=True, fn=g)


def rule_table_index(ctx):
    """lookup tables compiled from MA trees are indexed the same way everywhere: (property - base), saturating"""
    from ..facts import op_local
    from ..intervals import value_class
    rid = "R-TABLE-INDEX"
    ctx.rule(rid, "the base value of a compiled MA lookup table (field `value_base` of FlatMaTreeNode::Table / SimpleMaTable, and every "
                  "function parameter that receives it) is only ever subtracted from a property with saturating_sub: thresholds come "
                  "from the stream and can be near i32::MIN, where a plain subtraction overflows (panic in checked builds, wrong entry "
                  "otherwise) and the sibling lookups would disagree")
    md = ctx.prog.crate("jxl_modular")
    carriers = {}       # fn path -> set of locals
    fns = [f for f in md.fn_list if f.kind != "Promoted"]
    for f in fns:
        for blk in f.blocks:
            if blk[2]:
                continue
            for st in blk[0]:
                if st[0] == "=" and len(st[1]) == 1 and st[2][0] == "use":
                    pl = op_place(st[2][1])
                    if pl is None:
                        continue
                    fl = [e for e in pl[1:] if isinstance(e, list) and e[0] == "."]
                    if fl and pl[-1] is fl[-1] and fl[-1][2] == "value_base":
                        carriers.setdefault(f.path, set()).update(value_class(f, st[1][0]))
    # parameters that receive a carrier
    for _ in range(2):
        for f in fns:
            cs = carriers.get(f.path, set())
            if not cs:
                continue
            for b, t in f.calls():
                c = callee(t)
                g = md.fn(c.get("res") or c["fn"]) if c else None
                if g is None:
                    continue
                for i, a in enumerate(t[2]):
                    if op_local(a) in cs:
                        carriers.setdefault(g.path, set()).update(value_class(g, i + 1))
    sat = plain = 0
    for f in fns:
        cs = carriers.get(f.path)
        if not cs:
            continue
        ctx.seen(f)
        for b, blk in enumerate(f.blocks):
            if blk[2]:
                continue
            for st in blk[0]:
                if st[0] == "=" and st[2][0] == "bin" and st[2][1] in ("Sub", "SubWithOverflow", "SubUnchecked") and op_local(st[2][3]) in cs:
                    plain += 1
                    ctx.bad(rid, "plain-sub:%s" % f.path, "%s subtracts the table base with a plain `-`: a threshold near i32::MIN overflows "
                            "(the tree walk uses saturating_sub for the same index)" % f.path, fn=f, pos=st[3])
            t = blk[1]
            if t[0] == "call" and callee(t) and callee(t)["fn"].endswith("::saturating_sub") and len(t[2]) == 2 and op_local(t[2][1]) in cs:
                sat += 1
                ctx.ok(rid, "saturating:%s" % f.path, "property.saturating_sub(value_base)", nontrivial=True, fn=f)
    ctx.count(rid + ".saturating-sites", sat)
    ctx.floor(rid + ".saturating-sites", 1)


def rule_palette_fastpath(ctx):
    """the table-lookup fast path of the inverse palette is only taken when no delta entry is present"""
    from ..facts import op_place, op_local
    from ..mirutil import Defs
    rid = "R-PALETTE-FASTPATH"
    ctx.rule(rid, "Palette::inverse_inner replaces every index by its palette entry on a fast path (inverse_simple) that adds no "
                  "prediction.  Indices below nb_deltas are delta entries (value = entry + d_pred prediction), so the decision to take "
                  "the fast path has to depend on nb_deltas: the value the guarding branch tests is produced by a call one of whose "
                  "arguments - or, for a closure, captured values - derives from the field `nb_deltas` (today: "
                  "`(nb_deltas..nb_colors).contains(index)`).  Without it an image all of whose indices are explicit entries "
                  "decodes its delta entries unpredicted (D53)")
    md = ctx.prog.crate("jxl_modular")
    fs = [f for f in md.fn_list if f.path.endswith("::inverse_inner") and "palette" in f.path and f.kind != "Promoted"]
    if len(fs) != 1:
        ctx.anchor_missing(rid, "Palette::inverse_inner")
        return
    f = fs[0]
    ctx.seen(f)
    defs = Defs(f)
    fast = [b for b, t in f.calls() if callee(t) and callee(t)["fn"].endswith("inverse_simple")]
    if not fast:
        ctx.ok(rid, "no-fast-path", "inverse_inner has no separate fast path", fn=f)
        return

    def from_nb_deltas(l, depth=0, seen=None):
        seen = seen if seen is not None else set()
        if l is None or l in seen or depth > 12:
            return False
        seen.add(l)
        for d in defs.of(l):
            if f.is_cleanup(d[0]):
                continue
            if d[2] == "call":
                if any(from_nb_deltas(op_local(a), depth + 1, seen) for a in d[3][2]):
                    return True
                continue
            if d[2] != "assign":
                continue
            rv = d[3][2]
            places = [rv[2]] if rv[0] == "ref" else [op_place(o) for o in
                                                    ([rv[1]] if rv[0] in ("use",) else ([rv[2]] if rv[0] in ("cast", "un") else
                                                                                        ([rv[2], rv[3]] if rv[0] == "bin" else (rv[2] if rv[0] == "agg" else []))))]
            for pl in places:
                if pl is None:
                    continue
                if any(isinstance(e, list) and e[0] == "." and e[2] == "nb_deltas" for e in pl[1:]):
                    return True
                if from_nb_deltas(pl[0], depth + 1, seen):
                    return True
        return False

    ok = False
    for fb in fast:
        for sb, blk in enumerate(f.blocks):
            if blk[2] or blk[1][0] != "switch" or not f.dominates(sb, fb) or sb == fb:
                continue
            if from_nb_deltas(op_local(blk[1][1])):
                ok = True
    if ok:
        ctx.ok(rid, "fast-path-depends-on-nb_deltas", "the branch that selects inverse_simple tests a value derived from nb_deltas", nontrivial=True, fn=f)
    else:
        ctx.bad(rid, "fast-path-ignores-nb_deltas", "the branch that selects the table-lookup fast path does not depend on nb_deltas: explicit "
                "delta entries (index < nb_deltas) are written out without their prediction", fn=f, pos=f.term_pos(fast[0]))


def rule_palette_delta(ctx):
    """decision table of `this pixel is recorded for prediction` over (index, nb_deltas), extracted by a product-state walk of MIR"""
    from ..facts import op_place, op_local, op_const
    rid = "R-PALETTE-DELTA"
    ctx.rule(rid, "on the slow path of Palette::inverse_inner a pixel gets the d_pred prediction added iff its index is below nb_deltas - "
                  "including every negative index (the implicit delta palette).  The decision table of `the pixel's position is pushed "
                  "onto the to-be-predicted list before the next pixel is read` is extracted from MIR for index in {-200,-2,-1,0,1,2,3,5,70} x "
                  "nb_deltas in {0,2} (nb_colours = 4) by a product-state walk (block x known integer locals; integer comparisons, "
                  "Range / RangeInclusive::contains and casts are evaluated, every other value is unknown and both branches of a test "
                  "on an unknown value are followed) and compared with `index < nb_deltas`.  A lower bound on the index in that test "
                  "(seed C03i) leaves implicit delta entries unpredicted")
    md = ctx.prog.crate("jxl_modular")
    fs = [f for f in md.fn_list if f.path.endswith("::inverse_inner") and "palette" in f.path and f.kind == "AssocFn"]
    if len(fs) != 1:
        ctx.anchor_missing(rid, "Palette::inverse_inner")
        return
    f = fs[0]
    ctx.seen(f)
    # the two width-converted header fields
    fld = {}
    for b, blk in enumerate(f.blocks):
        for st in blk[0]:
            if st[0] == "=" and st[2][0] == "use":
                pl = op_place(st[2][1])
                if pl:
                    for e in pl[1:]:
                        if isinstance(e, list) and e[0] == "." and e[2] in ("nb_deltas", "nb_colours") and len(st[1]) == 1:
                            fld[st[1][0]] = e[2]
    wide = {}
    for b, blk in enumerate(f.blocks):
        for st in blk[0]:
            if st[0] == "=" and st[2][0] == "cast" and len(st[1]) == 1 and op_local(st[2][2]) in fld:
                wide[fld[op_local(st[2][2])]] = st[1][0]
    if set(wide) != {"nb_deltas", "nb_colours"}:
        ctx.anchor_missing(rid, "the i32 copies of nb_deltas / nb_colours in Palette::inverse_inner")
        return
    pushes = [b for b, t in f.calls() if callee(t) and callee(t)["fn"] == "alloc::vec::Vec::<T, A>::push" and "(usize, usize)" in str(callee(t).get("args"))]
    if not pushes:
        ctx.anchor_missing(rid, "the push of a pixel position onto the to-be-predicted list")
        return
    # candidate: the to_i32 call from whose return a position push is reachable without another to_i32
    cands = []
    for b, t in f.calls():
        c = callee(t)
        if not c or not c["fn"].endswith("Sample::to_i32") or t[4] is None or len(t[3]) != 1:
            continue
        seen, work, hit = {t[4]}, [t[4]], False
        while work:
            x = work.pop()
            if x in pushes:
                hit = True
                break
            tx = f.term(x)
            if tx[0] == "call" and callee(tx) and callee(tx)["fn"].endswith("Sample::to_i32"):
                continue
            for y in f.succs(x):
                if y not in seen and not f.is_cleanup(y):
                    seen.add(y)
                    work.append(y)
        if hit:
            cands.append((b, t))
    if len(cands) != 1:
        ctx.anchor_missing(rid, "the read of the palette index that precedes the prediction bookkeeping (found %d)" % len(cands))
        return
    cb, ct = cands[0]
    idx_local = ct[3][0]
    UNK = None

    def val(env, o):
        k = op_const(o)
        if k is not None:
            try:
                return int(k["v"]) if "v" in k and str(k.get("ty")) in ("i32", "u32", "usize", "isize", "i64", "u64", "bool", "i16", "u16", "u8", "i8") else UNK
            except (TypeError, ValueError):
                return UNK
        pl = op_place(o)
        if pl is None:
            return UNK
        v = env.get(pl[0], UNK)
        for e in pl[1:]:
            if e == "*":
                if isinstance(v, tuple) and v[0] == "ref":
                    v = env.get(v[1], UNK)
                else:
                    return UNK
            elif isinstance(e, list) and e[0] == "." and isinstance(v, tuple) and v[0] == "pair":
                v = v[1 + e[1]] if e[1] < 2 else UNK
            else:
                return UNK
        return v

    def binop(op, a, b):
        if not isinstance(a, int) or not isinstance(b, int):
            return UNK
        r = {"Lt": lambda: int(a < b), "Le": lambda: int(a <= b), "Gt": lambda: int(a > b), "Ge": lambda: int(a >= b),
             "Eq": lambda: int(a == b), "Ne": lambda: int(a != b), "Add": lambda: a + b, "Sub": lambda: a - b,
             "BitAnd": lambda: a & b, "BitOr": lambda: a | b,
             "AddWithOverflow": lambda: ("pair", a + b, 0), "SubWithOverflow": lambda: ("pair", a - b, 0)}.get(op)
        return r() if r else UNK

    def step_block(env, b):
        for st in f.stmts(b):
            if st[0] != "=":
                continue
            dst = st[1]
            if len(dst) != 1:
                if not (len(dst) > 1 and dst[1] == "*"):
                    env.pop(dst[0], None)
                continue
            rv = st[2]
            v = UNK
            # only values derived from the three seeded locals are tracked: a bare constant (a loop counter's start) is not
            if rv[0] == "use":
                v = val(env, rv[1]) if op_const(rv[1]) is None else UNK
            elif rv[0] == "cast" and rv[1] == "IntToInt":
                v = val(env, rv[2]) if op_const(rv[2]) is None else UNK
                v = v if isinstance(v, int) and -2 ** 31 <= v < 2 ** 31 and not (v < 0 and str(rv[3]).startswith("u")) else UNK
            elif rv[0] == "bin":
                v = binop(rv[1], val(env, rv[2]), val(env, rv[3])) if op_const(rv[2]) is None or op_const(rv[3]) is None else UNK
            elif rv[0] == "un" and rv[1] == "Not":
                a = val(env, rv[2])
                v = int(not a) if a in (0, 1) else UNK
            elif rv[0] == "ref":
                pl = rv[2]
                if len(pl) == 1:
                    v = ("ref", pl[0])
                elif len(pl) == 2 and pl[1] == "*" and isinstance(env.get(pl[0]), tuple) and env[pl[0]][0] == "ref":
                    v = env[pl[0]]
            elif rv[0] == "agg" and rv[1][0] == "adt" and rv[1][1] in ("core::ops::range::Range", "core::ops::range::RangeInclusive") and len(rv[2]) >= 2:
                v = ("range" if rv[1][1].endswith("Range") else "rangei", val(env, rv[2][0]), val(env, rv[2][1]))
            if v is UNK:
                env.pop(dst[0], None)
            else:
                env[dst[0]] = v
        return env

    def deref(env, v):
        n = 0
        while isinstance(v, tuple) and v[0] == "ref" and n < 4:
            v = env.get(v[1], UNK)
            n += 1
        return v

    def freeze(env):
        return tuple(sorted(env.items(), key=lambda kv: kv[0]))

    def walk(index, nd, nc):
        env0 = {idx_local: index, wide["nb_deltas"]: nd, wide["nb_colours"]: nc}
        start = (ct[4], False, freeze(env0))
        seen, work, verdicts = {start}, [start], set()
        n = 0
        while work:
            b, pushed, envt = work.pop()
            n += 1
            if n > 40000:
                return None
            if b == cb:
                verdicts.add(pushed)
                continue
            env = step_block(dict(envt), b)
            t = f.term(b)
            nxt = []
            if t[0] == "ret":
                verdicts.add(pushed)
                continue
            if t[0] == "switch":
                v = val(env, t[1])
                if isinstance(v, int):
                    tgt = t[3]
                    for sv, x in t[2]:
                        if int(sv) == int(v):
                            tgt = x
                    nxt = [tgt]
                else:
                    nxt = [x for _, x in t[2]] + [t[3]]
            elif t[0] == "call":
                c = callee(t)
                r = UNK
                nm = c["fn"] if c else ""
                if b in pushes:
                    pushed = True
                elif nm.startswith("core::ops::range::Range") and nm.endswith("::contains") and len(t[2]) == 2:
                    rg, x = deref(env, val(env, t[2][0])), deref(env, val(env, t[2][1]))
                    if isinstance(rg, tuple) and rg[0] in ("range", "rangei") and all(isinstance(q, int) for q in (rg[1], rg[2], x)):
                        r = int(rg[1] <= x < rg[2]) if rg[0] == "range" else int(rg[1] <= x <= rg[2])
                elif nm.endswith("RangeInclusive::<Idx>::new") and len(t[2]) == 2:
                    r = ("rangei", val(env, t[2][0]), val(env, t[2][1]))
                if len(t[3]) == 1:
                    if r is UNK:
                        env.pop(t[3][0], None)
                    else:
                        env[t[3][0]] = r
                else:
                    env.pop(t[3][0], None)
                # a call that is handed a mutable reference to a tracked local may change it
                for a in t[2]:
                    av = val(env, a)
                    if isinstance(av, tuple) and av[0] == "ref" and b not in pushes and not nm.endswith("::contains"):
                        if "&mut" in str(f.local_ty(op_local(a))) if op_local(a) is not None else False:
                            env.pop(av[1], None)
                nxt = [t[4]] if t[4] is not None else []
            elif t[0] == "goto":
                nxt = [t[1]]
            elif t[0] == "assert":
                nxt = [t[4]]
            elif t[0] == "drop":
                nxt = [t[2]]
            elif t[0] in ("falseedge", "falseunwind"):
                nxt = [t[1]]
            envt2 = freeze(env)
            for x in nxt:
                if f.is_cleanup(x):
                    continue
                s2 = (x, pushed, envt2)
                if s2 not in seen:
                    seen.add(s2)
                    work.append(s2)
        return verdicts

    rows, bad = 0, []
    for nd in (0, 2):
        for index in (-200, -2, -1, 0, 1, 2, 3, 5, 70):
            got = walk(index, nd, 4)
            rows += 1
            want = index < nd
            if got is None or got != {want}:
                bad.append((index, nd, got))
    ctx.count(rid + ".rows", rows)
    ctx.floor(rid + ".rows", 18)
    if not bad:
        ctx.ok(rid, "predict-iff-index-below-nb_deltas", "18 rows: the position is recorded for prediction exactly when index < nb_deltas, negative indices included",
               nontrivial=True, fn=f)
    else:
        index, nd, got = bad[0]
        what = "could not be decided (state limit)" if got is None else ("is recorded on some paths only" if len(got) != 1 else
                                                                          ("is recorded" if True in got else "is not recorded"))
        ctx.bad(rid, "predict-iff-index-below-nb_deltas", "index %d with nb_deltas %d (nb_colours 4): the pixel %s for prediction, the format says %s "
                "(%d of 18 rows differ)" % (index, nd, what, "it is a delta entry" if index < nd else "it is not a delta entry", len(bad)), fn=f)


def rule_predictor_formula(ctx):
    """the 13 stateless predictors compute the format's formulas of the neighbours"""
    from .. import absint
    rid = "R-PREDICTOR-FORMULA"
    ctx.rule(rid, "Predictor::predict, evaluated from MIR for each of the 13 stateless predictors under six neighbourhoods (positive, "
                  "negative, mixed signs, ties, large magnitudes) in the interior of a row (EDGE = false and true, x = 3 of 8), equals "
                  "the format's definition (ISO/IEC 18181-1 predictor table): 0, W, N, (W+N) Idiv 2, Select(W, N, NW), "
                  "clamp(W+N-NW, min(W,N), max(W,N)), NE, NW, WW, (W+NW) Idiv 2, (N+NW) Idiv 2, (N+NE) Idiv 2, "
                  "(6N - 2NN + 7W + WW + NEE + 3NE + 8) Idiv 16, with Idiv truncating.  Neighbours are read through the state's own "
                  "accessors (ne / nn / ww / nee) from row buffers with distinct values, so a formula that picks the wrong neighbour, "
                  "weight, rounding term or tie rule differs in at least one neighbourhood.  The self-correcting predictor (stateful) "
                  "is not covered")
    cr = ctx.prog.crate("jxl_modular")
    fs = [g for g in cr.fn_list if g.path.endswith("predictor::Predictor::predict")]
    adt = cr.adts.get("jxl_modular::predictor::Predictor")
    if len(fs) != 1 or adt is None:
        ctx.anchor_missing(rid, "jxl_modular::predictor::Predictor::predict")
        return
    f = fs[0]
    ctx.seen(f)

    def tdiv(a, b):
        q = abs(a) // abs(b)
        return q if (a >= 0) == (b >= 0) else -q

    def ref(name, W, N, NW, NE, NN, WW, NEE):
        return {"Zero": 0, "West": W, "North": N, "AvgWestAndNorth": tdiv(W + N, 2),
                "Select": W if abs(N - NW) < abs(W - NW) else N,
                "Gradient": max(min(W, N), min(max(W, N), W + N - NW)),
                "NorthEast": NE, "NorthWest": NW, "WestWest": WW,
                "AvgWestAndNorthWest": tdiv(W + NW, 2), "AvgNorthAndNorthWest": tdiv(N + NW, 2), "AvgNorthAndNorthEast": tdiv(N + NE, 2),
                "AvgAll": tdiv(6 * N - 2 * NN + 7 * W + WW + NEE + 3 * NE + 8, 16)}.get(name)

    # x = 3, width = 8: NE = prev_row[4], NEE = prev_row[5], NN = curr_row[3] (the row buffer still holds row y-2 there), WW = curr_row[1]
    hoods = [  # (W, N, NW, NE, NN, WW, NEE)
        (10, 20, -7, 50, 140, 12, 60), (-10, -21, -7, -50, -141, -13, -61), (5, -8, 3, 2, -1, 9, -4), (7, 7, 7, 7, 7, 7, 7),
        (100000, -99999, 65535, -32768, 2147000, -2147000, 31), (3, 9, 6, 1, 0, 0, 1)]
    rows, bad, undec = 0, [], None
    for vi, v in enumerate(adt["variants"]):
        if v["name"] == "SelfCorrecting":
            continue
        if ref(v["name"], 1, 1, 1, 1, 1, 1, 1) is None:
            ctx.bad(rid, "predictor|unknown:" + v["name"], "predictor variant %s has no entry in the reference table" % v["name"], fn=f)
            continue
        for (W, N, NW, NE, NN, WW, NEE) in hoods:
            st = {"w": W, "n": N, "nw": NW, "x": 3, "width": 8, "y": 5,
                  "prev_row": (901, 902, 903, 904, NE, NEE, 907, 908), "curr_row": (911, WW, 913, NN, 915, 916, 917, 918)}

            def ext(path, st=st):
                if isinstance(path[-1], int):
                    base = st.get(path[-2])
                    return base[path[-1]] if isinstance(base, tuple) and 0 <= path[-1] < len(base) else absint.UNKNOWN
                if path[-1] == "predictor":
                    return absint.Ref(("ext", "state"))
                return st.get(path[-1], absint.UNKNOWN)
            for edge in (0, 1):
                ev = absint.Evaluator(ctx.prog, ext=ext)
                ev.const_params = {"EDGE": edge}
                try:
                    got = ev.call_fn(f, [absint.Enum("jxl_modular::predictor::Predictor", vi, v["name"], []), absint.Ref(("ext", "properties"))])
                except absint.Unsupported as e:
                    undec = "%s: %s" % (v["name"], e)
                    break
                rows += 1
                want = ref(v["name"], W, N, NW, NE, NN, WW, NEE)
                if got != want:
                    bad.append((v["name"], (W, N, NW, NE, NN, WW, NEE), got, want))
            if undec:
                break
        if undec:
            break
    ctx.count(rid + ".rows", rows)
    if undec:
        ctx.bad(rid, "predict|not-evaluable", "Predictor::predict is no longer a function the evaluator can decide (%s)" % undec, fn=f)
        return
    ctx.floor(rid + ".rows", 13 * 6 * 2)
    if not bad:
        ctx.ok(rid, "predict|formulas", "%d evaluations equal the format's formulas" % rows, nontrivial=True, fn=f)
    else:
        name, hood, got, want = bad[0]
        ctx.bad(rid, "predict|formulas", "predictor %s with (W, N, NW, NE, NN, WW, NEE) = %s gives %s, the format's formula gives %s (%d of %d "
                "evaluations differ)" % (name, hood, got, want, len(bad), rows), fn=f)


def rule_row_reset(ctx):
    """at a row wrap the remembered gradient of the left neighbour is cleared"""
    from ..facts import op_place, op_const_int
    rid = "R-ROW-RESET"
    ctx.rule(rid, "property 8 of the MA tree is W minus the local gradient (property 9) of the pixel to the left, and plain W in column 0.  "
                  "Properties::record keeps that gradient in PredictorState.prev_grad; on every path through the row wrap (the store of "
                  "constant 0 into the state's `x`) the last store into `prev_grad` before the return is the constant 0.  Decided by a "
                  "reachability walk over (block, passed the wrap, prev_grad is zero) states; a same-crate helper called on the way "
                  "(`begin_next_row`) contributes its own summary.  A wrap that keeps the gradient of the last pixel of the row above "
                  "shifts property 8 of every first pixel, for trees that test it")
    md = ctx.prog.crate("jxl_modular")
    fs = [g for g in md.fn_list if g.path.endswith("::record") and "predictor::Properties" in g.path and g.kind == "AssocFn"]
    if len(fs) != 1:
        ctx.anchor_missing(rid, "jxl_modular::predictor::Properties::record")
        return
    f = fs[0]
    ctx.seen(f)

    def field_store(st, name):
        if st[0] != "=" or len(st[1]) < 2:
            return None
        fl = [e for e in st[1][1:] if isinstance(e, list) and e[0] == "."]
        if not fl or fl[-1][2] != name or "PredictorState" not in str(fl[-1][3]):
            return None
        k = op_const_int(st[2][1]) if st[2][0] == "use" else None
        return ("const", k) if k is not None else ("var", None)

    seen_stores = {"x": 0, "prev_grad": 0}
    memo = {}

    def summary(g, depth):
        """set of (wrapped, zero) at the returns of g, zero in {None = untouched, True, False}"""
        if g.path in memo:
            return memo[g.path]
        memo[g.path] = {(False, None)}
        start = (0, False, None)
        seen, work, outs = {start}, [start], set()
        while work:
            b, wrapped, zero = work.pop()
            for st in g.stmts(b):
                a, gr = field_store(st, "x"), field_store(st, "prev_grad")
                if a == ("const", 0):
                    wrapped = True
                    seen_stores["x"] += 1
                if gr:
                    zero = gr == ("const", 0)
                    seen_stores["prev_grad"] += 1
            t = g.term(b)
            if t[0] == "ret":
                outs.add((wrapped, zero))
                continue
            nxt = [(wrapped, zero)]
            if t[0] == "call" and depth > 0:
                c = callee(t)
                h = md.fns.get(c.get("res") or c["fn"]) or md.fns.get(c["fn"]) if c else None
                if h is not None and "predictor" in h.path and h.kind != "Promoted" and len(h.blocks) < 200:
                    nxt = [(wrapped or w2, zero if z2 is None else z2) for (w2, z2) in summary(h, depth - 1)]
            for x in g.succs(b):
                if g.is_cleanup(x):
                    continue
                for (w3, z3) in nxt:
                    s2 = (x, w3, z3)
                    if s2 not in seen:
                        seen.add(s2)
                        work.append(s2)
        memo[g.path] = outs
        return outs

    outs = summary(f, 2)
    if not seen_stores["x"] or not seen_stores["prev_grad"]:
        ctx.anchor_missing(rid, "the stores `x = 0` (row wrap) and `prev_grad = ..` on PredictorState in Properties::record or the helpers it calls")
        return
    ctx.count(rid + ".outcomes", len(outs))
    if any(w and z is not True for (w, z) in outs):
        ctx.bad(rid, "prev_grad-cleared-at-wrap|not", "a path through the row wrap returns with prev_grad not cleared: the first pixel of the next row "
                "sees the gradient of the last pixel of this row in property 8", fn=f)
    else:
        ctx.ok(rid, "prev_grad-cleared-at-wrap", "every path through the row wrap ends with prev_grad = 0", nontrivial=True, fn=f)


def main(pid, tier, repo=None):
    ctx = Ctx(pid, tier, configs=("workspace",), repo=repo)
    specconst.run(ctx, pid, floor=2)
    enummap.run(ctx, pid)
    rule_chansplit(ctx)
    rule_rle_scope(ctx)
    rule_prevchan(ctx)
    rule_prevdepth(ctx)
    rule_table_index(ctx)
    rule_palette_fastpath(ctx)
    rule_palette_delta(ctx)
    rule_predictor_formula(ctx)
    rule_row_reset(ctx)
    from . import fixguards
    fixguards.run(ctx, pid)
    ctx.not_decided("that every decoded sample equals the encoded integer: predictors (incl. the self-correcting one), context-tree lookup, "
                    "the specialised fast paths agreeing with the general path, RLE/LZ77 state across channels, inverse RCT / palette / "
                    "squeeze arithmetic, group layout")
    return ctx.finish(
        "Claimed narrowly: three structural necessary conditions of exact lossless decoding. The format tables used by Modular decoding "
        "(weighted-predictor reciprocal table, delta palette) have the specified values; the 14 predictor codes denote the specified "
        "predictors (discriminants and TryFrom<u32> map); every channel is assigned to exactly one of the global / group sections because "
        "the two partition predicates are identical, and the LF-group threshold is used consistently. Sample exactness is not decided.")

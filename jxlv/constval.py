"""Parser for rustc's pretty-printed constant values (the `consts` section of the fact files) into Python values:
numbers -> int / float, arrays and tuples -> list, byte strings -> bytes, paths (enum variants, unit structs) -> str,
`Name(args)` / `Name { f: v }` -> {"ctor": name, "args": [...]}.  Anything it does not understand raises ValueError."""
import re

_NUM = re.compile(r"-?(?:\d[\d_]*\.?\d*(?:[eE][-+]?\d+)?|\.\d+)(?:_?(?:f32|f64|u8|u16|u32|u64|u128|usize|i8|i16|i32|i64|i128|isize))?")


class _P:
    def __init__(self, s):
        self.s = s
        self.i = 0

    def ws(self):
        while self.i < len(self.s) and self.s[self.i] in " \n\t":
            self.i += 1

    def peek(self):
        self.ws()
        return self.s[self.i] if self.i < len(self.s) else ""

    def expect(self, ch):
        self.ws()
        if not self.s.startswith(ch, self.i):
            raise ValueError("expected %r at %d in %r" % (ch, self.i, self.s[max(0, self.i - 20):self.i + 20]))
        self.i += len(ch)

    def seq(self, close):
        out = []
        while True:
            if self.peek() == close:
                self.i += 1
                return out
            out.append(self.value())
            if self.peek() == ",":
                self.i += 1
            elif self.peek() == ";":
                # [v; N]
                self.i += 1
                n = self.value()
                self.expect(close)
                return [out[0]] * int(n)

    def bytestr(self):
        # at b"
        self.i += 2
        out = bytearray()
        while True:
            c = self.s[self.i]
            if c == '"':
                self.i += 1
                return bytes(out)
            if c == "\\":
                n = self.s[self.i + 1]
                if n == "x":
                    out.append(int(self.s[self.i + 2:self.i + 4], 16))
                    self.i += 4
                else:
                    out.append({"n": 10, "r": 13, "t": 9, "0": 0, "\\": 92, '"': 34, "'": 39}[n])
                    self.i += 2
            else:
                out.append(ord(c))
                self.i += 1

    def value(self):
        c = self.peek()
        if c == "[":
            self.i += 1
            return self.seq("]")
        if c == "(":
            self.i += 1
            return self.seq(")")
        if c == "&":
            self.i += 1
            return self.value()
        if c == "*" and self.s.startswith('*b"', self.i):
            self.i += 1
            return self.bytestr()
        if c == "b" and self.s.startswith('b"', self.i):
            return self.bytestr()
        if c == '"':
            j = self.s.index('"', self.i + 1)
            v = self.s[self.i + 1:j]
            self.i = j + 1
            return v
        m = _NUM.match(self.s, self.i)
        if m and m.group(0) and (c.isdigit() or c in "-."):
            tok = m.group(0)
            self.i = m.end()
            suf = re.search(r"(f32|f64|u8|u16|u32|u64|u128|usize|i8|i16|i32|i64|i128|isize)$", tok)
            body = tok[:suf.start()] if suf else tok
            body = body.rstrip("_").replace("_", "")
            if suf and suf.group(1).startswith("f") or "." in body or "e" in body.lower():
                return float(body)
            return int(body)
        if self.s.startswith("true", self.i):
            self.i += 4
            return True
        if self.s.startswith("false", self.i):
            self.i += 5
            return False
        # path, possibly followed by (..) or {..}
        m = re.compile(r"[A-Za-z_<][\w:<>' ,]*?(?=[\(\{,\]\)\};]|$)").match(self.s, self.i)
        if m:
            name = m.group(0).strip()
            self.i = m.end()
            if self.peek() == "(":
                self.i += 1
                return {"ctor": name, "args": self.seq(")")}
            if self.peek() == "{":
                self.i += 1
                args = []
                while True:
                    if self.peek() == "}":
                        self.i += 1
                        break
                    m2 = re.compile(r"\s*(\w+)\s*:").match(self.s, self.i)
                    if not m2:
                        raise ValueError("struct field at %d" % self.i)
                    self.i = m2.end()
                    args.append([m2.group(1), self.value()])
                    if self.peek() == ",":
                        self.i += 1
                return {"ctor": name, "fields": args}
            return name
        raise ValueError("cannot parse constant at %d: %r" % (self.i, self.s[self.i:self.i + 40]))


def parse(s):
    p = _P(s)
    v = p.value()
    p.ws()
    if p.i != len(s):
        # trailing `: type` annotations (Indirect allocs) are not values we can read
        raise ValueError("trailing text %r" % s[p.i:p.i + 40])
    return v


def flat(v):
    """flatten nested lists of numbers"""
    if isinstance(v, list):
        out = []
        for x in v:
            out.extend(flat(x))
        return out
    return [v]


def f32_round(x):
    import struct
    return struct.unpack("f", struct.pack("f", x))[0]


def f32_ulps(a, b):
    import struct
    ia = struct.unpack("i", struct.pack("f", a))[0]
    ib = struct.unpack("i", struct.pack("f", b))[0]
    if ia < 0:
        ia = -(ia & 0x7fffffff)
    if ib < 0:
        ib = -(ib & 0x7fffffff)
    return abs(ia - ib)
